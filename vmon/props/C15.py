"""C15 - lattice derivatives, effective masses and plateaus equal their defining formulas where defined.

Oracle: vmon.ref.corr holds the per-timeslice formulas of every variant written with explicit indices
(deriv: symmetric, forward, backward, improved, log; second_deriv: symmetric, big_symmetric, improved, log;
m_eff: log, logsym, arccosh directly, cosh / periodic / sinh as a plan: which timeslices must be undefined,
which must solve the ratio equation, which are mid-lattice fills; plateau: plain average and closed-form
weighted average = constant least-squares fit).  The formulas are evaluated with the scalar overloads of the
library (judged by C01) on the entries of the correlator and compared with the returned correlator in value,
every fluctuation, configuration lists and replica means, together with the definedness rule:
output undefined exactly where a referenced input timeslice is undefined or the formula has no real
solution; an undefined input timeslice never raises while some output timeslice is defined.
Root variants are judged by substituting the returned mass into the cosh / sinh ratio (value and fluctuations).
For T = 4..8 every set of undefined timeslices is enumerated (both data kinds); larger T are sampled.
A mutation monitor (the one of C14) is tapped on deriv, second_deriv, m_eff, plateau and fit.
"""
import inspect
import math

import numpy as np

from .. import taps
from ..ctx import digest
from ..snap import is_obs, is_corr
from ..ref import corr as refc
from . import C14 as base
from .C14 import same_scalar, judge_corr, to_model, Layout, hint_global, magnitude, MutationMonitor, any_digest

ID = 'C15'
LEVEL = 'exploration'
DECIDING = ['variant_calls', 'timeslices_judged', 'entries_compared', 'root_substitutions', 'plateau_fits', 'plateau_averages',
            'patterns_enumerated', 'tap:Corr.deriv', 'tap:Corr.second_deriv', 'tap:Corr.m_eff', 'tap:Corr.plateau']
RULE = ('cases: single-valued real correlators, Obs on 1-2 replicas (contiguous / strided / gapped lists); (enum) T=4..8 with EVERY set of '
        'undefined timeslices that leaves at least one timeslice defined (2^T - 1 masks per T, 491 in all; exhaustive for this sub-space), '
        'once with positive data (cosh / exponential / noisy positive) and once with sign-changing data (sinh / oscillating / random signs); '
        '(sample) T=9..24 with undefined sets of class none / boundary / one interior / several; (roots) clean cosh / sinh data, even and odd T, '
        'for the substitution test; (plateau) random inclusive ranges, both methods, explicit range / prange, auto_gamma on / off. In every case '
        'all 5 deriv, 4 second_deriv and 6 m_eff variants are called and each output timeslice is compared. Non-trivial: at least one defined '
        'output timeslice was compared in value and fluctuations (every formula references >= 2 input timeslices); distinct = digest of '
        '(T, undefined set, data).')
ASSUMPTIONS = ['scalar overloads of Obs (+ - * / ** log arccosh cosh sinh) used to evaluate the formulas are judged by C01',
               'tolerance 1e-10 * scale on values, fluctuations and replica means of the closed formulas; root variants: substituted ratio within '
               '1e-6 relative (value) and 1e-7 * scale (fluctuations); constant fit: value within the termination tolerance of the minimiser '
               '((a - a*)^2 sum(w) <= 1e-7 chi^2_min), fluctuations 1e-7 * scale',
               'root variants are judged on timeslices whose exact solution (bisection on the central values) is m <= 2.5: scipy.optimize.fsolve '
               'started from the default guess 1.0 converges for m up to 3 for every T = 4..24 and every t (scan); generated data keep neighbouring '
               'ratios below ~10',
               'a ratio within 1e-7 of the boundary of the solvable interval of the cosh / sinh equation is borderline: counted, not judged',
               'sinh variant: the two mid-lattice timeslices (even T) repeat their predecessor, as documented in the code comment',
               'central values are never exactly 0 (log of a zero ratio is not exercised)',
               'when every output timeslice is expected to be undefined the call may raise (a completely undefined correlator cannot be constructed)']
BUDGET = {'quick': 45, 'thorough': 540}

PE = None

DERIV = ['symmetric', 'forward', 'backward', 'improved', 'log']
SECOND = ['symmetric', 'big_symmetric', 'improved', 'log']
MEFF_DIRECT = ['log', 'logsym', 'arccosh']
MEFF_ROOT = ['cosh', 'periodic', 'sinh']
ENUM_T = [4, 5, 6, 7, 8]
ENUM = [(T, mask) for T in ENUM_T for mask in refc.none_patterns(T)]


class FN:
    log = staticmethod(np.log)
    arccosh = staticmethod(np.arccosh)
    val = staticmethod(lambda x: x.value)


def setup(ctx):
    global PE
    import pyerrors as pe
    PE = pe
    base.PE = pe
    base.CTX = ctx
    for name in ('deriv', 'second_deriv', 'm_eff', 'plateau', 'fit'):
        taps.tap_method(pe.Corr, name, MutationMonitor(name, vars(pe.Corr)[name]))


def teardown(ctx):
    taps.report(ctx)
    taps.remove_all()


ENUM_SPLIT = 4      # the enumeration is dealt to 4 kinds per data sign: kinds are interleaved round-robin by the runner, so the
#                     enumeration is finished long before the sampled kinds and a time budget that bites cannot truncate it


def plan(tier):
    m = 1 if tier == 'quick' else 10
    p = []
    for tag in (['enum'] if tier == 'quick' else ['enum', 'enum2']):
        for sign in ('positive', 'changing'):
            for k in range(ENUM_SPLIT):
                p.append(('%s:%s:%d' % (tag, sign, k), len(ENUM[k::ENUM_SPLIT])))
    for k in range(2):
        p += [('sample:%d' % k, 130 * m), ('roots:%d' % k, 80 * m), ('plateau:%d' % k, 100 * m)]
    return p


# ------------------------------------------------------------------------------------------
def data_profile(rng, T, sign, kind=None):
    t = np.arange(T)
    if sign == 'positive':
        kind = kind or str(rng.choice(['cosh', 'exp', 'noisy']))
        if kind == 'cosh':
            v = rng.uniform(0.5, 2.0) * np.cosh(rng.uniform(0.1, 0.7) * (t - T / 2))
        elif kind == 'exp':
            v = rng.uniform(0.5, 3.0) * np.exp(-rng.uniform(0.1, 0.6) * t) + rng.uniform(0.0, 0.05)
        else:
            v = rng.uniform(0.3, 3.0, size=T)
    else:
        kind = kind or str(rng.choice(['sinh', 'oscillating', 'random']))
        if kind == 'sinh':
            v = rng.uniform(0.5, 2.0) * np.sinh(rng.uniform(0.1, 0.7) * (T / 2 - t))
        elif kind == 'oscillating':
            v = rng.uniform(0.5, 3.0) * np.cos(rng.uniform(0.5, 1.4) * t + rng.uniform(0, 6.28)) * np.exp(-0.05 * t)
        else:
            v = rng.uniform(0.3, 3.0, size=T) * rng.choice([-1.0, 1.0], size=T)
    v = np.where(np.abs(v) < 0.05, np.where(v < 0, -0.06, 0.06), v)
    return [float(x) for x in v], kind


def build(rng, T, mask, sign, kind=None, rel=0.02, prange=None, padding_ok=True):
    lay = Layout(rng, nmin=10, nmax=14)
    vals, kind = data_profile(rng, T, sign, kind)
    entries = [lay.obs(rng, vals[t], rel) if mask[t] else None for t in range(T)]
    first = next(t for t in range(T) if mask[t])
    last = max(t for t in range(T) if mask[t])
    kw = {}
    if prange is not None:
        kw['prange'] = prange
    if padding_ok and (first > 0 or last < T - 1) and rng.random() < 0.5:
        A = PE.Corr(entries[first:last + 1], padding=[first, T - 1 - last], **kw)
    else:
        A = PE.Corr(list(entries), **kw)
    return A, entries, kind


def context_of(mask):
    cls = refc.pattern_class(mask)
    return {'none': 'fully-defined', 'boundary': 'undefined-boundary-slices'}.get(cls, 'undefined-interior-slice')


def neighbourhood_hints(c, width=2):
    mags = [magnitude(x) if x is not None else (0.0, 0.0) for x in c]
    T = len(c)
    out = []
    for t in range(T):
        w = mags[max(0, t - width):t + width + 1]
        out.append((max(a for a, _ in w), max(b for _, b in w)))
    return out


def attempt(fn):
    try:
        return fn(), None
    except Exception as e:
        return None, e


def report_raise(ctx, exc, label, exp_any_defined, mask, c=None):
    if not exp_any_defined:
        ctx.count('all_undefined_result_raised')
        return
    import traceback
    ctx.ev()
    context = context_of(mask)
    if c is not None and label.endswith('.log') and context != 'undefined-interior-slice':
        # the logarithm is undefined on non-positive timeslices: they act like undefined ones
        if context_of([m and c[t].value > 0 for t, m in enumerate(mask)]) == 'undefined-interior-slice':
            context = 'non-positive-interior-slice'
    ctx.violation('raise:%s:%s:%s' % (label, type(exc).__name__, context),
                  {'call': label, 'pattern': ''.join('x' if m else '.' for m in mask), 'message': str(exc)[:300],
                   'traceback': ''.join(traceback.format_exception(type(exc), exc, exc.__traceback__))[-900:]})


# ------------------------------------------------------------------------------------------
def judge_formula(ctx, A, c, mask, label, call, exp_flat, hints):
    ctx.count('variant_calls')
    d0 = any_digest(A)
    res, exc = attempt(call)
    ctx.ev()
    if any_digest(A) != d0:
        ctx.violation('mutation:%s:self' % label.split('.')[0], {'call': label})
    any_def = any(x is not None for x in exp_flat)
    if exc is not None:
        report_raise(ctx, exc, label, any_def, mask, c)
        return 0
    return judge_corr(ctx, res, refc.unflat(exp_flat), label, hints=hints)


MAX_MASS = 2.5     # scipy's fsolve started from the default guess 1.0 converges for exact solutions up to m = 3 (scan over T = 4..24)


def own_fsolve_converges(kind, a, b, r, guess=1.0):
    """classification only: does the same solver, started from the same guess, report convergence on plain floats?"""
    import scipy.optimize
    F = np.cosh if kind == 'cosh' else np.sinh
    with np.errstate(all='ignore'):
        out = scipy.optimize.fsolve(lambda x, d: F(x * a) / F(x * b) - d, guess, r, full_output=True)
    return out[2] == 1


def judge_roots(ctx, A, c, mask, variant):
    label = 'm_eff.' + variant
    family = 'sinh' if variant == 'sinh' else 'cosh'
    T = len(c)
    plan = refc.m_eff_root_plan(c, variant, FN)
    ctx.count('variant_calls')
    res, exc = attempt(lambda: A.m_eff(variant))
    any_def = any(p[0] == 'root' for p in plan)
    if exc is not None:
        report_raise(ctx, exc, label, any_def, mask)
        return 0
    ctx.ev()
    if not is_corr(res):
        ctx.violation('result-type:' + label, {'got': type(res).__name__})
        return 0
    if not ctx.equal(res.T, T, 'shape:%s:T' % label) or not ctx.equal(res.N, 1, 'shape:%s:N' % label):
        return 0
    got = refc.flat(to_model(res))
    F = np.cosh if variant != 'sinh' else np.sinh
    compared = 0
    ctx.count('timeslices_judged', T)
    pat = {'got_pattern': ''.join('.' if x is None else 'x' for x in got), 'plan': [p[0] + (':' + p[1] if p[0] in ('undefined', 'skip') else '') for p in plan],
           'input_pattern': ''.join('x' if m else '.' for m in mask), 'T': T}
    for t, p in enumerate(plan):
        g = got[t]
        ctx.ev()
        if p[0] == 'skip':
            ctx.count('borderline_not_judged')
            continue
        if p[0] == 'undefined':
            if g is not None:
                if p[1] == 'no-real-solution':
                    a, b = t - T / 2, t + 1 - T / 2
                    ctx.violation('m_eff:%s:no-real-solution-returns-number' % family,
                                  dict(pat, variant=variant, t=t, ratio=c[t].value / c[t + 1].value, a=a, b=b, returned=g.value,
                                       why='C(t)/C(t+1) lies outside the range of F(m a)/F(m b) over real m' if abs(a) != abs(b)
                                       else '|a| = |b|: the ratio F(m a)/F(m b) does not depend on m'))
                else:
                    ctx.violation('pattern:%s:defined-where-expected-undefined' % label, dict(pat, t=t, reason=p[1]))
            continue
        if p[0] == 'copy':
            src = got[p[1]] if p[1] >= 0 else None
            if (g is None) != (src is None) or (g is not None and g is not src and any_digest(g) != any_digest(src)):
                ctx.violation('%s:mid-lattice-fill' % label, dict(pat, t=t))
            continue
        _, ratio, a, b, kind = p
        mstar = refc.solve_mass(kind, a, b, ratio.value)
        if mstar is None or mstar > MAX_MASS:
            ctx.count('root_beyond_solver_regime_not_judged')
            continue
        if g is None:
            if own_fsolve_converges(kind, a, b, ratio.value):
                ctx.violation('pattern:%s:undefined-where-expected-defined' % label, dict(pat, t=t, ratio=ratio.value, a=a, b=b, reference_root=mstar))
            else:
                ctx.count('solver_not_converged_slice_undefined')
            continue
        if not is_obs(g):
            ctx.violation('value:%s:type' % label, {'got': type(g).__name__})
            continue
        if not g.value >= 0:
            ctx.violation('%s:negative-mass' % label, dict(pat, t=t, returned=g.value))
            continue
        back = refc.ratio_at(F, g, a, b)
        ctx.count('root_substitutions')
        rv, rd = magnitude(ratio)
        if abs(back.value - ratio.value) > 1e-6 * abs(ratio.value) and not own_fsolve_converges(kind, a, b, ratio.value):
            ctx.violation('m_eff:%s:unconverged-root-returned' % family,
                          dict(pat, variant=variant, t=t, ratio=ratio.value, a=a, b=b, returned=g.value, reference_root=mstar))
            continue
        ok = ctx.close(back.value, ratio.value, 'value:%s:substitution:value' % label, 't=%d of T=%d' % (t, T), rtol=1e-6,
                       detail=dict(pat, t=t, returned=g.value, reference_root=mstar))
        sb, sr = base.snap(back), base.snap(ratio)
        if sorted(sb['chains']) != sorted(sr['chains']):
            ctx.ev()
            ctx.violation('value:%s:substitution:chain-names' % label, {'got': sorted(sb['chains']), 'exp': sorted(sr['chains'])})
            continue
        for ch in sorted(sr['chains']):
            if [int(i) for i in sb['chains'][ch][0]] != [int(i) for i in sr['chains'][ch][0]]:
                ctx.ev()
                ctx.violation('value:%s:substitution:configuration-list' % label, {'chain': ch})
                continue
            ok &= ctx.close(sb['chains'][ch][1], sr['chains'][ch][1], 'value:%s:substitution:fluctuations' % label,
                            't=%d of T=%d chain %s' % (t, T, ch), rtol=1e-7, scale=rd, detail=dict(pat, t=t, returned=g.value))
        compared += 1
    return compared


def all_variants(ctx, rng, A, entries, mask, sign, roots=True):
    c = list(entries)
    T = len(c)
    cls = refc.pattern_class(mask)
    hints = neighbourhood_hints(c)
    n = 0
    for v in DERIV:
        ctx.cell('deriv.' + v, cls, sign)
        call = (lambda v=v: A.deriv(v)) if v != 'symmetric' or rng.random() < 0.5 else (lambda: A.deriv())
        n += judge_formula(ctx, A, c, mask, 'deriv.' + v, call, refc.deriv(c, v, FN), hints)
    for v in SECOND:
        ctx.cell('second_deriv.' + v, cls, sign)
        call = (lambda v=v: A.second_deriv(v)) if v != 'symmetric' or rng.random() < 0.5 else (lambda: A.second_deriv())
        n += judge_formula(ctx, A, c, mask, 'second_deriv.' + v, call, refc.second_deriv(c, v, FN), hints)
    for v in MEFF_DIRECT:
        ctx.cell('m_eff.' + v, cls, sign)
        call = (lambda v=v: A.m_eff(v)) if v != 'log' or rng.random() < 0.5 else (lambda: A.m_eff())
        exp, why = refc.m_eff_direct(c, v, FN)
        n += judge_formula(ctx, A, c, mask, 'm_eff.' + v, call, exp, None)
    if roots:
        for v in MEFF_ROOT:
            ctx.cell('m_eff.' + v, cls, sign)
            n += judge_roots(ctx, A, c, mask, v)
    return n


# ------------------------------------------------------------------------------------------
def judge_plateau(ctx, A, c, mask, first, last, method, how, auto_gamma):
    """how: 'range' (explicit list) | 'prange' (taken from the correlator)"""
    label = 'plateau.' + ('fit' if method == 'fit' else 'avg')
    rng_list = [first, last]
    kw = {}
    if method != 'fit' or how == 'kw':
        kw['method'] = method
    if auto_gamma:
        kw['auto_gamma'] = True
    if how == 'prange':
        call = lambda: A.plateau(**kw)
    else:
        call = lambda: A.plateau(rng_list, **kw)
    res, exc = attempt(call)
    ctx.ev()
    if rng_list != [first, last]:
        ctx.violation('mutation:plateau:arg0', {'after': rng_list, 'before': [first, last]})
    ts = [t for t in range(first, last + 1) if c[t] is not None]
    if not ts:
        if exc is None:
            ctx.violation('%s:all-undefined-range-returns' % label, {'range': [first, last], 'got': repr(res)[:100]})
        else:
            ctx.count('plateau_empty_range_raised')
        return 0
    if exc is not None:
        report_raise(ctx, exc, label, True, mask)
        return 0
    if not is_obs(res):
        ctx.violation('result-type:' + label, {'got': type(res).__name__})
        return 0
    sub = [c[t] for t in ts]
    vs = max(magnitude(x)[0] for x in sub)
    ds = max(magnitude(x)[1] for x in sub)
    what = 'range [%d,%d] pattern %s' % (first, last, ''.join('x' if m else '.' for m in mask))
    if method == 'fit':
        ctx.count('plateau_fits')
        errs = [c[t].dvalue for t in range(len(c)) if c[t] is not None]
        w = [None if c[t] is None else 1.0 / c[t].dvalue ** 2 for t in range(len(c))]
        exp = refc.plateau_constant_fit(c, w, first, last)
        # Levenberg-Marquardt stops when chi^2 changes by less than ftol = 1e-8 relative: (a - a*)^2 sum(w) <~ 1e-8 chi^2_min
        chi2 = sum(w[t] * (c[t].value - exp.value) ** 2 for t in ts)
        tol = math.sqrt(1e-7 * chi2 / sum(w[t] for t in ts)) + 1e-9 * abs(exp.value)
        ctx.close(res.value, exp.value, 'value:%s:value' % label, what, rtol=0.0, atol=tol, detail={'errors': errs, 'chi2_min': chi2})
        sg, se = base.snap(res), base.snap(exp)
        if sorted(sg['chains']) != sorted(se['chains']):
            ctx.ev()
            ctx.violation('value:%s:chain-names' % label, {'got': sorted(sg['chains']), 'exp': sorted(se['chains'])})
            return 0
        for ch in sorted(se['chains']):
            ctx.equal([int(i) for i in sg['chains'][ch][0]], [int(i) for i in se['chains'][ch][0]], 'value:%s:configuration-list' % label, what)
            ctx.close(sg['chains'][ch][1], se['chains'][ch][1], 'value:%s:fluctuations' % label, what + ' chain ' + ch, rtol=1e-7, scale=ds)
    else:
        ctx.count('plateau_averages')
        exp = refc.plateau_average(c, first, last)
        same_scalar(ctx, res, exp, 'value:' + label, what, vs, ds)
    return 1


def plateaus(ctx, rng, A, entries, mask, nfit=2, navg=6):
    c = list(entries)
    T = len(c)
    A.gamma_method()
    n = 0
    for k in range(navg):
        a = int(rng.integers(0, T))
        b = int(rng.integers(a, T))
        n += judge_plateau(ctx, A, c, mask, a, b, str(rng.choice(['avg', 'average', 'mean'])), 'range', False)
    for k in range(nfit):
        a = int(rng.integers(0, T))
        b = int(rng.integers(a, T))
        n += judge_plateau(ctx, A, c, mask, a, b, 'fit', str(rng.choice(['range', 'kw'])), False)
    return n


# ------------------------------------------------------------------------------------------
def run_case(ctx, kind, idx, rng):
    full_kind = kind
    if kind.startswith('enum'):
        _, sign, k = kind.split(':')
        T, mask = ENUM[int(k)::ENUM_SPLIT][idx]
        ctx.count('patterns_enumerated')
        A, entries, dk = build(rng, T, mask, sign)
        n = all_variants(ctx, rng, A, entries, mask, sign)
        n += plateaus(ctx, rng, A, entries, mask, nfit=1, navg=3)
    elif kind.startswith('sample'):
        idx = 2 * idx + int(kind[-1])
        T = int(rng.integers(9, 25))
        cls = ['none', 'boundary', 'one-interior', 'several'][idx % 4]
        sign = ['positive', 'changing'][(idx // 4) % 2]
        if cls == 'none':
            mask = [True] * T
        elif cls == 'boundary':
            p0, p1 = int(rng.integers(0, 4)), int(rng.integers(0, 4))
            if p0 + p1 == 0:
                p0 = 1
            mask = [p0 <= t < T - p1 for t in range(T)]
        elif cls == 'one-interior':
            t0 = int(rng.integers(1, T - 1))
            mask = [t != t0 for t in range(T)]
        else:
            mask = [bool(rng.random() > rng.choice([0.15, 0.4])) for _ in range(T)]
            if not any(mask):
                mask[int(rng.integers(0, T))] = True
        A, entries, dk = build(rng, T, mask, sign)
        n = all_variants(ctx, rng, A, entries, mask, sign)
    elif kind.startswith('roots'):
        idx = 2 * idx + int(kind[-1])
        T = int(rng.integers(4, 25))
        sign = ['positive', 'changing'][idx % 2]
        mask = [True] * T
        if idx % 3 == 0:
            mask[int(rng.integers(0, T))] = False
        A, entries, dk = build(rng, T, mask, sign, kind='cosh' if sign == 'positive' else 'sinh', rel=0.004)
        c = list(entries)
        n = 0
        for v in (['cosh', 'periodic'] if sign == 'positive' else ['sinh', 'cosh']):
            ctx.cell('m_eff.' + v, refc.pattern_class(mask), sign)
            n += judge_roots(ctx, A, c, mask, v)
    elif kind.startswith('plateau'):
        idx = 2 * idx + int(kind[-1])
        T = int(rng.integers(4, 25))
        sign = ['positive', 'changing'][idx % 2]
        mask = [bool(rng.random() > 0.25) for _ in range(T)]
        if not any(mask):
            mask[0] = True
        a = int(rng.integers(0, T))
        b = int(rng.integers(a, T))
        how = ['range', 'prange', 'kw'][idx % 3]
        A, entries, dk = build(rng, T, mask, sign, prange=[a, b] if (how == 'prange' and idx % 2) else None)
        if how == 'prange' and not idx % 2:
            A.set_prange([a, b])
        elif how != 'prange' and rng.random() < 0.5 and T >= 3:
            # a plateau range stored earlier must not override the range passed explicitly
            # (history: set_prange, then plateau(other range); added after seeded change seed3-C15)
            a2 = int(rng.integers(0, T - 1))
            b2 = int(rng.integers(a2 + 1, T))
            if [a2, b2] != [a, b]:
                A.set_prange([a2, b2])
                ctx.count('plateau_explicit_range_with_other_stored_prange')
        c = list(entries)
        auto = bool((idx // 3) % 2)
        if not auto:
            A.gamma_method()
        ctx.cell('plateau.fit', how, 'auto_gamma' if auto else 'analysed', sign)
        n = judge_plateau(ctx, A, c, mask, a, b, 'fit', how, auto)
        meth = str(rng.choice(['avg', 'average', 'mean']))
        ctx.cell('plateau.avg', how, sign)
        n += judge_plateau(ctx, A, c, mask, a, b, meth, how, auto)
        dk = 'plateau'
    else:
        raise ValueError(kind)
    if n > 0:
        ctx.nontrivial.add(digest(len(mask), mask, any_digest(A)))
    if len(ctx.samples) < 4:
        ctx.sample({'kind': full_kind, 'T': len(mask), 'pattern': ''.join('x' if m else '.' for m in mask), 'data': dk,
                    'values': [None if e is None else e.value for e in entries]})
