"""C15 - lattice derivatives, effective masses and plateaus equal their defining formulas where defined.

Oracle: vmon.ref.corr holds the per-timeslice formulas of every variant written with explicit indices
(deriv: symmetric, forward, backward, improved, log; second_deriv: symmetric, big_symmetric, improved, log;
m_eff: log, logsym, arccosh directly, cosh / periodic / sinh as a plan: which timeslices must be undefined,
which must solve the ratio equation, which are mid-lattice fills; plateau: plain average and closed-form
weighted average = constant least-squares fit).  The formulas are evaluated with the scalar overloads of the
library (judged by C01) on the entries of the correlator and compared with the returned correlator in value,
every fluctuation, configuration lists and replica means, together with the definedness rule:
output undefined exactly where a referenced input timeslice is undefined or the formula has no real
solution; an undefined input timeslice never raises while some output timeslice is defined.
Root variants are judged by substituting the returned mass into the cosh / sinh ratio (value and fluctuations).
For T = 4..8 every set of undefined timeslices is enumerated (both data kinds); larger T are sampled.
A mutation monitor (the one of C14) is tapped on deriv, second_deriv, m_eff, plateau and fit.
"""
import copy
import inspect
import math

import numpy as np

from .. import taps
from ..ctx import digest
from ..snap import is_obs, is_corr
from ..ref import corr as refc
from . import C14 as base
from .C14 import same_scalar, judge_corr, to_model, Layout, hint_global, magnitude, MutationMonitor, any_digest

ID = 'C15'
LEVEL = 'exploration'
DECIDING = ['rejections_judged', 'zero_ratio_timeslices_judged', 'repeat_calls_compared', 'fits_with_shared_function_object', 'held_results_checked', 'scale_invariance_pairs', 'variant_calls', 'timeslices_judged', 'entries_compared', 'root_substitutions', 'plateau_fits', 'plateau_averages',
            'patterns_enumerated', 'tap:Corr.deriv', 'tap:Corr.second_deriv', 'tap:Corr.m_eff', 'tap:Corr.plateau']
RULE = ('cases: single-valued real correlators, Obs on 1-2 replicas (contiguous / strided / gapped lists); (enum) T=4..8 with EVERY set of '
        'undefined timeslices that leaves at least one timeslice defined (2^T - 1 masks per T, 491 in all; exhaustive for this sub-space), '
        'once with positive data (cosh / exponential / noisy positive) and once with sign-changing data (sinh / oscillating / random signs); '
        '(sample) T=9..24 with undefined sets of class none / boundary / one interior / several; (roots) clean cosh / sinh data, even and odd T, '
        'for the substitution test, default and other guesses; (plateau) random inclusive ranges incl. first == last and the full extent, numpy '
        'integers in the range, both methods, Corr.fit with a constant called directly, explicit range / prange / another stored prange, auto_gamma '
        'on / off with another stored analysis; (onebyone) timeslices written as 1x1 matrices. Generated correlators carry at random an overall factor '
        '1e-8 ... 1e8, a tag, a stored prange, the reweighted flag, the same Obs object on neighbouring timeslices, bare chain names; m_eff of s * C is '
        'compared with m_eff of C (same undefined timeslices, same masses); results are held and re-checked after all later calls of the case. In every case '
        'all 5 deriv, 4 second_deriv and 6 m_eff variants are called and each output timeslice is compared. Non-trivial: at least one defined '
        'output timeslice was compared in value and fluctuations (every formula references >= 2 input timeslices); distinct = digest of '
        '(T, undefined set, data).')
ASSUMPTIONS = ['scalar overloads of Obs (+ - * / ** log arccosh cosh sinh) used to evaluate the formulas are judged by C01',
               'tolerance 1e-10 * scale on values, fluctuations and replica means of the closed formulas; root variants: substituted ratio within '
               '1e-6 relative (value) and 1e-7 * scale (fluctuations); constant fit: value within the termination tolerance of the minimiser '
               '((a - a*)^2 sum(w) <= 1e-7 chi^2_min), fluctuations 1e-7 * scale',
               'root variants are judged on timeslices whose exact solution (bisection on the central values) is m <= 2.5: scipy.optimize.fsolve '
               'started from the default guess 1.0 converges for m up to 3 for every T = 4..24 and every t (scan); generated data keep neighbouring '
               'ratios below ~10',
               'a ratio within 1e-7 of the boundary of the solvable interval of the cosh / sinh equation is borderline: counted, not judged',
               'sinh variant: the two mid-lattice timeslices (even T) repeat their predecessor, as documented in the code comment',
               'central values are never exactly 0 (log of a zero ratio is not exercised)',
               'weights of the constant fit are the errors in force at call time: the stored analysis (auto_gamma off) or a default analysis of '
               'independent copies (auto_gamma on)',
               'when every output timeslice is expected to be undefined the call may raise (a completely undefined correlator cannot be constructed)']
BUDGET = {'quick': 45, 'thorough': 540}

PE = None

DERIV = ['symmetric', 'forward', 'backward', 'improved', 'log']
SECOND = ['symmetric', 'big_symmetric', 'improved', 'log']
MEFF_DIRECT = ['log', 'logsym', 'arccosh']
MEFF_ROOT = ['cosh', 'periodic', 'sinh']
ENUM_T = [4, 5, 6, 7, 8]
ENUM = [(T, mask) for T in ENUM_T for mask in refc.none_patterns(T)]


class FN:
    log = staticmethod(np.log)
    arccosh = staticmethod(np.arccosh)
    val = staticmethod(lambda x: x.value)


def setup(ctx):
    global PE
    import pyerrors as pe
    PE = pe
    base.PE = pe
    base.CTX = ctx
    for name in ('deriv', 'second_deriv', 'm_eff', 'plateau', 'fit'):
        taps.tap_method(pe.Corr, name, MutationMonitor(name, vars(pe.Corr)[name]))


def teardown(ctx):
    taps.report(ctx)
    taps.remove_all()


ENUM_SPLIT = 4      # the enumeration is dealt to 4 kinds per data sign: kinds are interleaved round-robin by the runner, so the
#                     enumeration is finished long before the sampled kinds and a time budget that bites cannot truncate it


def plan(tier):
    m = 1 if tier == 'quick' else 30
    p = []
    for tag in (['enum'] if tier == 'quick' else ['enum', 'enum2']):
        for sign in ('positive', 'changing'):
            for k in range(ENUM_SPLIT):
                p.append(('%s:%s:%d' % (tag, sign, k), len(ENUM[k::ENUM_SPLIT])))
    for k in range(2):
        p += [('sample:%d' % k, 130 * m), ('roots:%d' % k, 80 * m), ('plateau:%d' % k, 100 * m)]
    p.append(('onebyone', 52 * m))
    p.append(('reject', 52 * m))
    p.append(('zeros', 60 * m))
    return p


# ------------------------------------------------------------------------------------------
def data_profile(rng, T, sign, kind=None):
    t = np.arange(T)
    if sign == 'positive':
        kind = kind or str(rng.choice(['cosh', 'exp', 'noisy']))
        if kind == 'cosh':
            v = rng.uniform(0.5, 2.0) * np.cosh(rng.uniform(0.1, 0.7) * (t - T / 2))
        elif kind == 'exp':
            v = rng.uniform(0.5, 3.0) * np.exp(-rng.uniform(0.1, 0.6) * t) + rng.uniform(0.0, 0.05)
        else:
            v = rng.uniform(0.3, 3.0, size=T)
    else:
        kind = kind or str(rng.choice(['sinh', 'oscillating', 'random']))
        if kind == 'sinh':
            v = rng.uniform(0.5, 2.0) * np.sinh(rng.uniform(0.1, 0.7) * (T / 2 - t))
        elif kind == 'oscillating':
            v = rng.uniform(0.5, 3.0) * np.cos(rng.uniform(0.5, 1.4) * t + rng.uniform(0, 6.28)) * np.exp(-0.05 * t)
        else:
            v = rng.uniform(0.3, 3.0, size=T) * rng.choice([-1.0, 1.0], size=T)
    v = np.where(np.abs(v) < 0.05, np.where(v < 0, -0.06, 0.06), v)
    return [float(x) for x in v], kind


SCALES = [1e-8, 1e-4, 1e4, 1e8]


def build(rng, T, mask, sign, kind=None, rel=0.02, prange=None, padding_ok=True, ctx=None, decorate=True, one_by_one=False, zeros=None):
    """decorate (hardening): the whole correlator scaled by 1e-8 ... 1e8, a tag, a stored plateau range, the reweighted flag, the same Obs
    object on neighbouring timeslices, content handed over as ndarray; none of these may influence a formula or the definedness"""
    lay = Layout(rng, nmin=10, nmax=14)
    vals, kind = data_profile(rng, T, sign, kind)
    if decorate and rng.random() < 0.3:
        sc = float(rng.choice(SCALES))
        vals = [v * sc for v in vals]
        kind += ' x %g' % sc
        if ctx is not None:
            ctx.count('scaled_correlators')
    rels = [rel] * T
    if decorate and rng.random() < 0.3:
        rels = [rel * float(rng.choice([0.03, 0.3, 1.0, 3.0, 30.0])) for _ in range(T)]      # errors differ by up to 1000 between timeslices
        kind += ' with very different errors'
    if decorate and rng.random() < 0.08:
        vals = list(vals)
        vals[int(rng.integers(0, T))] *= 1e-10                                               # tiny in ONE timeslice only
        kind += ' with one tiny timeslice'
    entries = [lay.obs(rng, vals[t], rels[t]) if mask[t] else None for t in range(T)]
    if decorate and zeros is not False and (zeros or rng.random() < 0.06):
        # central value exactly 0.0, fluctuations not (an observable minus its mean): checklist 16
        for t in range(T):
            if entries[t] is not None and rng.random() < 0.25:
                # exactly zero, or next to zero on either side (decisions about the sign / the vanishing of a value must be exact)
                off = float(rng.choice([0.0, 0.0, 1e-12, -1e-12])) * (abs(entries[t].value) if rng.random() < 0.5 else 1.0)
                entries[t] = (entries[t] - entries[t].value) + off
                if off != 0.0 and ctx is not None:
                    ctx.count('timeslices_with_value_next_to_zero')
        kind += ' with zero-valued timeslices'
        if ctx is not None:
            ctx.count('correlators_with_zero_valued_entries')
    if decorate and rng.random() < 0.08:
        # blocks of two timeslices holding the same object
        for t in range(1, T, 2):
            if entries[t] is not None and entries[t - 1] is not None:
                entries[t] = entries[t - 1]
        kind += ' repeated objects'
    if decorate and rng.random() < 0.1:
        for e in entries:
            if e is not None:
                e.reweighted = True
    first = next(t for t in range(T) if mask[t])
    last = max(t for t in range(T) if mask[t])
    kw = {}
    if prange is not None:
        kw['prange'] = prange
    if one_by_one:
        A = PE.Corr([None if e is None else np.array([[e]], dtype=object) for e in entries], **kw)
    elif padding_ok and (first > 0 or last < T - 1) and rng.random() < 0.5:
        A = PE.Corr(entries[first:last + 1], padding=[first, T - 1 - last], **kw)
    elif all(mask) and rng.random() < 0.4:
        A = PE.Corr(np.array(entries, dtype=object), **kw)
    else:
        A = PE.Corr(list(entries), **kw)
    if decorate and rng.random() < 0.25:
        A.tag = 'correlator %d' % int(rng.integers(0, 100))
    if decorate and prange is None and rng.random() < 0.2:
        a = int(rng.integers(0, T))
        A.set_prange([a, int(rng.integers(a, T))])
    return A, entries, kind


def context_of(mask):
    cls = refc.pattern_class(mask)
    return {'none': 'fully-defined', 'boundary': 'undefined-boundary-slices'}.get(cls, 'undefined-interior-slice')


def neighbourhood_hints(c, width=2):
    mags = [magnitude(x) if x is not None else (0.0, 0.0) for x in c]
    T = len(c)
    out = []
    for t in range(T):
        w = mags[max(0, t - width):t + width + 1]
        out.append((max(a for a, _ in w), max(b for _, b in w)))
    return out


ONE_BY_ONE = [False]      # set while a correlator with 1x1-matrix timeslices is judged (tags name the method, not the variant)


def attempt(fn):
    try:
        return fn(), None
    except Exception as e:
        return None, e


def report_raise(ctx, exc, label, exp_any_defined, mask, c=None):
    if not exp_any_defined:
        ctx.count('all_undefined_result_raised')
        return
    import traceback
    ctx.ev()
    context = context_of(mask)
    if ONE_BY_ONE[0]:
        context = 'one-by-one-matrix-content'
        label = label.split('.')[0]
    if c is not None and label.endswith('.log') and context != 'undefined-interior-slice':
        # the logarithm is undefined on non-positive timeslices: they act like undefined ones
        if context_of([m and c[t].value > 0 for t, m in enumerate(mask)]) == 'undefined-interior-slice':
            context = 'non-positive-interior-slice'
    ctx.violation('raise:%s:%s:%s' % (label, type(exc).__name__, context),
                  {'call': label, 'pattern': ''.join('x' if m else '.' for m in mask), 'message': str(exc)[:300],
                   'traceback': ''.join(traceback.format_exception(type(exc), exc, exc.__traceback__))[-900:]})


# ------------------------------------------------------------------------------------------
REPEAT = [False]   # set per case: every variant is called a second time
HELD = []      # (label, result, digest at the time it was returned): re-checked after all later calls of the case (results must not change)


def judge_formula(ctx, A, c, mask, label, call, exp_flat, hints, zero_ratio=None):
    """zero_ratio: timeslices at which the formula is the logarithm of an exactly vanishing ratio (no real value: expected undefined)"""
    ctx.count('variant_calls')
    d0 = any_digest(A)
    res, exc = attempt(call)
    if exc is None and is_corr(res) and zero_ratio:
        got = refc.flat(to_model(res)) if res.T == len(c) else []
        exp_flat = list(exp_flat)
        for t in zero_ratio:
            ctx.ev()
            ctx.count('zero_ratio_timeslices_judged')
            if t < len(got) and got[t] is not None and is_obs(got[t]) and got[t].value == -math.inf:
                # the logarithm of C(t)/C(t') = 0 is returned as a mass of minus infinity instead of an undefined timeslice
                ctx.violation('%s:zero-ratio-returns-minus-infinity' % label, {'t': t, 'T': len(c), 'pattern': ''.join('x' if m else '.' for m in mask)})
                exp_flat[t] = got[t]
    if exc is None and is_corr(res):
        HELD.append((label, res, any_digest(res)))
        if REPEAT[0]:
            # the same call again on the same object: same result (checklist 15)
            res2, exc2 = attempt(call)
            ctx.ev()
            ctx.count('repeat_calls_compared')
            if exc2 is not None or any_digest(res2) != any_digest(res):
                ctx.violation('repeat:%s:second-call-differs' % label, {'second': repr(exc2)[:200] if exc2 is not None else 'other result'})
    ctx.ev()
    if any_digest(A) != d0:
        ctx.violation('mutation:%s:self' % label.split('.')[0], {'call': label})
    any_def = any(x is not None for x in exp_flat)
    if exc is not None:
        report_raise(ctx, exc, label, any_def, mask, c)
        return 0
    return judge_corr(ctx, res, refc.unflat(exp_flat), label, hints=hints)


MAX_MASS = 2.5     # scipy's fsolve started from the default guess 1.0 converges for exact solutions up to m = 3 (scan over T = 4..24)


def own_fsolve_converges(kind, a, b, r, guess=1.0):
    """classification only: does the same solver, started from the same guess, report convergence on plain floats?"""
    import scipy.optimize
    F = np.cosh if kind == 'cosh' else np.sinh
    with np.errstate(all='ignore'):
        out = scipy.optimize.fsolve(lambda x, d: F(x * a) / F(x * b) - d, guess, r, full_output=True)
    return out[2] == 1


def judge_roots(ctx, A, c, mask, variant, guess=None):
    label = 'm_eff.' + variant
    family = 'sinh' if variant == 'sinh' else 'cosh'
    T = len(c)
    plan = refc.m_eff_root_plan(c, variant, FN)
    ctx.count('variant_calls')
    ctx.count('judged:' + label)
    res, exc = attempt((lambda: A.m_eff(variant)) if guess is None else (lambda: A.m_eff(variant, guess=guess)))
    if exc is None and is_corr(res):
        HELD.append((label, res, any_digest(res)))
    any_def = any(p[0] == 'root' for p in plan)
    if exc is not None:
        report_raise(ctx, exc, label, any_def, mask)
        return 0
    ctx.ev()
    if not is_corr(res):
        ctx.violation('result-type:' + label, {'got': type(res).__name__})
        return 0
    if not ctx.equal(res.T, T, 'shape:%s:T' % label) or not ctx.equal(res.N, 1, 'shape:%s:N' % label):
        return 0
    got = refc.flat(to_model(res))
    F = np.cosh if variant != 'sinh' else np.sinh
    compared = 0
    ctx.count('timeslices_judged', T)
    pat = {'got_pattern': ''.join('.' if x is None else 'x' for x in got), 'plan': [p[0] + (':' + p[1] if p[0] in ('undefined', 'skip') else '') for p in plan],
           'input_pattern': ''.join('x' if m else '.' for m in mask), 'T': T}
    for t, p in enumerate(plan):
        g = got[t]
        ctx.ev()
        if p[0] == 'skip':
            ctx.count('borderline_not_judged')
            continue
        if p[0] == 'undefined':
            if g is not None:
                if p[1] == 'no-real-solution':
                    a, b = t - T / 2, t + 1 - T / 2
                    ctx.violation('m_eff:%s:no-real-solution-returns-number' % family,
                                  dict(pat, variant=variant, t=t, ratio=c[t].value / c[t + 1].value, a=a, b=b, returned=g.value,
                                       why='C(t)/C(t+1) lies outside the range of F(m a)/F(m b) over real m' if abs(a) != abs(b)
                                       else '|a| = |b|: the ratio F(m a)/F(m b) does not depend on m'))
                else:
                    ctx.violation('pattern:%s:defined-where-expected-undefined' % label, dict(pat, t=t, reason=p[1]))
            continue
        if p[0] == 'copy':
            src = got[p[1]] if p[1] >= 0 else None
            if (g is None) != (src is None) or (g is not None and g is not src and any_digest(g) != any_digest(src)):
                ctx.violation('%s:mid-lattice-fill' % label, dict(pat, t=t))
            continue
        _, ratio, a, b, kind = p
        mstar = refc.solve_mass(kind, a, b, ratio.value)
        if mstar is None or mstar > MAX_MASS:
            ctx.count('root_beyond_solver_regime_not_judged')
            continue
        if g is None:
            if own_fsolve_converges(kind, a, b, ratio.value, 1.0 if guess is None else guess):
                ctx.violation('pattern:%s:undefined-where-expected-defined' % label, dict(pat, t=t, ratio=ratio.value, a=a, b=b, reference_root=mstar))
            else:
                ctx.count('solver_not_converged_slice_undefined')
            continue
        if not is_obs(g):
            ctx.violation('value:%s:type' % label, {'got': type(g).__name__})
            continue
        if not g.value >= 0:
            ctx.violation('%s:negative-mass' % label, dict(pat, t=t, returned=g.value))
            continue
        # the central value is what scipy's solver returns for this equation, started from the same guess (a few ulp)
        import scipy.optimize
        Ff = np.cosh if kind == 'cosh' else np.sinh
        with np.errstate(all='ignore'):
            sol = scipy.optimize.fsolve(lambda x, d: Ff(x * a) / Ff(x * b) - d, 1.0 if guess is None else guess, ratio.value, full_output=True)
        if sol[2] == 1:
            ctx.count('judged:root-central-value-vs-solver')
            m0 = float(sol[0][0])
            ctx.close(g.value, abs(m0), 'value:%s:solver-value' % label, 't=%d of T=%d' % (t, T), rtol=1e-12,
                      detail=dict(pat, t=t, a=a, b=b, ratio=ratio.value))
            # fluctuations by the implicit-function rule: d|m| = sign(m) d(ratio) / (d/dm F(m a)/F(m b)), closed form of the derivative
            dF = np.sinh if kind == 'cosh' else np.cosh
            fp = (a * dF(m0 * a) * Ff(m0 * b) - b * Ff(m0 * a) * dF(m0 * b)) / Ff(m0 * b) ** 2
            if fp != 0 and math.isfinite(fp):
                sg, sr0 = base.snap(g), base.snap(ratio)
                if sorted(sg['chains']) == sorted(sr0['chains']):
                    for ch in sorted(sr0['chains']):
                        ctx.count('judged:root-fluctuations-implicit-function')
                        e = math.copysign(1.0, m0) * sr0['chains'][ch][1] / fp
                        ctx.close(sg['chains'][ch][1], e, 'value:%s:implicit-function-fluctuations' % label, 't=%d chain %s' % (t, ch), rtol=1e-9,
                                  detail=dict(pat, t=t, a=a, b=b, root=m0, slope=fp))
        back = refc.ratio_at(F, g, a, b)
        ctx.count('root_substitutions')
        rv, rd = magnitude(ratio)
        if abs(back.value - ratio.value) > 1e-6 * abs(ratio.value) and not own_fsolve_converges(kind, a, b, ratio.value, 1.0 if guess is None else guess):
            ctx.violation('m_eff:%s:unconverged-root-returned' % family,
                          dict(pat, variant=variant, t=t, ratio=ratio.value, a=a, b=b, returned=g.value, reference_root=mstar))
            continue
        ok = ctx.close(back.value, ratio.value, 'value:%s:substitution:value' % label, 't=%d of T=%d' % (t, T), rtol=1e-6,
                       detail=dict(pat, t=t, returned=g.value, reference_root=mstar))
        sb, sr = base.snap(back), base.snap(ratio)
        if sorted(sb['chains']) != sorted(sr['chains']):
            ctx.ev()
            ctx.violation('value:%s:substitution:chain-names' % label, {'got': sorted(sb['chains']), 'exp': sorted(sr['chains'])})
            continue
        for ch in sorted(sr['chains']):
            if [int(i) for i in sb['chains'][ch][0]] != [int(i) for i in sr['chains'][ch][0]]:
                ctx.ev()
                ctx.violation('value:%s:substitution:configuration-list' % label, {'chain': ch})
                continue
            ok &= ctx.close(sb['chains'][ch][1], sr['chains'][ch][1], 'value:%s:substitution:fluctuations' % label,
                            't=%d of T=%d chain %s' % (t, T, ch), rtol=1e-7, scale=rd, detail=dict(pat, t=t, returned=g.value))
        compared += 1
    return compared


def all_variants(ctx, rng, A, entries, mask, sign, roots=True):
    c = list(entries)
    T = len(c)
    cls = refc.pattern_class(mask)
    hints = neighbourhood_hints(c)
    n = 0
    for v in DERIV:
        ctx.cell('deriv.' + v, cls, sign)
        call = (lambda v=v: A.deriv(v)) if v != 'symmetric' or rng.random() < 0.5 else (lambda: A.deriv())
        n += judge_formula(ctx, A, c, mask, 'deriv.' + v, call, refc.deriv(c, v, FN), hints)
    for v in SECOND:
        ctx.cell('second_deriv.' + v, cls, sign)
        call = (lambda v=v: A.second_deriv(v)) if v != 'symmetric' or rng.random() < 0.5 else (lambda: A.second_deriv())
        n += judge_formula(ctx, A, c, mask, 'second_deriv.' + v, call, refc.second_deriv(c, v, FN), hints)
    for v in MEFF_DIRECT:
        ctx.cell('m_eff.' + v, cls, sign)
        call = (lambda v=v: A.m_eff(v)) if v != 'log' or rng.random() < 0.5 else (lambda: A.m_eff())
        exp, why = refc.m_eff_direct(c, v, FN)
        zr = []
        if v in ('log', 'logsym'):
            for t in range(T):
                num = t if v == 'log' else t - 1
                if why[t] == 'no-real-solution' and c[num].value == 0.0:
                    zr.append(t)
        n += judge_formula(ctx, A, c, mask, 'm_eff.' + v, call, exp, None, zero_ratio=zr)
    if roots:
        for v in MEFF_ROOT:
            ctx.cell('m_eff.' + v, cls, sign)
            n += judge_roots(ctx, A, c, mask, v)
    check_held(ctx)
    return n


def check_held(ctx):
    for label, res, d in HELD:
        ctx.ev()
        if any_digest(res) != d:
            ctx.violation('aliasing:%s:result-changed-by-later-calls' % label, {})
    ctx.count('held_results_checked', len(HELD))
    del HELD[:]


def scale_invariance(ctx, rng, A, mask):
    """m_eff does not depend on the normalisation of the correlator: the effective masses of s * C (s = 1e-8 ... 1e8) have the same
    undefined timeslices as those of C and, for the closed formulas, the same values and fluctuations (relative 1e-9)"""
    sc = float(rng.choice(SCALES))
    B = A * sc
    for v in MEFF_DIRECT + ['cosh', 'sinh']:
        ra, ea = attempt(lambda: A.m_eff(v))
        rb, eb = attempt(lambda: B.m_eff(v))
        ctx.ev()
        ctx.count('scale_invariance_pairs')
        if (ea is None) != (eb is None):
            ctx.violation('scale:m_eff.%s:raises-at-one-scale-only' % v, {'scale': sc, 'pattern': ''.join('x' if m else '.' for m in mask),
                                                                          'exception': repr(ea or eb)[:200]})
            continue
        if ea is not None:
            continue
        pa, pb = refc.pattern(to_model(ra)), refc.pattern(to_model(rb))
        if pa != pb:
            ctx.violation('scale:m_eff.%s:undefined-timeslices-depend-on-scale' % v, {'scale': sc, 'unscaled': pa, 'scaled': pb})
            continue
        if v in MEFF_DIRECT:
            # condition of the formula: a mass is a difference of log C, its fluctuation a difference of delta C / C of the timeslices
            # it references - rounding is relative to the largest relative fluctuation of the input, not to the (possibly cancelling) result
            relmax = 1e-2
            for m_ in to_model(A):
                if m_ is not None and m_[0][0].value != 0:
                    relmax = max(relmax, magnitude(m_[0][0])[1] / abs(m_[0][0].value))
            ca = refc.flat(to_model(A))
            for t, (x, y) in enumerate(zip(refc.flat(to_model(ra)), refc.flat(to_model(rb)))):
                rt = 1e-12
                if v == 'arccosh' and x is not None and 0 < t < len(ca) - 1:
                    # arccosh'(z) = 1/sqrt(z^2 - 1): a rounding error of z (the two sides round s*C differently) is amplified by
                    # z / (z^2 - 1) in the fluctuations when the argument is close to 1 (small masses)
                    z = (ca[t + 1].value + ca[t - 1].value) / (2 * ca[t].value)
                    if z > 1:
                        rt *= max(1.0, 4 * z / (z * z - 1))
                if x is not None and math.isfinite(x.value):
                    same_scalar(ctx, y, x, 'scale:m_eff.%s' % v, 't=%d scale %g' % (t, sc), 1.0, relmax, rtol=rt)   # masses are O(1), their fluctuations O(relative noise)


# ------------------------------------------------------------------------------------------
def CONST_A(a, t):
    return a[0]


def CONST_B(a, t):
    return a[0]


def judge_plateau(ctx, A, c, mask, first, last, method, how, auto_gamma, np_range=False, direct_fit=False):
    """how: 'range' (explicit list) | 'prange' (taken from the correlator)"""
    label = ('fit.const' if direct_fit else 'plateau.fit') if method == 'fit' else 'plateau.avg'
    rng_list = [first, last] if not np_range else [np.int64(first), np.int32(last)]
    kw = {}
    if method != 'fit' or how == 'kw':
        kw['method'] = method
    if auto_gamma:
        kw['auto_gamma'] = True
    if direct_fit and how == 'none':
        # Corr.fit without a range: the stored prange, else every timeslice (first / last are what the caller expects to be used)
        const = CONST_A
        call = lambda: A.fit(const, silent=True)[0]
    elif direct_fit:
        # ONE function object for all direct fits of the process (other data, other ranges), and a second object with equal code
        # (checklist 11: nothing may be remembered per function object)
        const = CONST_A if first % 3 else CONST_B
        ctx.count('fits_with_shared_function_object')
        call = (lambda: A.fit(const, rng_list, silent=True)[0]) if how != 'kw' else (lambda: A.fit(const, fitrange=rng_list, silent=True)[0])
    elif how == 'none':
        raise ValueError('plateau needs a range')
    elif how == 'prange':
        call = lambda: A.plateau(**kw)
    else:
        call = lambda: A.plateau(rng_list, **kw)
    # weights of the constant fit: the errors in force at call time - the stored analysis (auto_gamma off), or a fresh default
    # analysis made by the call itself (auto_gamma on; computed here on independent copies, whatever was stored before)
    w = None
    if method == 'fit':
        w = []
        for t, o in enumerate(c):
            if o is None or not first <= t <= last:
                w.append(None)
            elif auto_gamma:
                tw = copy.deepcopy(o)
                tw.gamma_method()
                w.append(1.0 / tw.dvalue ** 2)
            else:
                w.append(1.0 / o.dvalue ** 2)
    ctx.count('judged:' + label)
    res, exc = attempt(call)
    if exc is None and REPEAT[0]:
        res2, exc2 = attempt(call)
        ctx.ev()
        ctx.count('repeat_calls_compared')
        if exc2 is not None or any_digest(res2) != any_digest(res):
            ctx.violation('repeat:%s:second-call-differs' % label, {'second': repr(exc2)[:200] if exc2 is not None else 'other result'})
    ctx.ev()
    if [int(x) for x in rng_list] != [first, last]:
        ctx.violation('mutation:plateau:arg0', {'after': rng_list, 'before': [first, last]})
    ts = [t for t in range(first, last + 1) if c[t] is not None]
    if not ts:
        if exc is None:
            ctx.violation('%s:all-undefined-range-returns' % label, {'range': [first, last], 'got': repr(res)[:100]})
        else:
            ctx.count('plateau_empty_range_raised')
        return 0
    if exc is not None:
        report_raise(ctx, exc, label, True, mask)
        return 0
    if not is_obs(res):
        ctx.violation('result-type:' + label, {'got': type(res).__name__})
        return 0
    sub = [c[t] for t in ts]
    vs = max(magnitude(x)[0] for x in sub)
    ds = max(magnitude(x)[1] for x in sub)
    what = 'range [%d,%d] pattern %s' % (first, last, ''.join('x' if m else '.' for m in mask))
    if method == 'fit':
        ctx.count('plateau_fits')
        errs = [None if x is None else x ** -0.5 for x in w]
        exp = refc.plateau_constant_fit(c, w, first, last)
        # Levenberg-Marquardt stops when chi^2 changes by less than ftol = 1e-8 relative: (a - a*)^2 sum(w) <~ 1e-8 chi^2_min
        chi2 = sum(w[t] * (c[t].value - exp.value) ** 2 for t in ts)
        # ... plus the resolution of an iterative minimiser in units of the error of the fitted constant, 1 / sqrt(sum w)
        # (a plateau over timeslices whose central values are exactly 0 comes back as 1e-318, not 0.0)
        tol = math.sqrt(1e-7 * chi2 / sum(w[t] for t in ts)) + 1e-9 * abs(exp.value) + 1e-9 / math.sqrt(sum(w[t] for t in ts))
        if abs(exp.value) > 100 and abs(res.value) < 1e-3 * abs(exp.value) and min(e for e in errs if e is not None) > 1e3:
            # the minimiser stays orders of magnitude closer to its start value 0.1 than to the minimum: with errors that are large in
            # absolute terms the finite-difference Jacobian of the residuals (step ~1e-9 at the start value) is lost in rounding.
            # One tag for plateau(method='fit') and Corr.fit.
            ctx.ev()
            ctx.violation('fit:minimiser-stays-near-initial-guess', {'call': label, 'what': what, 'returned': res.value, 'closed_form': exp.value,
                                                                    'errors': errs, 'chi2_at_closed_form': chi2})
            return 0
        ctx.close(res.value, exp.value, 'value:%s:value' % label, what, rtol=0.0, atol=tol, detail={'errors': errs, 'chi2_min': chi2})
        sg, se = base.snap(res), base.snap(exp)
        if sorted(sg['chains']) != sorted(se['chains']):
            ctx.ev()
            ctx.violation('value:%s:chain-names' % label, {'got': sorted(sg['chains']), 'exp': sorted(se['chains'])})
            return 0
        for ch in sorted(se['chains']):
            ctx.equal([int(i) for i in sg['chains'][ch][0]], [int(i) for i in se['chains'][ch][0]], 'value:%s:configuration-list' % label, what)
            ctx.close(sg['chains'][ch][1], se['chains'][ch][1], 'value:%s:fluctuations' % label, what + ' chain ' + ch, rtol=1e-11, scale=ds)
        # secondary output: the error of the plateau (timeslices carry very different errors, so it is not the error of an average)
        ctx.count('judged-secondary:plateau-error')
        r2, e2 = copy.deepcopy(res), copy.deepcopy(exp)
        r2.gamma_method()
        e2.gamma_method()
        ctx.close(r2.dvalue, e2.dvalue, 'value:%s:error-of-the-plateau' % label, what, rtol=1e-10)
    else:
        ctx.count('plateau_averages')
        exp = refc.plateau_average(c, first, last)
        same_scalar(ctx, res, exp, 'value:' + label, what, vs, ds)
    return 1


def plateaus(ctx, rng, A, entries, mask, nfit=2, navg=6):
    c = list(entries)
    T = len(c)
    for e in entries:
        if e is not None:
            e.gamma_method()
    n = 0
    for k in range(navg):
        a = int(rng.integers(0, T))
        b = int(rng.integers(a, T))
        n += judge_plateau(ctx, A, c, mask, a, b, str(rng.choice(['avg', 'average', 'mean'])), 'range', False)
    for k in range(nfit):
        a = int(rng.integers(0, T))
        b = int(rng.integers(a, T))
        n += judge_plateau(ctx, A, c, mask, a, b, 'fit', str(rng.choice(['range', 'kw'])), False)
    return n


# ------------------------------------------------------------------------------------------
def must_reject(ctx, name, fn, types, keep):
    ctx.count('rejections_judged')
    ctx.count('rejection:' + name)
    d0 = any_digest(keep)
    ctx.ev()
    try:
        r = fn()
    except types:
        pass
    except Exception as e:
        ctx.violation('rejection:%s:raises-%s' % (name, type(e).__name__), {'message': str(e)[:200], 'expected': [t.__name__ for t in types]})
    else:
        ctx.violation('rejection:%s:accepted' % name, {'returned': repr(r)[:200]})
    ctx.ev()
    if any_digest(keep) != d0:
        ctx.violation('rejection:%s:correlator-changed' % name, {})


def do_rejections(ctx, rng, idx):
    """checklist 19: the documented rejections of deriv / second_deriv / m_eff / fit / plateau are provoked and must raise,
    leaving the correlator (data, prange, tag) as it was"""
    T = int(rng.integers(4, 13))
    mask = [True] * T
    if idx % 2:
        mask[int(rng.integers(0, T))] = False
    A, entries, dk = build(rng, T, mask, ['positive', 'changing'][idx % 2], ctx=ctx)
    A.gamma_method()
    lay = Layout(rng)
    mats = []
    for t in range(T):
        a = np.empty((2, 2), dtype=object)
        for i in range(2):
            for j in range(2):
                a[i, j] = lay.obs(rng, 1.0 + i + j)
        mats.append(a)
    G = PE.Corr(mats)
    VE, TE, EX = (ValueError,), (TypeError,), (Exception,)
    must_reject(ctx, 'deriv(N>1)', lambda: G.deriv(), VE, G)
    must_reject(ctx, 'deriv(unknown variant)', lambda: A.deriv('central'), VE, A)
    must_reject(ctx, 'second_deriv(N>1)', lambda: G.second_deriv(), VE, G)
    must_reject(ctx, 'second_deriv(unknown variant)', lambda: A.second_deriv('forward'), VE, A)
    must_reject(ctx, 'm_eff(N>1)', lambda: G.m_eff(), EX, G)
    must_reject(ctx, 'm_eff(unknown variant)', lambda: A.m_eff('tanh'), VE, A)
    must_reject(ctx, 'fit(N>1)', lambda: G.fit(CONST_A, [0, 1], silent=True), VE, G)
    must_reject(ctx, 'fit(range given as tuple)', lambda: A.fit(CONST_A, (0, 2), silent=True), TE, A)
    must_reject(ctx, 'fit(range with one entry)', lambda: A.fit(CONST_A, [1], silent=True), VE, A)
    must_reject(ctx, 'fit(range with three entries)', lambda: A.fit(CONST_A, [0, 1, 2], silent=True), VE, A)
    A.prange = None
    must_reject(ctx, 'plateau(no range, no prange)', lambda: A.plateau(), EX, A)
    must_reject(ctx, 'plateau(empty list, no prange)', lambda: A.plateau([]), EX, A)
    must_reject(ctx, 'plateau(N>1)', lambda: G.plateau([0, 1]), VE, G)
    must_reject(ctx, 'plateau(unknown method)', lambda: A.plateau([0, T - 1], method='median'), VE, A)
    ctx.cell('rejections', 'T=%d' % T)
    ctx.nontrivial.add(digest('reject', any_digest(A)))


def run_case(ctx, kind, idx, rng):
    full_kind = kind
    REPEAT[0] = (idx % 5 == 0)
    del HELD[:]
    if kind.startswith('enum'):
        _, sign, k = kind.split(':')
        T, mask = ENUM[int(k)::ENUM_SPLIT][idx]
        ctx.count('patterns_enumerated')
        A, entries, dk = build(rng, T, mask, sign, ctx=ctx)
        n = all_variants(ctx, rng, A, entries, mask, sign)
        n += plateaus(ctx, rng, A, entries, mask, nfit=1, navg=3)
    elif kind.startswith('sample'):
        idx = 2 * idx + int(kind[-1])
        T = int(rng.integers(9, 25))
        cls = ['none', 'boundary', 'one-interior', 'several'][idx % 4]
        sign = ['positive', 'changing'][(idx // 4) % 2]
        if cls == 'none':
            mask = [True] * T
        elif cls == 'boundary':
            p0, p1 = int(rng.integers(0, 4)), int(rng.integers(0, 4))
            if p0 + p1 == 0:
                p0 = 1
            mask = [p0 <= t < T - p1 for t in range(T)]
        elif cls == 'one-interior':
            t0 = int(rng.integers(1, T - 1))
            mask = [t != t0 for t in range(T)]
        else:
            mask = [bool(rng.random() > rng.choice([0.15, 0.4])) for _ in range(T)]
            if not any(mask):
                mask[int(rng.integers(0, T))] = True
        A, entries, dk = build(rng, T, mask, sign, ctx=ctx)
        n = all_variants(ctx, rng, A, entries, mask, sign)
        if idx % 3 == 0:
            scale_invariance(ctx, rng, A, mask)
    elif kind.startswith('onebyone'):
        # single-valued correlator whose timeslices are written as 1x1 matrices (what Hankel(1) returns)
        T = int(rng.integers(4, 13))
        sign = ['positive', 'changing'][idx % 2]
        mask = [True] * T
        if idx % 2:
            mask[int(rng.integers(1, T - 1))] = False
        A, entries, dk = build(rng, T, mask, sign, ctx=ctx, one_by_one=True)
        dk += ' (1x1 matrices)'
        ONE_BY_ONE[0] = True
        try:
            n = all_variants(ctx, rng, A, entries, mask, sign, roots=False)
            n += plateaus(ctx, rng, A, entries, mask, nfit=1, navg=1)
        finally:
            ONE_BY_ONE[0] = False
    elif kind == 'reject':
        return do_rejections(ctx, rng, idx)
    elif kind == 'zeros':
        T = int(rng.integers(4, 17))
        sign = ['positive', 'changing'][idx % 2]
        mask = [bool(rng.random() > 0.15) for _ in range(T)]
        if not any(mask):
            mask[0] = True
        A, entries, dk = build(rng, T, mask, sign, ctx=ctx, zeros=True)
        n = all_variants(ctx, rng, A, entries, mask, sign)
        n += plateaus(ctx, rng, A, entries, mask, nfit=1, navg=2)
    elif kind.startswith('roots'):
        idx = 2 * idx + int(kind[-1])
        T = int(rng.integers(4, 25))
        sign = ['positive', 'changing'][idx % 2]
        mask = [True] * T
        if idx % 3 == 0:
            mask[int(rng.integers(0, T))] = False
        A, entries, dk = build(rng, T, mask, sign, kind='cosh' if sign == 'positive' else 'sinh', rel=0.004, ctx=ctx)
        c = list(entries)
        n = 0
        # the guess is forwarded to the root finder: any guess in the basin of the solution gives the same masses
        guess = None if idx % 4 < 2 else float(rng.choice([0.5, 0.8, 1.5]))
        for v in (['cosh', 'periodic'] if sign == 'positive' else ['sinh', 'cosh']):
            ctx.cell('m_eff.' + v, refc.pattern_class(mask), sign)
            n += judge_roots(ctx, A, c, mask, v, guess=guess)
        check_held(ctx)
    elif kind.startswith('plateau'):
        idx = 2 * idx + int(kind[-1])
        T = int(rng.integers(4, 25))
        sign = ['positive', 'changing'][idx % 2]
        mask = [bool(rng.random() > 0.25) for _ in range(T)]
        if not any(mask):
            mask[0] = True
        a = int(rng.integers(0, T))
        b = int(rng.integers(a, T)) if rng.random() > 0.3 else a      # first == last: a single timeslice
        if rng.random() < 0.1:
            a, b = 0, T - 1
        elif rng.random() < 0.12:
            a, b = 0, 0                      # a valid range whose entries are falsy (checklist 16)
            ctx.count('plateau_range_0_0')
        how = ['range', 'prange', 'kw'][idx % 3]
        A, entries, dk = build(rng, T, mask, sign, prange=[a, b] if (how == 'prange' and idx % 2) else None, ctx=ctx)
        if A.prange is not None and not (how == 'prange' and idx % 2):
            A.prange = None
        if how == 'prange' and not idx % 2:
            A.set_prange([a, b])
        elif how != 'prange' and rng.random() < 0.5 and T >= 3:
            # a plateau range stored earlier must not override the range passed explicitly
            # (history: set_prange, then plateau(other range); added after seeded change seed3-C15)
            a2 = int(rng.integers(0, T - 1))
            b2 = int(rng.integers(a2 + 1, T))
            if [a2, b2] != [a, b]:
                A.set_prange([a2, b2])
                ctx.count('plateau_explicit_range_with_other_stored_prange')
        c = list(entries)
        auto = bool((idx // 3) % 2)
        # stored analysis state: with auto_gamma off it defines the weights; with auto_gamma on the call must replace it
        # by the default analysis (a stale S = 0 analysis gives visibly different errors)
        if not auto and rng.random() < 0.6:
            # timeslices outside the range are spectators: they stay without error analysis (a fit that touched them would
            # refuse to run), only the timeslices of the range are analysed (checklist 14)
            for t in range(a, b + 1):
                if c[t] is not None:
                    c[t].gamma_method(S=float(rng.choice([2.0, 0.0])))
            ctx.count('plateau_with_unanalysed_spectator_timeslices')
        elif not auto:
            A.gamma_method(S=float(rng.choice([2.0, 2.0, 0.0, 4.0])))
        elif rng.random() < 0.6:
            A.gamma_method(S=0.0)
            ctx.count('plateau_auto_gamma_with_other_stored_analysis')
        npr = how != 'prange' and rng.random() < 0.45
        ctx.cell('plateau.fit', how, 'auto_gamma' if auto else 'analysed', sign)
        n = judge_plateau(ctx, A, c, mask, a, b, 'fit', how, auto, np_range=npr)
        meth = str(rng.choice(['avg', 'average', 'mean']))
        ctx.cell('plateau.avg', how, sign)
        n += judge_plateau(ctx, A, c, mask, a, b, meth, how, auto, np_range=npr)
        if how != 'prange':
            # Corr.fit with a constant, called directly: the explicit range decides, not a stored prange
            ctx.cell('fit.const', how, sign)
            if auto:
                A.gamma_method()
            n += judge_plateau(ctx, A, c, mask, a, b, 'fit', how, False, np_range=npr, direct_fit=True)
        # Corr.fit without any range: uses the stored prange if there is one, all timeslices otherwise
        if A.prange:
            fa, fb = A.prange
        else:
            fa, fb = 0, T - 1
        if auto:
            A.gamma_method()
        elif any(e is not None and e.dvalue == 0.0 for e in c):
            A.gamma_method()
        ctx.cell('fit.const', 'no range', 'prange' if A.prange else 'all timeslices')
        ctx.count('fits_without_range')
        n += judge_plateau(ctx, A, c, mask, fa, fb, 'fit', 'none', False, direct_fit=True)
        dk = 'plateau'
    else:
        raise ValueError(kind)
    if n > 0:
        ctx.nontrivial.add(digest(len(mask), mask, any_digest(A)))
    if len(ctx.samples) < 4:
        ctx.sample({'kind': full_kind, 'T': len(mask), 'pattern': ''.join('x' if m else '.' for m in mask), 'data': dk,
                    'values': [None if e is None else e.value for e in entries]})
