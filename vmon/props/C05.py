"""C05 - reweighting, correlating and merging pair samples by configuration number.

Oracle: per-configuration dictionaries {chain: {cfg: sample}}.  Expected results are built from the
tables (ref.dense.from_table / propagate); the generator guarantees that selecting rows by array
position would give numerically different results than selecting by configuration number, so a
positional implementation cannot pass.
"""
import warnings

import numpy as np

from .. import gen, taps
from ..ctx import digest, Skip
from ..snap import snap, samples_of, is_obs, obs_digest
from ..compare import compare_obs
from ..ref import dense

ID = 'C05'
LEVEL = 'exploration'
DECIDING = ['reweight_cases', 'correlate_cases', 'merge_cases', 'error_rows', 'operands_compared_after_the_call']
RULE = ('cases: weights on 1-3 replicas with contiguous / strided / irregular lists and pairwise distinct values; observables on '
        'full / prefix / stride / random subsets of the weight configurations and on any non-empty replica subset; both normalisations; '
        'lists of observables, Obs.reweight, Corr.reweight / Corr.correlate, qtop_projection, every replica partition for merge_obs '
        '(<= 3 replicas: exhaustive over partitions), error rows (9 kinds); non-trivial: the subset differs from the full list and '
        'positional row selection would change the expected numbers (checked by the generator), or a proper replica subset / partition; '
        'distinct = digest of (function, tables)')
ASSUMPTIONS = ['Obs division used inside reweight is judged by C01; here the expected ratio is built by the dense reference from the tables',
               'tolerance 1e-11 * scale on fluctuations, 1e-12 on values']
BUDGET = {'quick': 45, 'thorough': 540}

PE = None
CTX = None


def _collect(x, out, depth=0):
    if depth > 4:
        return
    if is_obs(x):
        out.append(x)
    elif type(x).__name__ == 'Corr' and hasattr(x, 'content'):
        for c in x.content:
            if c is not None:
                _collect(list(np.asarray(c, dtype=object).ravel()), out, depth + 1)
    elif isinstance(x, (list, tuple)) or (isinstance(x, np.ndarray) and x.dtype == object):
        for i in (x.ravel() if isinstance(x, np.ndarray) else x):
            _collect(i, out, depth + 1)


class OperandsMonitor(taps.Monitor):
    """The observables handed to reweight / correlate / merge_obs are the caller's: whatever happens inside, they hold the
    same data afterwards (a second use of the same weight or observable must pair the same samples)."""
    def __init__(self, key):
        self.key = key

    def before(self, args, kwargs):
        objs = []
        _collect(list(args), objs)
        _collect(list(kwargs.values()), objs)
        return [(o, obs_digest(o)) for o in objs]

    def after(self, token, args, kwargs, result, exc):
        if token is None:
            return
        CTX.count('operands_compared_after_the_call', len(token))
        CTX.ev()
        for o, d in token:
            if obs_digest(o) != d:
                CTX.violation('operand-modified:' + self.key, {'names': list(o.names), 'raised': repr(exc) if exc is not None else None})
                break


def setup(ctx):
    global PE, CTX
    import pyerrors as pe
    PE = pe
    CTX = ctx
    for name in ('reweight', 'correlate', 'merge_obs'):
        taps.tap_function(pe.obs, name, OperandsMonitor(name))
    taps.tap_method(pe.Obs, 'reweight', OperandsMonitor('Obs.reweight'))
    taps.tap_method(pe.Corr, 'reweight', OperandsMonitor('Corr.reweight'))
    taps.tap_method(pe.Corr, 'correlate', OperandsMonitor('Corr.correlate'))
    taps.tap_function(pe.input.openQCD, 'qtop_projection', OperandsMonitor('qtop_projection'))


def teardown(ctx):
    taps.report(ctx)
    taps.remove_all()


SUBSETS = ['full', 'prefix', 'stride', 'random']


def plan(tier):
    m = 4 if tier == 'quick' else 600
    p = []
    for fn in ('reweight', 'reweight_all', 'obs_method', 'corr_reweight', 'list'):
        for sub in SUBSETS:
            p.append(('rw:%s:%s' % (fn, sub), 12 * m))
    p.append(('rw_special', 30 * m))
    p.append(('correlate', 60 * m))
    p.append(('corr_correlate', 30 * m))
    p.append(('merge', 60 * m))
    p.append(('qtop', 40 * m))
    p.append(('errors', 150 * m))
    p.append(('flag', 40 * m))
    return p


def weight_table(rng, tier, ens=None):
    ens = ens or str(rng.choice(gen.ENS_POOL))
    reps = gen.rand_reps(rng, 3, allow_bare=True)
    nmax = 30 if tier == 'quick' else int(rng.choice([30, 100, 300]))
    tab = {}
    for r in reps:
        name = ens if r is None else '%s|%s' % (ens, r)
        n = int(rng.integers(8, nmax + 1))
        idl = list(gen.rand_idl(rng, n, str(rng.choice(['contig', 'strided', 'irregular'])), as_type='list'))
        w = rng.uniform(0.5, 1.5, size=len(idl))
        tab[name] = {int(c): float(v) for c, v in zip(idl, w)}
    return tab


def obs_on(rng, wtab, how, replica_subset=True):
    names = sorted(wtab)
    if replica_subset and len(names) > 1 and rng.random() < 0.5:
        k = int(rng.integers(1, len(names)))
        names = sorted(rng.choice(names, size=k, replace=False).tolist())
    sub = gen.subset_table(rng, {n: wtab[n] for n in names}, how)
    return {n: {c: float(rng.normal(3.0, 1.0)) for c in d} for n, d in sub.items()}


def positional_differs(wtab, otab):
    """True when pairing o's rows with the first len(o) rows of w differs from pairing by number."""
    for n, d in otab.items():
        wc = sorted(wtab[n])
        oc = sorted(d)
        if wc[:len(oc)] != oc:
            return True
    return False


def expected_reweight(wtab, otab, all_configs):
    num = dense.from_table({n: {c: wtab[n][c] * v for c, v in d.items()} for n, d in otab.items()})
    den = dense.from_table(wtab) if all_configs else dense.from_table({n: {c: wtab[n][c] for c in d} for n, d in otab.items()})
    ref = dense.propagate([num, den], [1 / den['value'], -num['value'] / den['value'] ** 2], lambda v: v[0] / v[1])
    chains, union = dense.union_lists([num, den])
    wmax = max(dense.weights([num, den], chains, union).values())
    scale = dense.delta_scale([num, den], [1 / den['value'], -num['value'] / den['value'] ** 2]) * wmax
    ref['rew'] = True
    return ref, scale


def case_reweight(ctx, rng, fn, how):
    pe = PE
    wtab = weight_table(rng, ctx.tier)
    w = gen.table_to_obs(pe, wtab, {n: str(rng.choice(['list', 'ndarray', 'native'])) for n in wtab})
    nobs = int(rng.integers(2, 4)) if fn in ('list', 'corr_reweight') else 1
    otabs = [obs_on(rng, wtab, how) for _ in range(nobs)]
    if fn == 'corr_reweight':
        # all entries of a correlator must live on the same configurations
        otabs = [otabs[0]] + [{n: {c: float(rng.normal(3.0, 1.0)) for c in d} for n, d in otabs[0].items()} for _ in range(nobs - 1)]
    obs = [gen.table_to_obs(pe, t, {n: str(rng.choice(['list', 'ndarray', 'native'])) for n in t}) for t in otabs]
    allc = fn == 'reweight_all' or (fn in ('list', 'corr_reweight') and bool(rng.integers(0, 2)))
    if fn == 'obs_method':
        res = [obs[0].reweight(w)]
    elif fn == 'corr_reweight':
        content = list(obs)
        pad = int(rng.integers(0, 2))
        c = pe.Corr(content, padding=[pad, 0])
        r = c.reweight(w, all_configs=allc) if allc else c.reweight(w)
        ctx.equal(r.T, c.T, 'reweight:corr-T')
        res = []
        for t in range(pad):
            ctx.require(r.content[t] is None, 'reweight:corr-none-not-propagated')
        for t in range(pad, c.T):
            res.append(r.content[t][0])
    else:
        res = pe.reweight(w, obs, all_configs=allc) if allc else pe.reweight(w, obs)
    ctx.count('reweight_cases')
    ctx.cell('reweight', fn, how, 'all_configs' if allc else 'own_configs')
    ctx.equal(len(res), len(obs), 'reweight:result-count')
    for r, t in zip(res, otabs):
        ref, scale = expected_reweight(wtab, t, allc)
        if not is_obs(r):
            ctx.violation('reweight:result-type', type(r).__name__)
            continue
        compare_obs(ctx, r, ref, 'reweight:%s' % ('all_configs' if allc else 'own_configs'), scale=scale, rtol=1e-11, what=fn + ' ' + how, rv_tol=1e-11)
        ctx.equal(r.reweighted, True, 'reweight:flag-not-set', fn)
        if positional_differs(wtab, t) or set(t) != set(wtab):
            ctx.nontrivial.add(digest('rw', fn, allc, sorted((n, sorted(d.items())) for n, d in t.items())))
    # operands untouched
    ctx.equal(snap(w)['chains'].keys(), wtab.keys(), 'reweight:weight-modified')
    if fn in ('reweight', 'reweight_all', 'list') and rng.random() < 0.5:
        # the same weight and observables used a second time pair the same samples
        again = pe.reweight(w, obs, all_configs=allc) if allc else pe.reweight(w, obs)
        ctx.count('second_calls_with_the_same_objects')
        ctx.equal([obs_digest(x) for x in again], [obs_digest(x) for x in res], 'reweight:second-call-with-the-same-objects-differs', fn)
    ctx.sample({'fn': fn, 'subset': how, 'all_configs': allc, 'weight_chains': {n: len(d) for n, d in wtab.items()},
                'obs_chains': [{n: len(d) for n, d in t.items()} for t in otabs]})


def case_reweight_special(ctx, rng):
    """Checklist items 4 and 6: the same object several times in the list / as weight and observable;
    weights of very small or large magnitude (reweighting factors often are): the ratio is invariant."""
    pe = PE
    wtab = weight_table(rng, ctx.tier)
    scale = float(rng.choice([1e-30, 1e-8, 1.0, 1e8, 1e30]))
    wtab = {n: {c: v * scale for c, v in d.items()} for n, d in wtab.items()}
    w = gen.table_to_obs(pe, wtab)
    how = str(rng.choice(SUBSETS))
    otab = obs_on(rng, wtab, how)
    o = gen.table_to_obs(pe, otab)
    allc = bool(rng.integers(0, 2))
    ctx.count('reweight_cases')
    ctx.cell('reweight', 'special', how, 'scale%g' % scale)
    res = pe.reweight(w, [o, o, o], all_configs=allc)
    ref, sc = expected_reweight(wtab, otab, allc)
    ctx.equal(len(res), 3, 'reweight:result-count')
    for r in res:
        compare_obs(ctx, r, ref, 'reweight:same-object-in-list', scale=sc, rtol=1e-11, what='same object three times, weight scale %g' % scale, rv_tol=1e-11)
    # the weight itself as observable: <w w>/<w>
    r = pe.reweight(w, [w])[0]
    ref2, sc2 = expected_reweight(wtab, wtab, False)
    compare_obs(ctx, r, ref2, 'reweight:weight-as-observable', scale=sc2, rtol=1e-11, what='reweight(w, [w]) scale %g' % scale, rv_tol=1e-11)
    c = pe.correlate(o, o)
    compare_obs(ctx, c, dense.from_table({n: {k: v * v for k, v in d.items()} for n, d in otab.items()}), 'correlate:same-object', rtol=1e-12,
                what='correlate(o, o)', rv_tol=1e-12)
    ctx.nontrivial.add(digest('rwspecial', scale, sorted((n, sorted(d.items())) for n, d in otab.items())))


def case_correlate(ctx, rng, via_corr):
    pe = PE
    wtab = weight_table(rng, ctx.tier)
    atab = {n: {c: float(rng.normal(1.0, 0.5)) for c in d} for n, d in wtab.items()}
    forms = {n: str(rng.choice(['list', 'ndarray', 'native'])) for n in wtab}
    a = gen.table_to_obs(pe, atab, forms)
    b = gen.table_to_obs(pe, wtab, forms)
    ref = dense.from_table({n: {c: atab[n][c] * wtab[n][c] for c in d} for n, d in wtab.items()})
    if via_corr:
        a2tab = {n: {c: float(rng.normal(1.0, 0.5)) for c in d} for n, d in wtab.items()}
        a2 = gen.table_to_obs(pe, a2tab, forms)
        b2tab = {n: {c: float(rng.uniform(0.5, 1.5)) for c in d} for n, d in wtab.items()}
        b2 = gen.table_to_obs(pe, b2tab, forms)
        c = pe.Corr([a, a2, a], padding=[1, 0])
        if rng.random() < 0.5:
            partner, ptabs = b, [wtab, wtab]
        else:
            # distinct partner entries per timeslice (content [None, b2, b, b2])
            partner, ptabs = pe.Corr([b2, b, b2], padding=[1, 0]), [b2tab, wtab]
        r = c.correlate(partner)
        ctx.require(r.content[0] is None and r.T == 4, 'correlate:corr-shape')
        got = [r.content[1][0], r.content[2][0]]
        refs = [dense.from_table({n: {cc: atab[n][cc] * ptabs[0][n][cc] for cc in d} for n, d in wtab.items()}),
                dense.from_table({n: {cc: a2tab[n][cc] * ptabs[1][n][cc] for cc in d} for n, d in wtab.items()})]
        ctx.count('corr_correlate_cases')
    else:
        got = [pe.correlate(a, b), pe.correlate(b, a)]
        refs = [ref, ref]
    ctx.count('correlate_cases')
    ctx.cell('correlate', 'corr' if via_corr else 'obs', 'reps%d' % len(wtab))
    for g, rf in zip(got, refs):
        compare_obs(ctx, g, rf, 'correlate', rtol=1e-12, what='per-configuration products', rv_tol=1e-12)
        ctx.equal(bool(g.reweighted), False, 'correlate:flag-set-without-cause')
    ctx.nontrivial.add(digest('corr', sorted((n, sorted(d.items())) for n, d in atab.items())))


def partitions(items):
    if len(items) == 1:
        yield [items]
        return
    first = items[0]
    for smaller in partitions(items[1:]):
        for n, subset in enumerate(smaller):
            yield smaller[:n] + [[first] + subset] + smaller[n + 1:]
        yield [[first]] + smaller


def case_merge(ctx, rng):
    pe = PE
    ens = str(rng.choice(gen.ENS_POOL))
    reps = sorted(rng.choice(gen.REP_POOL, size=int(rng.integers(2, 4)), replace=False).tolist())
    tab = gen.rand_table(rng, ens, reps, 5, 25, ['contig', 'strided', 'irregular'], ['distinct', 'white'])
    names = sorted(tab)
    parts = list(partitions(names))
    ref = dense.from_table(tab)
    for part in parts:
        if len(part) < 2:
            continue
        order = [part[i] for i in rng.permutation(len(part))]
        obs = [gen.table_to_obs(pe, {n: tab[n] for n in grp}, {n: str(rng.choice(['list', 'native'])) for n in grp}) for grp in order]
        m = pe.merge_obs(obs)
        ctx.count('merge_cases')
        ctx.cell('merge', 'reps%d' % len(names), 'parts%d' % len(part))
        # the merged value is a mean over all samples: its rounding is relative to the size of the samples, not to a mean that cancels
        vs_ = max(abs(ref['value']), max(max(abs(v_) for v_ in d_.values()) for d_ in tab.values()))
        compare_obs(ctx, m, ref, 'merge', rtol=1e-12, what='union of chains', rv_tol=1e-12, value_scale=vs_)
        ctx.equal(bool(m.reweighted), False, 'merge:flag-set-without-cause')
        ctx.nontrivial.add(digest('merge', [sorted(g) for g in order], sorted((n, sorted(d.items())) for n, d in tab.items())))
    ctx.sample({'merge_chains': {n: len(d) for n, d in tab.items()}, 'partitions': len(parts) - 1})


def case_qtop(ctx, rng):
    pe = PE
    wtab = weight_table(rng, ctx.tier)
    qtab = {n: {c: float(rng.integers(-2, 3)) + float(rng.normal(0, 0.05)) for c in d} for n, d in wtab.items()}
    q = gen.table_to_obs(pe, qtab, {n: str(rng.choice(['list', 'native'])) for n in qtab})
    target = int(rng.integers(-1, 2))
    from pyerrors.input import openQCD
    p = openQCD.qtop_projection(q, target)
    ref = dense.from_table({n: {c: 1.0 if round(v) == target else 0.0 for c, v in d.items()} for n, d in qtab.items()})
    ctx.count('qtop_cases')
    ctx.cell('qtop', 'target%d' % target)
    if not np.any([v for d in ref['chains'].values() for v in d[1]]):
        ctx.count('qtop_trivial')
    compare_obs(ctx, p, ref, 'qtop_projection', rtol=1e-12, what='indicator by configuration', rv_tol=1e-12)
    ctx.nontrivial.add(digest('qtop', target, sorted((n, sorted(d.items())) for n, d in qtab.items())))
    # and used as reweighting factor on a subset
    otab = obs_on(rng, wtab, str(rng.choice(SUBSETS)))
    ind = {n: {c: (1.0 if round(v) == target else 0.0) for c, v in d.items()} for n, d in qtab.items()}
    ok = all(sum(ind[n][c] for c in d) > 0 for n, d in otab.items())
    if ok:
        o = gen.table_to_obs(pe, otab)
        r = pe.reweight(p, [o])[0]
        ref2, scale = expected_reweight(ind, otab, False)
        compare_obs(ctx, r, ref2, 'qtop_projection:reweight', scale=scale, rtol=1e-11, what='sector projection', rv_tol=1e-11)


def expect_raises(ctx, fn, row, exc_types=(Exception,)):
    ctx.count('error_rows')
    ctx.cell('error', row)
    try:
        with warnings.catch_warnings():
            warnings.simplefilter('ignore')
            fn()
    except exc_types:
        ctx.ev()
        return True
    ctx.ev()
    ctx.violation('not-rejected:' + row, {'row': row})
    return False


def case_errors(ctx, rng):
    pe = PE
    wtab = weight_table(rng, ctx.tier, ens='A')
    w = gen.table_to_obs(pe, wtab)
    n0 = sorted(wtab)[0]
    row = int(rng.integers(0, 15))
    if row == 0:      # o has a configuration that w lacks
        otab = obs_on(rng, wtab, 'random', replica_subset=False)
        extra = max(wtab[n0]) + int(rng.integers(1, 4))
        otab[n0][extra] = 1.0
        o = gen.table_to_obs(pe, otab)
        expect_raises(ctx, lambda: pe.reweight(w, [o]), 'reweight:configuration-missing-in-weight')
    elif row == 1:    # foreign chain
        otab = {'A|zz': {c: 1.0 * c for c in range(1, 9)}}
        o = gen.table_to_obs(pe, otab)
        expect_raises(ctx, lambda: pe.reweight(w, [o]), 'reweight:foreign-chain')
    elif row == 2:    # several ensembles
        o = gen.table_to_obs(pe, obs_on(rng, wtab, 'full', replica_subset=False)) + gen.table_to_obs(pe, {'B|r1': {c: float(c) for c in range(1, 9)}})
        expect_raises(ctx, lambda: pe.reweight(w, [o]), 'reweight:several-ensembles')
    elif row == 3:    # covariance input present
        o = gen.table_to_obs(pe, obs_on(rng, wtab, 'full', replica_subset=False)) + pe.cov_Obs(0.0, 0.1, 'cvE')
        expect_raises(ctx, lambda: pe.reweight(w, [o]), 'reweight:covariance-input')
    elif row == 4:    # correlate: different lists
        a = gen.table_to_obs(pe, wtab)
        btab = {n: dict(d) for n, d in wtab.items()}
        cfgs = sorted(btab[n0])
        drop = cfgs[int(rng.integers(0, len(cfgs)))]
        del btab[n0][drop]
        btab[n0][max(cfgs) + 7] = 0.5       # same length, different configuration numbers
        b = gen.table_to_obs(pe, btab)
        expect_raises(ctx, lambda: pe.correlate(a, b), 'correlate:different-configuration-lists')
    elif row == 10:   # reweight: as many configurations as the weight on a replica, but not the same ones
        otab = {n: dict(d) for n, d in obs_on(rng, wtab, 'full', replica_subset=bool(rng.integers(0, 2))).items()}
        nn = sorted(otab)[int(rng.integers(0, len(otab)))]
        cfgs = sorted(otab[nn])
        variant = int(rng.integers(0, 3))
        if variant == 0:      # every configuration shifted by one step
            step = cfgs[1] - cfgs[0]
            new = [c + step for c in cfgs]
        elif variant == 1:    # one interior configuration replaced by one the weight does not have
            free = sorted(set(range(cfgs[0], cfgs[-1] + 2)) - set(cfgs))
            k = int(rng.integers(1, len(cfgs) - 1))
            new = sorted(set(cfgs[:k] + cfgs[k + 1:] + [free[0] if free else cfgs[-1] + 1]))
        else:                 # the last configuration moved behind the end
            new = cfgs[:-1] + [cfgs[-1] + 3]
        if len(new) == len(cfgs) and set(new) != set(cfgs):
            otab[nn] = {c: float(rng.normal(3.0, 1.0)) for c in new}
            o = gen.table_to_obs(pe, otab)
            expect_raises(ctx, lambda: pe.reweight(w, [o]), 'reweight:same-length-other-configurations')
            expect_raises(ctx, lambda: pe.reweight(w, [o], all_configs=True), 'reweight:same-length-other-configurations')
            expect_raises(ctx, lambda: o.reweight(w), 'Obs.reweight:same-length-other-configurations')
    elif row == 9:    # correlate: same length, same first and last configuration, different interior
        cfgs = sorted(set(int(c) for c in rng.choice(np.arange(2, 60), size=int(rng.integers(8, 20)), replace=False)) | {1, 64})
        other = list(cfgs)
        free = sorted(set(range(2, 64)) - set(cfgs))
        k = int(rng.integers(1, len(cfgs) - 1))
        other[k] = int(rng.choice(free))
        other = sorted(other)
        atab = {n0: {c: float(rng.normal()) for c in cfgs}}
        btab = {n0: {c: float(rng.normal()) for c in other}}
        a = gen.table_to_obs(pe, atab)
        b = gen.table_to_obs(pe, btab)
        expect_raises(ctx, lambda: pe.correlate(a, b), 'correlate:different-interior-configurations')
        ca = pe.Corr([a, a])
        expect_raises(ctx, lambda: ca.correlate(b), 'Corr.correlate:different-interior-configurations')
    elif row == 11:   # reweight: weight AND observable live on the same two ensembles (the name test passes, the ensemble count must refuse)
        other = {'B|r1': {c: float(rng.normal(2.0, 0.3)) for c in range(1, 12)}}
        w2 = w + gen.table_to_obs(pe, other)
        o2 = gen.table_to_obs(pe, obs_on(rng, wtab, 'full', replica_subset=False)) + gen.table_to_obs(pe, {'B|r1': {c: float(rng.normal()) for c in range(1, 12)}})
        expect_raises(ctx, lambda: pe.reweight(w2, [o2]), 'reweight:weight-and-observable-on-two-ensembles')
        o1 = gen.table_to_obs(pe, obs_on(rng, wtab, 'full', replica_subset=False))
        expect_raises(ctx, lambda: pe.reweight(w2, [o1]), 'reweight:weight-on-two-ensembles')
    elif row == 12:   # correlate: both operands on the same two ensembles
        other = {'B|r1': {c: float(rng.normal(2.0, 0.3)) for c in range(1, 12)}}
        a = gen.table_to_obs(pe, wtab) + gen.table_to_obs(pe, other)
        b = gen.table_to_obs(pe, {n: {c: float(rng.normal()) for c in d} for n, d in wtab.items()}) + gen.table_to_obs(pe, {'B|r1': {c: float(rng.normal()) for c in range(1, 12)}})
        expect_raises(ctx, lambda: pe.correlate(a, b), 'correlate:both-on-two-ensembles')
    elif row == 13:   # correlate: both operands carry the same covariance input (names agree)
        cv = pe.cov_Obs(0.0, 0.1, 'cvE')
        a = gen.table_to_obs(pe, wtab) + cv
        b = gen.table_to_obs(pe, {n: {c: float(rng.normal()) for c in d} for n, d in wtab.items()}) + 2.0 * cv
        expect_raises(ctx, lambda: pe.correlate(a, b), 'correlate:both-with-covariance-input')
    elif row == 14:   # correlate: same chains, one operand with fewer configurations on a chain
        a = gen.table_to_obs(pe, wtab)
        btab = {n: dict(d) for n, d in wtab.items()}
        cfgs = sorted(btab[n0])
        if len(cfgs) > 6:
            del btab[n0][cfgs[int(rng.integers(0, len(cfgs)))]]
            b = gen.table_to_obs(pe, btab)
            expect_raises(ctx, lambda: pe.correlate(a, b), 'correlate:fewer-configurations-on-a-chain')
            expect_raises(ctx, lambda: pe.correlate(b, a), 'correlate:fewer-configurations-on-a-chain')
    elif row == 5:    # correlate: different chains
        a = gen.table_to_obs(pe, wtab)
        b = gen.table_to_obs(pe, {n + 'x': d for n, d in wtab.items()})
        expect_raises(ctx, lambda: pe.correlate(a, b), 'correlate:different-chains')
    elif row == 6:    # correlate: covariance input
        a = gen.table_to_obs(pe, wtab)
        b = gen.table_to_obs(pe, wtab) + pe.cov_Obs(0.0, 0.1, 'cvE')
        expect_raises(ctx, lambda: pe.correlate(a, b), 'correlate:covariance-input')
    elif row == 7:    # merge: duplicated replica
        a = gen.table_to_obs(pe, wtab)
        b = gen.table_to_obs(pe, {n0: wtab[n0]})
        expect_raises(ctx, lambda: pe.merge_obs([a, b]), 'merge:duplicated-replica')
    else:             # merge: covariance input / several ensembles
        a = gen.table_to_obs(pe, wtab)
        if rng.random() < 0.5:
            b = pe.cov_Obs(1.0, 0.1, 'cvE')
            expect_raises(ctx, lambda: pe.merge_obs([a, b]), 'merge:covariance-input')
        else:
            b = gen.table_to_obs(pe, {'B|r1': {c: float(c) for c in range(1, 9)}})
            expect_raises(ctx, lambda: pe.merge_obs([a, b]), 'merge:several-ensembles')
    ctx.nontrivial.add(digest('err', row, sorted(wtab)))


def case_flag(ctx, rng):
    """The reweighted flag is inherited by everything derived from a reweighted observable."""
    pe = PE
    wtab = weight_table(rng, ctx.tier)
    w = gen.table_to_obs(pe, wtab)
    otab = obs_on(rng, wtab, str(rng.choice(SUBSETS)))
    o = gen.table_to_obs(pe, otab)
    plain = gen.table_to_obs(pe, {n: {c: float(rng.normal(2, 0.3)) for c in d} for n, d in otab.items()})
    r = pe.reweight(w, [o])[0]
    ctx.count('flag_cases')
    derived = {
        'add': lambda: r + plain, 'radd': lambda: plain + r, 'mul_number': lambda: 2.5 * r, 'func': lambda: np.exp(r),
        'derived_observable': lambda: pe.derived_observable(lambda x, **kw: x[0] * x[1], [plain, r]),
        'complex': lambda: (r * (1 + 2j)).real, 'neg': lambda: -r, 'pow': lambda: r ** 2, 'other_ensemble': lambda: r * pe.pseudo_Obs(1.0, 0.1, 'ZZ|r1', samples=20),
    }
    for k, f in derived.items():
        d = f()
        ctx.cell('flag', k)
        ctx.equal(bool(d.reweighted), True, 'flag-not-inherited:' + k)
    for k, f in {'add': lambda: plain + plain, 'func': lambda: np.exp(plain)}.items():
        ctx.equal(bool(f().reweighted), False, 'flag-set-without-cause:' + k)
    with warnings.catch_warnings():
        warnings.simplefilter('ignore')
        c = pe.correlate(r, r)
    ctx.equal(bool(c.reweighted), True, 'flag-not-inherited:correlate')

    def second_generation(src, label):
        """everything derived from an object that carries the flag carries it too - whichever producer handed the object out"""
        for k, f in {'mul_number': lambda: 2.5 * src, 'add_plain': lambda: src + 1.0, 'func': lambda: np.exp(0.1 * src),
                     'derived_observable': lambda: pe.derived_observable(lambda x, **kw: x[0] ** 2, [src]), 'neg': lambda: -src}.items():
            ctx.count('flag_second_generation')
            ctx.equal(bool(f().reweighted), True, 'flag-not-inherited:%s:then-%s' % (label, k))
    second_generation(c, 'correlate')
    second_generation(r + plain, 'add')
    m_in = [gen.table_to_obs(pe, {n: otab[n]}) for n in sorted(otab)]
    if len(m_in) > 1:
        rr = pe.reweight(w, m_in)
        m = pe.merge_obs(rr)
        ctx.equal(bool(m.reweighted), True, 'flag-not-inherited:merge_obs')
        second_generation(m, 'merge_obs')
        # one reweighted and one plain part merged: the flag is set, and inherited
        mixed = pe.merge_obs([rr[0]] + [gen.table_to_obs(pe, {n: otab[n]}) for n in sorted(otab)[1:]])
        ctx.equal(bool(mixed.reweighted), True, 'flag-not-inherited:merge_obs-mixed')
        second_generation(mixed, 'merge_obs-mixed')
        if len(m_in) > 2:
            again = pe.merge_obs([pe.merge_obs(rr[:2])] + rr[2:])
            ctx.equal(bool(again.reweighted), True, 'flag-not-inherited:merge_obs-of-merged')
            second_generation(again, 'merge_obs-of-merged')
    cr = pe.Corr([o, plain]).reweight(w)
    second_generation(cr.content[0][0], 'Corr.reweight')
    ctx.nontrivial.add(digest('flag', sorted((n, sorted(d.items())) for n, d in otab.items())))


def run_case(ctx, kind, idx, rng):
    k = kind.split(':')
    if k[0] == 'rw':
        case_reweight(ctx, rng, k[1], k[2])
    elif kind == 'rw_special':
        case_reweight_special(ctx, rng)
    elif kind == 'correlate':
        case_correlate(ctx, rng, False)
    elif kind == 'corr_correlate':
        case_correlate(ctx, rng, True)
    elif kind == 'merge':
        case_merge(ctx, rng)
    elif kind == 'qtop':
        case_qtop(ctx, rng)
    elif kind == 'errors':
        case_errors(ctx, rng)
    elif kind == 'flag':
        case_flag(ctx, rng)
    else:
        raise ValueError(kind)
