"""C19 - printed value(error) strings and scalar views agree with value and error.

Oracle: ref.fmt (decimal arithmetic on the exact binary values): every string produced by str / repr / format /
f-strings of Obs and CObs is parsed back and must denote the value and the error within half a unit of the last
printed digit, with the requested number of significant digits of the error; flags may only add a leading character
to non-negative values; strings are fed to the prior parser (_extract_val_and_dval) and to the prior constructor
(tapped: also judged when least_squares calls it), which must recover the numbers the string denotes; comparisons,
float(), is_zero_within_error and Corr.plottable are compared with the same expressions on (value, dvalue).
"""
import math
import operator

import numpy as np

from .. import taps
from ..ctx import digest, Skip
from ..ref import fmt as F
from ..snap import obs_digest, any_digest

ID = 'C19'
LEVEL = 'exploration'
DECIDING = ['strings_judged', 'flag_pairs_judged', 'prior_strings_parsed', 'tap:_construct_prior_obs', 'prior_obs_judged',
            'prior_strings_from_least_squares', 'cobs_strings_judged', 'plain_value_strings', 'comparisons_judged',
            'float_conversions', 'zero_tests_judged', 'zero_tests_at_equality', 'plottable_views']
RULE = ('cases: one per cell (decade of the error -15..14) x (position: 10^k(1-ulp), exactly 10^k, 10^k(1+ulp), 0.95, 0.995, 0.9995, 1.05 x 10^k, generic mantissa, '
        'rounding carry at the requested significance) x significance 1..6 x flag "", "+", " "; per cell 10 values (0, -0.0, comparable to / much larger / much smaller than the error, '
        'anywhere in 1e-15..1e15, half-way between printed units, an exactly representable decimal tie m + 2^-(decimals+1), both signs); values also as numpy.float32 / Python int / numpy.float64 and observables built from float32 data; '
        'str() after format() with another significance, every view again after a second analysis with other parameters and after all other observables of the case (histories); '
        'CObs with -0.0 parts and with one observable as both parts; comparison partners float / int / numpy float64, float32, int64, int32 / 0-d array / Obs / Obs with int value / the object itself, numpy scalars on either side; '
        'sigma as int / float / numpy scalars / bool / 0; plottable with 1..13 slices, the same observable at several slices, a stored plateau range, caller-modified earlier lists and a second analysis; observables are covariance-type (value and error controlled to the ulp) and Monte-Carlo ones; '
        'each string through format(), str(), repr() (significance 2) and the direct formatter; every string goes to the prior parser, one in three to the prior constructor, '
        'a few dozen least_squares fits take string priors. Further rows: CObs strings, plain values (no / zero / non-finite error), <, <=, >, >= against float / int / numpy scalar / Obs '
        'in both orders incl. ties, float(), is_zero_within_error (sigma 0.5..3 incl. exact equality |value| = sigma*dvalue), Corr.plottable with undefined slices. '
        'second hardening: prior positions 9..65536, fits with 11 / 12 parameters all carrying string priors (list and dict filled in descending order), correlators with 11..260 timeslices, one shared fit-function object / fresh lambdas / fresh defs, '
        'the container of priors compared after the fit and used for a second fit, observables / operands / correlators compared with their digest before printing, comparing, testing, viewing, a spectator ensemble with weight exactly zero; counters judged:<mechanism> give the number of evaluations of every judgement. '
        'third hardening: text form of fit results (parameter lines, goodness-of-fit numbers, repr, len, re-analysis) and of correlators (one line per timeslice, matrix correlators: header only, plottable refused), '
        'pseudo_Obs with zero / negative error, significance 0 / negative / float refused, numbers / tuples / bytes / strings with error zero refused as priors and observables taken as they are, CObs parts with equal values on different data. '
        'non-trivial: a string with a non-zero error was judged (or the row produced a decision); distinct = digest of (value, error, significance, flag) / of the row inputs')
ASSUMPTIONS = ['half-unit rule with 4 ulp slack (the float is scaled by a power of ten before rounding); errors at least 10^significance print as integers (documented integer floor)',
               'the prior parser multiplies the error digits by a power of ten in floating point: 2 ulp tolerated (3 ulp after the square / square-root of cov_Obs); the value must be the correctly rounded decimal',
               'format specifications are flag + significance ("3", "+3", " 3") and the empty specification; a flag without a significance is outside the quantifier (observed: ValueError)',
               'Python float formatting and decimal.Decimal are correct',
               'an error printed as 10^significance units is accepted only as a rounding carry (exact error below 10^significance units)',
               'comparisons in which one side is held in single precision and the exact and the float32-rounded readings differ are borderline (numpy decides the precision), counted not judged',
               'errors held in single precision cannot arise from an observable (dvalue is always double) and are not fed to the formatter']
BUDGET = {'quick': 45, 'thorough': 420}

PE = None
CTX = None
STATE = {'in_fit': False}

DECADES = list(range(-15, 15))
POSITIONS = ['1-ulp', '1', '1+ulp', '0.95', '0.995', '0.9995', '1.05', 'generic', 'carry', 'error-half-way']
SIGS = [1, 2, 3, 4, 5, 6]
FLAGS = ['', '+', ' ']
CELLS = [(k, p, s, f) for k in DECADES for p in POSITIONS for s in SIGS for f in FLAGS]


# ------------------------------------------------------------------------------------------
class PriorMonitor(taps.Monitor):
    """judges every prior built from a string, wherever the call comes from"""

    def before(self, args, kwargs):
        p = kwargs['i_prior'] if 'i_prior' in kwargs else (args[0] if args else None)
        return p if isinstance(p, str) else None

    def after(self, token, args, kwargs, result, exc):
        ctx = CTX
        if token is None:
            ctx.count('prior_not_a_string')
            return
        den = F.denoted(token)
        if den is None:
            ctx.count('prior_string_outside_grammar')
            return
        jd(ctx, 'prior:value(error)-string-rejected')
        if exc is not None:
            ctx.ev()
            ctx.violation('prior:value(error)-string-rejected', {'string': token, 'exception': repr(exc)})
            return
        ctx.count('prior_obs_judged')
        if STATE['in_fit']:
            ctx.count('prior_strings_from_least_squares')
        judge_prior_obs(ctx, token, result, den)


def judge_prior_obs(ctx, s, obs, den):
    ctx.ev(2)
    jd(ctx, 'prior:value-and-error-differ-from-string' + ('(from-least_squares)' if STATE['in_fit'] else ''))
    if not float(obs.value) == den[0]:
        ctx.violation('prior:value-differs-from-string', {'string': s, 'got': repr(float(obs.value)), 'denoted': repr(den[0])})
    dv = float(obs.dvalue)
    if not F.within_ulps(dv, den[1], 3):
        ctx.violation(error_tag('prior', dv, den[1]), {'string': s, 'got': repr(dv), 'denoted': repr(den[1])})


def jd(ctx, tag, n=1):
    """evidence: how often a judgement (or a group of judgements made together) was evaluated (hardening item 13)"""
    ctx.count('judged:' + tag, n)


def error_tag(prefix, got, exp):
    """name the cause: a wrong power of ten is not a rounding problem"""
    if got > 0 and exp > 0:
        r = math.log10(got / exp)
        if abs(r) > 0.5 and abs(r - round(r)) < 1e-6:
            return prefix + ':error-off-by-a-power-of-ten'
    return prefix + ':error-differs-from-string'


def setup(ctx):
    global PE, CTX
    import pyerrors as pe
    PE = pe
    CTX = ctx
    taps.tap_function(pe.fits, '_construct_prior_obs', PriorMonitor())


def teardown(ctx):
    taps.report(ctx)
    taps.remove_all()


def plan(tier):
    m = 1 if tier == 'quick' else 144
    return [('fmt', len(CELLS) * max(m, 2)), ('fmt_mc', 320 * m), ('cobs', 320 * m), ('plain', 480 * m), ('compare', 605 * m), ('zero', 660 * m),
            ('plottable', 120 * m), ('fit_priors', 96 * m), ('many', 150 * m), ('corr_matrix', 60 * m), ('prior_refusals', 64 * m)]


# ------------------------------------------------------------------------------------------
def error_at(k, pos, s, rng):
    base = float('1e%d' % k)
    if pos == '1-ulp':
        return float(np.nextafter(base, 0.0))
    if pos == '1+ulp':
        return float(np.nextafter(base, np.inf))
    if pos == '1':
        return base                      # the double nearest to (for k >= 0: exactly) the power of ten
    if pos == 'generic':
        return base * float(rng.uniform(1.0, 10.0))
    if pos == 'error-half-way':
        # the error itself within an ulp of the middle between two printed values: (M + 1/2) units of its last printed digit
        unit = 10.0 ** (k - s + 1)
        m = int(rng.integers(10 ** (s - 1), 10 ** s - 1))
        return float(np.nextafter((m + 0.5) * unit, [0.0, np.inf, (m + 0.5) * unit][int(rng.integers(0, 3))]))
    if pos == 'carry':
        return base * 10.0 * (1.0 - 0.4 * 10.0 ** (-s))
    return base * float(pos)


def values_for(e, s, rng):
    sg = lambda: float(rng.choice([-1.0, 1.0]))
    q = 10.0 ** (math.floor(math.log10(e)) - s + 1)
    vs = [0.0,
          sg() * e * 10.0 ** float(rng.uniform(-2, 2)),
          -abs(e * 10.0 ** float(rng.uniform(-2, 2))),
          sg() * min(e * 10.0 ** float(rng.uniform(3, 12)), 10.0 ** float(rng.uniform(14, 15))),
          sg() * e * 10.0 ** (-float(rng.uniform(3, 12))),
          sg() * 10.0 ** float(rng.uniform(-15, 15)),
          (int(rng.integers(-60, 60)) + 0.5) * q,
          sg() * float(rng.integers(1, 1000)) * q,
          -0.0]
    # an exact tie: m + 2^-(nd+1) ends in the digit 5 at decimal nd+1 and is exactly representable
    nd = max(0, -int(math.floor(math.log10(e))) + s - 1)
    tie = (float(rng.integers(0, 64)) + 2.0 ** -(nd + 1)) if nd <= 40 else 2.0 ** -(nd + 1)
    vs.append(sg() * tie)
    # one ulp on either side of the tie: the printed digit is an exact decision
    vs.append(sg() * float(np.nextafter(tie, 0.0)))
    vs.append(sg() * float(np.nextafter(tie, np.inf)))
    return [float(v) for v in vs]


def controlled_obs(v, e, name='cvF'):
    o = PE.cov_Obs(float(v), float(e) * float(e), name)
    o.gamma_method()
    return o


def mc_obs(rng, scale_v, scale_e, name='E1'):
    n = int(rng.integers(8, 40))
    x = rng.normal(size=n) * scale_e * math.sqrt(n) + scale_v
    o = PE.Obs([x], [name])
    o.gamma_method()
    return o


def report(ctx, prefix, problems, extra=None):
    for tag, det in problems:
        d = dict(det)
        if extra:
            d.update(extra)
        ctx.violation(prefix + ':' + tag, d)


def judge_string(ctx, s, val, dv, sig, prefix='format', extra=None, value_ulp=None):
    ctx.ev()
    ctx.count('strings_judged')
    jd(ctx, prefix + ':half-unit,significance,sign')
    pr = F.judge(s, val, dv, sig, value_ulp=value_ulp)
    report(ctx, prefix, pr, extra)
    return not pr


def judge_parser(ctx, s):
    """the prior parser recovers the numbers the string denotes"""
    den = F.denoted(s)
    if den is None:
        return
    fn = getattr(PE.fits, '_extract_val_and_dval', None)
    if fn is None:
        ctx.count('prior_parser_function_not_found')
        return
    ctx.count('prior_strings_parsed')
    jd(ctx, 'prior-parser:value,error,rejection')
    ctx.ev(2)
    try:
        val, dval = fn(s)
    except Exception as e:
        ctx.violation('prior-parser:value(error)-string-rejected', {'string': s, 'exception': repr(e)})
        return
    if not float(val) == den[0]:
        ctx.violation('prior-parser:value-differs-from-string', {'string': s, 'got': repr(float(val)), 'denoted': repr(den[0])})
    if not F.within_ulps(dval, den[1], 2):
        ctx.violation(error_tag('prior-parser', float(dval), den[1]), {'string': s, 'got': repr(float(dval)), 'denoted': repr(den[1])})


def judge_flag(ctx, s_plain, s_flag, flag, val):
    ctx.ev()
    ctx.count('flag_pairs_judged')
    jd(ctx, 'format:flag-changes-a-negative-value' if (val < 0 or s_plain.startswith('-')) else 'format:flag-does-not-only-set-the-leading-character')
    exp = F.with_flag(s_plain, flag)
    if s_flag != exp:
        if val < 0 or s_plain.startswith('-'):
            ctx.violation('format:flag-changes-a-negative-value', {'plain': s_plain, 'flagged': s_flag, 'flag': flag, 'value': repr(val)})
        else:
            ctx.violation('format:flag-does-not-only-set-the-leading-character', {'plain': s_plain, 'flagged': s_flag, 'flag': flag, 'expected': exp})


def all_views(ctx, o, sig, flag, k_count):
    """format / str / repr / f-string of one analysed observable; returns the strings produced"""
    val, dv = float(o.value), float(o.dvalue)
    if not (dv > 0 and math.isfinite(dv)):
        return []
    vulp = float(np.spacing(np.abs(o.value))) if isinstance(o.value, np.float32) else None
    dg = obs_digest(o)
    s_plain = format(o, str(sig))
    judge_string(ctx, s_plain, val, dv, sig, extra={'via': 'format(obs, %r)' % str(sig)}, value_ulp=vulp)
    ctx.ev()
    jd(ctx, 'float:differs-from-central-value')
    f = float(o)
    if not (type(f) is float and f == val):
        ctx.violation('float:differs-from-central-value', {'float': repr(f), 'value': repr(o.value)})
    out = [s_plain]
    if flag:
        s_flag = format(o, flag + str(sig))
        judge_flag(ctx, s_plain, s_flag, flag, val)
        ctx.ev()
        jd(ctx, 'format:str.format-differs-from-format()')
        if ('{:%s%d}' % (flag, sig)).format(o) != s_flag:
            ctx.violation('format:str.format-differs-from-format()', {'spec': flag + str(sig)})
        out.append(s_flag)
    if sig != 2 and k_count % 3 == 0:
        # a significance passed to format() must not leak into later str() / repr() / format('') calls
        s2 = str(o)
        judge_string(ctx, s2, val, dv, 2, 'str-after-format', {'after': 'format(obs, %r)' % (flag + str(sig))}, value_ulp=vulp)
        ctx.ev(2)
        jd(ctx, 'format:empty-specification/repr-after-another-significance')
        if format(o, '') != s2 or repr(o) != 'Obs[' + s2 + ']':
            ctx.violation('format:empty-specification-differs-from-two-significant-digits', {'str': s2, 'format_empty': format(o, ''), 'repr': repr(o)})
        ctx.count('str_after_other_significance')
    if sig == 2:
        ctx.ev(3)
        jd(ctx, 'str,format-empty,repr:differ-from-two-significant-digits')
        if str(o) != s_plain:
            ctx.violation('str:differs-from-two-significant-digits', {'str': str(o), 'format2': s_plain})
        if format(o, '') != s_plain:
            ctx.violation('format:empty-specification-differs-from-two-significant-digits', {'got': format(o, ''), 'format2': s_plain})
        if repr(o) != 'Obs[' + s_plain + ']':
            ctx.violation('repr:not-Obs[str]', {'repr': repr(o), 'str': s_plain})
    ctx.ev()
    jd(ctx, 'format:observable-modified-by-printing')
    if obs_digest(o) != dg or float(o.dvalue) != dv:
        ctx.violation('format:observable-modified-by-printing', {'value': repr(o.value), 'dvalue_before': dv, 'dvalue_after': float(o.dvalue)})
    return out


def case_fmt(ctx, idx, rng):
    k, pos, sig, flag = CELLS[idx % len(CELLS)]
    e = error_at(k, pos, sig, rng)
    ctx.cell('fmt', 'k=%d' % k, pos, 's=%d' % sig, 'flag=%r' % flag)
    direct = getattr(PE.obs, '_format_uncertainty', None)
    first = None
    for j, v in enumerate(values_for(e, sig, rng)):
        o = controlled_obs(v, e)
        strings = all_views(ctx, o, sig, flag, j)
        if first is None and strings:
            first = (o, list(strings))
        if direct is not None:
            # the formatter itself with the error controlled to the last bit
            s_dir = direct(v, e, sig)
            judge_string(ctx, s_dir, v, e, sig, extra={'via': '_format_uncertainty', 'error': repr(e)})
            ctx.count('direct_formatter_calls')
            strings.append(s_dir)
            # the same numbers in the representations an observable can hold them in
            if j == 2:
                ctx.ev()
                jd(ctx, 'format:numpy-float64-arguments-print-differently')
                if direct(np.float64(v), np.float64(e), sig) != s_dir:
                    ctx.violation('format:numpy-float64-arguments-print-differently', {'value': repr(v), 'error': repr(e)})
            elif j == 3:
                v32 = np.float32(v)
                if np.isfinite(v32):
                    judge_string(ctx, direct(v32, e, sig), float(v32), e, sig, extra={'via': '_format_uncertainty, float32 value', 'error': repr(e)})
                    ctx.count('float32_values_formatted')
            elif j == 5 and abs(v) < 1e15:
                vi = int(round(v))
                judge_string(ctx, direct(vi, e, sig), float(vi), e, sig, extra={'via': '_format_uncertainty, Python int value', 'error': repr(e)})
                ctx.count('int_values_formatted')
        for s in dict.fromkeys(strings):
            judge_parser(ctx, s)
        if (idx + j) % 3 == 0 and strings:
            PE.fits._construct_prior_obs(strings[0], j)         # judged by the tap
        if strings:
            ctx.nontrivial.add(digest('fmt', repr(v), repr(e), sig, flag))
        if j == 1:
            ctx.sample({'value': float(o.value), 'dvalue': float(o.dvalue), 'significance': sig, 'flag': flag, 'strings': strings})
    if first is not None:
        # the first observable printed again after all the others (a cache keyed by a summary of the numbers would show here)
        o, was = first
        ctx.ev()
        jd(ctx, 'format:same-observable-prints-differently-later')
        ctx.count('strings_reproduced_later')
        now = [format(o, str(sig))] + ([format(o, flag + str(sig))] if flag else [])
        if now != was[:len(now)]:
            ctx.violation('format:same-observable-prints-differently-later', {'was': was, 'now': now})


def case_fmt_mc(ctx, idx, rng):
    sig = int(rng.integers(1, 7))
    flag = FLAGS[idx % 3]
    se = 10.0 ** float(rng.uniform(-15, 15))
    sv = float(rng.choice([-1, 1])) * (se * 10.0 ** float(rng.uniform(-3, 6)) if rng.random() < 0.6 else 10.0 ** float(rng.uniform(-15, 15)))
    if idx % 4 == 1 and 1e-30 < abs(sv) < 1e30:
        # data held in single precision: the observable's value is a numpy.float32
        n = int(rng.integers(8, 40))
        o = PE.Obs([(rng.normal(size=n) * se * math.sqrt(n) + sv).astype(np.float32)], ['E1'])
        o.gamma_method()
        ctx.cell('fmt_mc', 'float32-data')
        ctx.count('float32_observables')
    else:
        o = mc_obs(rng, sv, se, str(rng.choice(['E1', 'A|r1', 'ens'])))
    ctx.cell('fmt_mc', 's=%d' % sig, 'flag=%r' % flag)
    strings = all_views(ctx, o, sig, flag, 0)
    # analysed again with other parameters: every view must follow the error now stored, not the one printed before
    dv0 = float(o.dvalue)
    o.gamma_method(S=0.0 if idx % 2 else 3.0)
    if float(o.dvalue) != dv0:
        ctx.count('reanalysed_with_changed_error')
    all_views(ctx, o, sig, flag, 0)
    o.gamma_method()
    back = all_views(ctx, o, sig, flag, 3)
    ctx.ev()
    jd(ctx, 'format:same-observable-prints-differently-later(after-reanalysis)')
    if float(o.dvalue) == dv0 and back[:len(strings)] != strings:
        ctx.violation('format:same-observable-prints-differently-later', {'was': strings, 'now': back})
    for s in dict.fromkeys(strings):
        judge_parser(ctx, s)
    if strings:
        PE.fits._construct_prior_obs(strings[-1], idx)
        ctx.nontrivial.add(digest('fmt_mc', repr(o.value), repr(o.dvalue), sig, flag))
    # a spectator: another ensemble entering with weight exactly zero (first or last) changes neither value nor error nor the text
    other = mc_obs(rng, 1.0, 0.3, 'E9')
    d2 = (0.0 * other + o) if idx % 2 else (o + other * 0.0)
    d2.gamma_method()
    sp_strings = all_views(ctx, d2, sig, flag, 1)
    ctx.ev()
    jd(ctx, 'format:spectator-with-zero-weight-changes-the-text')
    if float(d2.value) == float(o.value) and float(d2.dvalue) == float(o.dvalue) and sp_strings != back[:len(sp_strings)] and float(o.dvalue) == dv0:
        ctx.violation('format:spectator-with-zero-weight-changes-the-text', {'without': back, 'with': sp_strings})
    # a derived observable prints by the same rule
    d = o * 3.0 + 1.0
    d.gamma_method()
    all_views(ctx, d, sig, flag, 1)
    ctx.sample({'value': float(o.value), 'dvalue': float(o.dvalue), 'significance': sig, 'flag': flag, 'strings': strings})


def case_cobs(ctx, idx, rng):
    sig = int(rng.integers(1, 7))
    flag = FLAGS[idx % 3]
    parts = []
    for c in range(2):
        e = 10.0 ** float(rng.uniform(-15, 15))
        v = float(rng.choice([-1, 1])) * e * 10.0 ** float(rng.uniform(-3, 4))
        if idx % 16 == 5 and c == 1:
            v = 0.0
        if idx % 2:
            parts.append(PE.cov_Obs(v, e * e, 'cvC%d' % c))
        else:
            n = int(rng.integers(8, 30))
            parts.append(PE.Obs([rng.normal(size=n) * e * math.sqrt(n) + v], ['E1']))
    special = {7: 'minus-zero-imag', 9: 'same-observable-twice', 11: 'minus-zero-real', 13: 'equal-values-different-data'}.get(idx % 16, 'generic')
    if special == 'minus-zero-imag':
        parts[1] = -1 * PE.cov_Obs(0.0, float(parts[1].value if parts[1].value else 1.0) ** 2 + 1e-300, 'cvC1')      # value -0.0, error > 0
    elif special == 'minus-zero-real':
        parts[0] = -1 * PE.cov_Obs(0.0, float(parts[0].value if parts[0].value else 1.0) ** 2 + 1e-300, 'cvC0')
    elif special == 'same-observable-twice':
        parts[1] = parts[0]
    elif special == 'equal-values-different-data':
        # the two parts agree in their central value but are different observables with different errors
        parts[1] = PE.cov_Obs(float(parts[0].value), (3.7 * float(abs(parts[0].value)) + 1e-3) ** 2, 'cvC1')
    c = PE.CObs(parts[0], parts[1])
    c.gamma_method()
    re, im = c.real, c.imag
    ctx.cell('cobs', 's=%d' % sig, 'flag=%r' % flag)
    ctx.cell('cobs', special)
    always_str = special != 'generic'
    views = [('format', format(c, flag + str(sig)), sig, flag)]
    if idx % 3 == 0 or always_str:
        views.append(('str', str(c), 2, ''))
        views.append(('format-empty', format(c, ''), 2, ''))
        ctx.ev()
        jd(ctx, 'cobs:repr-not-CObs[str]')
        if repr(c) != 'CObs[' + str(c) + ']':
            ctx.violation('cobs:repr-not-CObs[str]', {'repr': repr(c), 'str': str(c)})
    for via, s, sg, fl in views:
        ctx.ev()
        ctx.count('cobs_strings_judged')
        jd(ctx, 'cobs:form,leading-character,imaginary-sign' + ('(%s)' % special if special != 'generic' else ''))
        sp = F.split_complex(s)
        if sp is None:
            if '+-' in s and float(im.value) == 0 and math.copysign(1.0, float(im.value)) < 0:
                # cause re-checked on the witness: the imaginary part is -0.0 and a '+' was put in front of its '-'
                ctx.violation('cobs:plus-sign-in-front-of-minus-zero-imaginary-part', {'string': s, 'via': via, 'imag': repr(im.value)})
            else:
                ctx.violation('cobs:not-of-the-form-(re(err)+-im(err)j)', {'string': s, 'via': via})
            continue
        judge_string(ctx, sp[0], float(re.value), float(re.dvalue), sg, 'cobs:real', {'string': s, 'via': via})
        judge_string(ctx, sp[1], float(im.value), float(im.dvalue), sg, 'cobs:imag', {'string': s, 'via': via})
        p0 = F.parse(sp[0])
        if not isinstance(p0, str):
            exp_lead = '-' if sp[0].lstrip('+ ').startswith('-') or float(re.value) < 0 else fl
            ctx.ev()
            if p0.lead != exp_lead:
                ctx.violation('cobs:real-part-leading-character', {'string': s, 'flag': fl, 'value': float(re.value)})
        ctx.ev()
        if float(im.value) < 0 and not sp[1].startswith('-') or float(im.value) > 0 and not sp[1].startswith('+'):
            ctx.violation('cobs:imaginary-part-sign', {'string': s, 'imag': float(im.value)})
    ctx.nontrivial.add(digest('cobs', repr(re.value), repr(re.dvalue), repr(im.value), repr(im.dvalue), sig, flag))
    ctx.sample({'real': [float(re.value), float(re.dvalue)], 'imag': [float(im.value), float(im.dvalue)], 'significance': sig, 'flag': flag, 'strings': [v[1] for v in views]})


def case_plain(ctx, idx, rng):
    """an observable without error prints as its plain value"""
    how = ['not-analysed', 'constant-data', 'nan-error', 'inf-error', 'zero-error-direct', 'cobs-not-analysed', 'pseudo-obs-zero-error',
           'significance-not-positive-refused'][idx % 8]
    v = float(rng.choice([-1, 1])) * 10.0 ** float(rng.uniform(-15, 15))
    if idx % 12 == 0:
        v = float(int(rng.integers(-1000, 1000)))
    ctx.cell('plain', how)
    direct = getattr(PE.obs, '_format_uncertainty', None)
    if how == 'pseudo-obs-zero-error':
        # an observable requested with error zero (or a non-positive one): constant samples, prints as its plain value, and the
        # value is the requested one
        k = int(rng.integers(5, 40))
        o = PE.pseudo_Obs(v, [0.0, 0.0, -1.0][idx % 3], 'E1', samples=k)
        o.gamma_method()
        ctx.ev(2)
        jd(ctx, 'pseudo_Obs:zero-error-observable-has-another-value-or-an-error')
        # (the mean of k equal numbers is not always that number: an error of the size of the rounding of the value is not an error)
        # bound: the sum of k terms carries at most (k-1) roundings
        if not F.within_ulps(float(o.value), v, k) or not float(o.dvalue) <= 2 * k * math.ulp(v) or o.N != k:
            ctx.violation('pseudo_Obs:zero-error-observable-has-another-value-or-an-error', {'requested': repr(v), 'value': repr(o.value), 'dvalue': repr(o.dvalue), 'N': o.N})
        if float(o.dvalue) != 0.0:
            ctx.count('pseudo_obs_zero_error_with_rounding_noise')
            all_views(ctx, o, 2, '+', 0)          # the stored error is not zero: the text is a value(error) string like any other
            ctx.nontrivial.add(digest('plain', how, repr(v)))
            return
        views = [(str(o), ''), (format(o, '3'), ''), (format(o, '+2'), '+')]
        val = float(o.value)
    elif how == 'significance-not-positive-refused':
        # zero or negative significant digits cannot be shown: the request must be refused, not answered with some text
        o = controlled_obs(v, abs(v) * 10.0 ** float(rng.uniform(-3, 1)))
        calls = [('format(obs, "0")', lambda: format(o, '0')), ('format(obs, "+0")', lambda: format(o, '+0')), ('"{:0}".format(obs)', lambda: '{:0}'.format(o))]
        if direct is not None:
            calls += [('_format_uncertainty(significance=0)', lambda: direct(v, abs(v) + 1.0, 0)), ('_format_uncertainty(significance=-1)', lambda: direct(v, abs(v) + 1.0, -1)),
                      ('_format_uncertainty(significance=2.0)', lambda: direct(v, abs(v) + 1.0, 2.0))]
        for what, call in calls:
            ctx.ev()
            jd(ctx, 'format:significance-not-a-positive-integer-accepted')
            try:
                got = call()
            except (ValueError, TypeError):
                continue
            ctx.violation('format:significance-not-a-positive-integer-accepted', {'call': what, 'returned': repr(got)})
        ctx.nontrivial.add(digest('plain', how, repr(v)))
        return
    elif how == 'not-analysed':
        n = int(rng.integers(5, 20))
        o = PE.Obs([rng.normal(size=n) + v], ['E1'])
        views = [(str(o), ''), (format(o, '3'), ''), (format(o, '+3'), '+'), (format(o, ' 2'), ' ')]
        val = float(o.value)
        ctx.ev()
        if repr(o) != 'Obs[' + str(o) + ']':
            ctx.violation('repr:not-Obs[str]', {'repr': repr(o), 'str': str(o)})
    elif how == 'constant-data':
        o = PE.Obs([np.full(int(rng.integers(5, 20)), v)], ['E1'])
        o.gamma_method()
        if o.dvalue != 0:
            raise Skip()
        views = [(str(o), ''), (format(o, '4'), ''), (format(o, '+1'), '+')]
        val = float(o.value)
    elif how in ('nan-error', 'inf-error', 'zero-error-direct'):
        if direct is None:
            ctx.count('direct_formatter_not_found')
            raise Skip()
        dv = {'nan-error': float('nan'), 'inf-error': float('inf'), 'zero-error-direct': 0.0}[how]
        views = [(direct(v, dv), ''), (direct(np.float64(v), dv, 4), '')]
        val = v
    else:
        n = int(rng.integers(5, 20))
        a = PE.Obs([rng.normal(size=n) + v], ['E1'])
        b = PE.Obs([rng.normal(size=n) - 0.3 * v], ['E1'])
        c = PE.CObs(a, b)
        s = str(c)
        ctx.ev()
        ctx.count('plain_value_strings')
        jd(ctx, 'cobs:plain-value-string-wrong')
        ok = False
        try:
            ok = complex(s) == complex(float(a.value), float(b.value))
        except ValueError:
            ok = False
        if not ok:
            ctx.violation('cobs:plain-value-string-wrong', {'string': s, 'real': float(a.value), 'imag': float(b.value)})
        ctx.nontrivial.add(digest('plain', how, repr(a.value), repr(b.value)))
        return
    for s, fl in views:
        ctx.ev()
        ctx.count('plain_value_strings')
        jd(ctx, 'plain:observable-without-error-not-printed-as-its-value(%s)' % how)
        if not F.plain_value_ok(s, val, fl):
            ctx.violation('plain:observable-without-error-not-printed-as-its-value', {'string': s, 'value': repr(val), 'how': how, 'flag': fl})
    ctx.nontrivial.add(digest('plain', how, repr(val)))
    ctx.sample({'how': how, 'value': val, 'strings': [s for s, _ in views]})


OPS = [('<', operator.lt), ('<=', operator.le), ('>', operator.gt), ('>=', operator.ge)]


def case_compare(ctx, idx, rng):
    e = 10.0 ** float(rng.uniform(-15, 15))
    v = float(rng.choice([-1, 1])) * 10.0 ** float(rng.uniform(-15, 15))
    if idx % 5 == 4 and 1e-30 < abs(v) < 1e30:
        o = PE.Obs([(rng.normal(size=12) * e + v).astype(np.float32)], ['E1'])      # value held as numpy.float32
        o.gamma_method()
    else:
        o = controlled_obs(v, e) if idx % 2 else mc_obs(rng, v, e)
    val = float(o.value)
    rel = ['tie', 'below-within-error', 'above-within-error', 'far-below', 'far-above', 'next-float-below', 'next-float-above',
           'below-by-1e-10', 'above-by-1e-10', 'below-by-1e-14', 'above-by-1e-14'][idx % 11]
    dv = float(o.dvalue)
    other = {'tie': val, 'below-within-error': val - 0.3 * dv, 'above-within-error': val + 0.3 * dv, 'far-below': val - 10 * dv - abs(val),
             'far-above': val + 10 * dv + abs(val), 'next-float-below': float(np.nextafter(val, -np.inf)), 'next-float-above': float(np.nextafter(val, np.inf)),
             'below-by-1e-10': val - 1e-10 * abs(val), 'above-by-1e-10': val + 1e-10 * abs(val), 'below-by-1e-14': val - 1e-14 * abs(val),
             'above-by-1e-14': val + 1e-14 * abs(val)}[rel]
    ptype = ['float', 'np.float64', 'Obs', 'int', 'Obs-mc', 'np.float32', 'np.int64', 'np.int32', '0-d array', 'Obs-int-value', 'self'][(idx // 11) % 11]
    if ptype in ('np.int64', 'Obs-int-value') and not abs(other) < 9e15 or ptype == 'np.int32' and not abs(other) < 2e9:
        ptype = 'float'                                  # integers that the type cannot hold exactly
    if ptype == 'np.float32' and not (abs(other) < 3e38 and (other == 0 or abs(other) > 1e-37)):
        ptype = 'float'
    if ptype == 'float':
        partner, pval = float(other), float(other)
    elif ptype == 'np.float64':
        partner, pval = np.float64(other), float(other)
    elif ptype == 'int':
        pval = int(round(other)) if abs(other) < 1e15 else int(other)
        partner = pval
    elif ptype == 'Obs':
        partner = controlled_obs(other, 10.0 ** float(rng.uniform(-15, 15)), 'cvP')
        pval = float(partner.value)
    elif ptype == 'np.float32':
        partner = np.float32(other)
        pval = float(partner)
    elif ptype in ('np.int64', 'np.int32'):
        pval = int(round(other))
        partner = getattr(np, ptype[3:])(pval)
    elif ptype == '0-d array':
        partner, pval = np.array(float(other)), float(other)
    elif ptype == 'Obs-int-value':
        pval = int(round(other))
        partner = PE.cov_Obs(pval, 1, 'cvI')              # an observable whose central value is a Python int
        partner.gamma_method()
    elif ptype == 'self':
        partner, pval = o, val                            # the same object on both sides
    else:
        n = 10
        x = rng.normal(size=n)
        x = x - x.mean() + other
        partner = PE.Obs([x], ['E2'])
        pval = float(partner.value)
    ctx.cell('compare', rel, ptype)
    dgs = (obs_digest(o), any_digest(partner))
    for name, op in OPS:
        ctx.ev(2)
        ctx.count('comparisons_judged', 2)
        # exact comparison of the central values.  When one side is held in single precision numpy may decide the
        # comparison after rounding the other side to single precision as well (a Python float is a "weak" scalar): where
        # the two readings differ the decision lies within the rounding of the float32 operand - borderline, not judged.
        pobj = partner.value if hasattr(partner, 'value') and hasattr(partner, 'deltas') else partner
        f32 = isinstance(o.value, np.float32) or isinstance(pobj, np.float32)
        for got, exp, a32, b32, tag in ((op(o, partner), op(val, pval), val, pval, 'compare:Obs%sother-differs-from-value-comparison' % name),
                                        (op(partner, o), op(pval, val), pval, val, 'compare:other%sObs-differs-from-value-comparison' % name)):
            if f32 and bool(op(np.float32(a32), np.float32(b32))) != exp:
                ctx.count('comparisons_borderline_within_float32_rounding')
                continue
            jd(ctx, tag + ('(tie)' if rel == 'tie' or ptype == 'self' else ''))
            if bool(got) != exp or not isinstance(got, (bool, np.bool_)):
                ctx.violation(tag, {'value': repr(val), 'other': repr(pval), 'partner': ptype, 'got': repr(got), 'relation': rel})
    ctx.ev()
    ctx.count('float_conversions')
    f = float(o)
    if not (type(f) is float and f == val):
        ctx.violation('float:differs-from-central-value', {'float': repr(f), 'value': repr(val)})
    ctx.ev()
    jd(ctx, 'compare:operand-modified-by-a-comparison')
    if (obs_digest(o), any_digest(partner)) != dgs:
        ctx.violation('compare:operand-modified-by-a-comparison', {'partner': ptype})
    ctx.nontrivial.add(digest('compare', repr(val), repr(pval), ptype))
    ctx.sample({'value': val, 'dvalue': dv, 'partner': ptype, 'other': pval, 'relation': rel})


def case_zero(ctx, idx, rng):
    how = ['tie', 'inside', 'outside', 'random', 'random-mc', 'near-tie'][idx % 6]
    sigma = [1, 2, 3, 0.5, 1.5, None, np.float64(2.5), np.int64(2), 0, np.float32(0.5), True][(idx // 6) % 11]
    sg = 1 if sigma is None else float(sigma)
    if how == 'tie':
        # |value| = sigma * dvalue exactly: error a power of two times a small integer, so that the product is exact
        e = float(rng.choice([0.5, 1.0, 2.0, 1.5, 0.25, 3.0, 1024.0, 2.0 ** -20, 2.0 ** -40, 3 * 2.0 ** 30]))
        o = controlled_obs(float(rng.choice([-1, 1])) * sg * e, e)
        if float(o.dvalue) != e:
            raise Skip()
    elif how == 'near-tie':
        # |value| within 1e-10 relative, or within two ulp, of sigma * dvalue on either side: the test is an exact comparison
        e = 10.0 ** float(rng.uniform(-8, 8))
        t = sg * e
        v = [t * (1 - 1e-10), t * (1 + 1e-10), float(np.nextafter(t, 0.0)), float(np.nextafter(t, np.inf)), float(np.nextafter(np.nextafter(t, np.inf), np.inf)),
             t * (1 + 1e-13)][(idx // 66) % 6]
        o = controlled_obs(float(rng.choice([-1, 1])) * v, e)
    elif how in ('inside', 'outside'):
        e = 10.0 ** float(rng.uniform(-15, 15))
        f = float(rng.uniform(0.0, 0.98)) if how == 'inside' else float(rng.uniform(1.02, 30.0))
        o = controlled_obs(float(rng.choice([-1, 1])) * sg * e * f, e)
    elif how == 'random':
        e = 10.0 ** float(rng.uniform(-15, 15))
        o = controlled_obs(float(rng.choice([-1, 1])) * 10.0 ** float(rng.uniform(-15, 15)), e)
    else:
        e = 10.0 ** float(rng.uniform(-15, 15))
        o = mc_obs(rng, float(rng.choice([-1, 1])) * e * 10.0 ** float(rng.uniform(-2, 2)), e)
    val, dv = float(o.value), float(o.dvalue)
    dg = obs_digest(o)
    got = o.is_zero_within_error() if sigma is None else o.is_zero_within_error(sigma)
    exp = abs(val) <= sg * dv
    # an explicit sigma must neither be remembered nor be overridden by what was asked before
    other_sigma = 7 if sg != 7 else 3
    o.is_zero_within_error(other_sigma)
    again = o.is_zero_within_error() if sigma is None else o.is_zero_within_error(sigma)
    ctx.ev()
    jd(ctx, 'is_zero_within_error:observable-modified-by-the-test')
    if obs_digest(o) != dg or float(o.dvalue) != dv:
        ctx.violation('is_zero_within_error:observable-modified-by-the-test', {'value': repr(val)})
    ctx.ev()
    jd(ctx, 'is_zero_within_error:answer-depends-on-earlier-calls')
    if bool(again) != bool(got):
        ctx.violation('is_zero_within_error:answer-depends-on-earlier-calls', {'value': repr(val), 'dvalue': repr(dv), 'sigma': repr(sigma), 'first': bool(got), 'later': bool(again)})
    ctx.ev()
    ctx.count('zero_tests_judged')
    jd(ctx, 'is_zero_within_error:' + ('equality-not-counted-as-within' if how == 'tie' else 'differs-from-abs(value)<=sigma*dvalue' + ('(near-tie)' if how == 'near-tie' else '')))
    if how == 'tie':
        ctx.count('zero_tests_at_equality')
    ctx.cell('zero', how, 'sigma=%r' % sigma, 'tiny' if abs(val) < 1e-10 else 'normal')
    if bool(got) != exp:
        shortcut = False
        try:
            shortcut = bool(o.is_zero())
        except Exception:
            pass
        if got and not exp and shortcut:
            # cause re-checked on the witness: the absolute-tolerance test is_zero() answered instead of the sigma test
            tag = 'is_zero_within_error:absolute-tolerance-is_zero-shortcut-overrides-the-sigma-test'
        elif how == 'tie':
            tag = 'is_zero_within_error:equality-not-counted-as-within'
        else:
            tag = 'is_zero_within_error:differs-from-abs(value)<=sigma*dvalue'
        ctx.violation(tag, {'value': repr(val), 'dvalue': repr(dv), 'sigma': sigma, 'got': bool(got), 'expected': exp, 'ratio': abs(val) / dv if dv else None})
    ctx.nontrivial.add(digest('zero', repr(val), repr(dv), sigma))
    ctx.sample({'value': val, 'dvalue': dv, 'sigma': sigma, 'result': bool(got), 'how': how})


def judge_corr_text(ctx, corr, text):
    """text form of a one-dimensional correlator: one line per timeslice, 't' alone for an undefined slice, else 't<TAB>+value(error)' with
    the sign always shown; every value(error) is judged like any other"""
    lines = text.split('\n')
    ctx.ev()
    jd(ctx, 'corr-text:layout')
    try:
        start = lines.index('------------------') + 1
    except ValueError:
        ctx.violation('corr-text:layout', {'text_head': text[:200]})
        return
    body = [l for l in lines[start:] if l != '']
    if len(body) != corr.T or not lines[0].startswith('Corr T=%d N=1' % corr.T):
        ctx.violation('corr-text:layout', {'lines': len(body), 'T': corr.T, 'first': lines[0]})
        return
    for t, (line, c) in enumerate(zip(body, corr.content)):
        parts = line.split('\t')
        ctx.ev()
        if parts[0] != str(t) or (c is None) != (len(parts) == 1):
            ctx.violation('corr-text:timeslice-or-undefined-slice-wrong', {'line': line, 't': t, 'defined': c is not None})
            continue
        if c is None:
            continue
        o = c[0]
        if not (float(o.dvalue) > 0):
            continue
        judge_string(ctx, parts[1], float(o.value), float(o.dvalue), 2, 'corr-text', {'line': line})
        ctx.ev()
        if parts[1][0] not in '+-':
            ctx.violation('corr-text:sign-not-shown', {'line': line})


def case_corr_matrix(ctx, idx, rng):
    """a matrix correlator has no plottable view (must be refused) and its text form is the header only"""
    T = int(rng.integers(2, 7))
    N = 2 + idx % 2
    content = []
    for t in range(T):
        if idx % 3 == 0 and t == T // 2 and T > 2:
            content.append(None)
            continue
        content.append(np.array([[PE.cov_Obs(float(rng.normal()), 0.01, 'cvK') for j in range(N)] for i in range(N)]))
    corr = PE.Corr(content)
    tag = ['', None, 'a description'][idx % 3]
    if tag is not None:
        corr.tag = tag
    corr.gamma_method()
    ctx.cell('corr-matrix', 'N=%d' % N, 'tag=%r' % (tag,))
    ctx.ev()
    jd(ctx, 'plottable:matrix-correlator-accepted')
    try:
        got = corr.plottable()
        ctx.violation('plottable:matrix-correlator-accepted', {'N': N, 'returned': repr(got)[:200]})
    except (ValueError, TypeError):
        pass
    text = repr(corr)
    exp = 'Corr T=%d N=%d\n' % (T, N) + ('Description: ' + tag + '\n' if tag is not None else '')
    ctx.ev()
    jd(ctx, 'corr-text:matrix-correlator-header')
    if text != exp or str(corr) != exp:
        ctx.violation('corr-text:matrix-correlator-header', {'got': text, 'expected': exp})
    ctx.nontrivial.add(digest('corr-matrix', T, N, tag))


def case_plottable(ctx, idx, rng):
    T = int(rng.integers(3, 14)) if idx % 8 else int(rng.integers(1, 3))          # also one- and two-slice correlators
    pattern = ['none', 'padding', 'interior', 'many'][idx % 4]
    if T < 3 and pattern in ('interior', 'many'):
        pattern = 'padding'
    content = []
    for t in range(T):
        e = 10.0 ** float(rng.uniform(-15, 15))
        v = float(rng.normal()) * 10.0 ** float(rng.uniform(-15, 15))
        if idx % 3 == 0:
            content.append(PE.cov_Obs(v, e * e, 'cvK'))
        else:
            n = 12
            content.append(PE.Obs([rng.normal(size=n) * e + v], ['E1']))
    pad = [0, 0]
    if pattern == 'padding':
        pad = [int(rng.integers(0, 3)), int(rng.integers(1, 4))]
    elif pattern == 'interior':
        content[int(rng.integers(1, T - 1))] = None
    elif pattern == 'many':
        for t in rng.choice(T, size=max(1, T // 2), replace=False):
            content[int(t)] = None
        if all(c is None for c in content):
            content[0] = PE.cov_Obs(1.0, 0.01, 'cvK')
    if idx % 5 == 3 and T >= 3:
        # the same observable at several timeslices
        src = next(c for c in content if c is not None)
        content = [None if c is None else (src if t % 2 else c) for t, c in enumerate(content)]
        ctx.cell('plottable', 'same-observable-at-several-slices')
    corr = PE.Corr(content, padding=pad)
    corr.gamma_method()
    if idx % 3 == 1 and corr.T >= 3:
        corr.set_prange([1, corr.T - 2])          # a stored plateau range must not restrict the plottable view
        ctx.cell('plottable', 'prange-set')
    dgc = any_digest(corr)
    x, y, dy = corr.plottable()
    ctx.ev()
    jd(ctx, 'plottable:correlator-modified-by-the-view')
    if any_digest(corr) != dgc:
        ctx.violation('plottable:correlator-modified-by-the-view', {'T': corr.T})
    ctx.count('plottable_views')
    ctx.cell('plottable', pattern)
    judge_corr_text(ctx, corr, str(corr) if idx % 2 else repr(corr))
    ex, ey, edy = [], [], []
    for t, c in enumerate(corr.content):
        if c is not None:
            ex.append(t)
            ey.append(float(c[0].value))
            edy.append(float(c[0].dvalue))
    ctx.ev(3)
    jd(ctx, 'plottable:timeslices,values,errors')
    if list(x) != ex:
        ctx.violation('plottable:timeslices-differ-from-defined-slices', {'got': list(x), 'expected': ex})
    if [float(v) for v in y] != ey:
        ctx.violation('plottable:values-differ-from-central-values', {'got': [float(v) for v in y], 'expected': ey})
    if [float(v) for v in dy] != edy:
        ctx.violation('plottable:errors-differ-from-dvalue', {'got': [float(v) for v in dy], 'expected': edy})
    # the defined slices are where the input had observables (front padding shifts them)
    ein = [t + pad[0] for t, c in enumerate(content) if c is not None]
    ctx.ev()
    if ex != ein or corr.T != T + pad[0] + pad[1]:
        ctx.violation('plottable:timeslices-differ-from-defined-slices', {'got': ex, 'input_defined': ein, 'T': corr.T})
    # the lists handed out are the caller's: changing them must not show in a later view; a later analysis must show
    for l in (x, y, dy):
        if isinstance(l, list) and l:
            l[0] = -12345
            l.append(0)
    corr.gamma_method(S=0.0 if idx % 2 else 3.0)
    x2, y2, dy2 = corr.plottable()
    edy2 = [float(c[0].dvalue) for c in corr.content if c is not None]
    ctx.ev(2)
    ctx.count('plottable_views_repeated')
    jd(ctx, 'plottable:later-view(caller-changed-lists,second-analysis)')
    if list(x2) != ex or [float(v) for v in y2] != ey:
        ctx.violation('plottable:later-view-differs(caller-changed-the-earlier-lists)', {'got_x': list(x2), 'expected_x': ex})
    if [float(v) for v in dy2] != edy2:
        ctx.violation('plottable:errors-differ-from-dvalue', {'got': [float(v) for v in dy2], 'expected': edy2, 'note': 'after a second analysis'})
    if any(v > 0 for v in edy):
        ctx.nontrivial.add(digest('plottable', ex, ey, edy))
    ctx.sample({'T': corr.T, 'pattern': pattern, 'x': list(x), 'y': [float(v) for v in y][:4], 'dy': [float(v) for v in dy][:4]})


def judge_fit_text(ctx, out, idx):
    """str(fit result): the lines after 'Fit parameters:' are 'i<TAB>[ ]value(error)' of the parameters, the goodness-of-fit numbers
    are the stored ones rounded to the printed decimals; repr lists every attribute"""
    ctx.ev()
    jd(ctx, 'fit-text:layout')
    npar = len(out.fit_parameters)
    if len(out) != npar:
        ctx.violation('fit-text:len-differs-from-number-of-parameters', {'len': len(out), 'parameters': npar})
    if idx % 2:
        out.gamma_method()          # analysing the result again (same parameters) must not change what is printed
    text = str(out)
    lines = text.split('\n')
    if 'Fit parameters:' not in lines:
        ctx.violation('fit-text:layout', {'text': text[:300]})
        return
    body = [l for l in lines[lines.index('Fit parameters:') + 1:] if l != '']
    if len(body) != npar:
        ctx.violation('fit-text:layout', {'lines': len(body), 'parameters': npar})
        return
    for i, (line, par) in enumerate(zip(body, out.fit_parameters)):
        parts = line.split('\t')
        ctx.ev()
        if len(parts) != 2 or parts[0] != str(i):
            ctx.violation('fit-text:layout', {'line': line})
            continue
        if float(par.dvalue) == 0.0:
            # parameters of a fit that has not been analysed carry no error yet: plain values
            ctx.ev()
            jd(ctx, 'fit-text:parameter-without-error-not-printed-as-its-value')
            if not F.plain_value_ok(parts[1].strip(), float(par.value)):
                ctx.violation('fit-text:parameter-without-error-not-printed-as-its-value', {'line': line, 'value': repr(par.value)})
        else:
            judge_string(ctx, parts[1].strip(), float(par.value), float(par.dvalue), 2, 'fit-text', {'line': line})
    for label, attr, dec in (('\u03C7\u00b2/d.o.f. = ', 'chisquare_by_dof', 6), ('p-value   = ', 'p_value', 4)):
        if hasattr(out, attr):
            hit = [l for l in lines if l.startswith(label)]
            ctx.ev()
            jd(ctx, 'fit-text:goodness-of-fit-number')
            ok = len(hit) == 1
            if ok:
                try:
                    ok = abs(float(hit[0][len(label):]) - float(getattr(out, attr))) <= 0.5000001 * 10.0 ** -dec
                except ValueError:
                    ok = False
            if not ok:
                ctx.violation('fit-text:goodness-of-fit-number', {'attribute': attr, 'stored': float(getattr(out, attr)), 'lines': hit})
    r = repr(out)
    ctx.ev()
    jd(ctx, 'fit-text:repr-lists-the-parameters')
    if 'fit_parameters' not in r or any(repr(p) not in r for p in out.fit_parameters):
        ctx.violation('fit-text:repr-lists-the-parameters', {'repr': r[:300]})
    ctx.count('fit_results_printed')


def case_prior_refusals(ctx, idx, rng):
    """what is not a value(error) string with an error (or an observable) cannot be a prior: a number, a tuple, a string with error zero"""
    pe = PE
    xs = np.arange(1, 6, dtype=float)
    ys = [pe.Obs([2.0 + 0.5 * x + rng.normal(size=30) * 0.1], ['E1']) for x in xs]
    [y.gamma_method() for y in ys]
    good = format(controlled_obs(0.5, 0.2), '2')
    bad = [1.5, 3, (1.5, 0.2), None, b'1.5(2)', '1.5(0)', '0.50(0)', '2(0)'][idx % 8]
    ctx.cell('prior-refusals', repr(bad))
    if not isinstance(bad, str):
        ctx.ev()
        jd(ctx, 'prior:entry-that-is-neither-string-nor-observable-accepted')
        try:
            got = pe.fits._construct_prior_obs(bad, 1)
            ctx.violation('prior:entry-that-is-neither-string-nor-observable-accepted', {'entry': repr(bad), 'returned': repr(got)})
        except (TypeError, ValueError):
            pass
    for priors in ([bad, good], {0: good, 1: bad}):
        ctx.ev()
        jd(ctx, 'prior:unusable-prior-accepted-by-the-fit')
        try:
            out = pe.fits.least_squares(xs, ys, SHARED_LINEAR, priors=priors, silent=True)
        except Exception as e:
            if type(e) in (Exception, ValueError, TypeError):
                continue
            raise
        ctx.violation('prior:unusable-prior-accepted-by-the-fit', {'prior': repr(bad), 'fit_priors': repr(out.priors)[:200]})
    # an observable as prior is taken as it is
    po = controlled_obs(0.5, 0.2, 'cvPO')
    got = pe.fits._construct_prior_obs(po, 0)
    ctx.ev()
    jd(ctx, 'prior:observable-prior-not-taken-as-it-is')
    if got is not po:
        ctx.violation('prior:observable-prior-not-taken-as-it-is', {'returned': repr(got)})
    ctx.nontrivial.add(digest('prior-refusal', repr(bad)))


def case_fit_priors(ctx, idx, rng):
    """string priors through least_squares: the tap judges the priors the fit actually built; fit.priors is compared as well"""
    pe = PE
    nx = 6
    xs = np.arange(1, nx + 1, dtype=float)
    a, b = float(rng.normal(2, 0.5)), float(rng.normal(0.5, 0.2))
    n = 40
    ys = [pe.Obs([a + b * x + rng.normal(size=n) * 0.1], ['E1']) for x in xs]
    [y.gamma_method() for y in ys]
    sigs = [int(rng.integers(1, 7)) for _ in range(2)]
    flags = [FLAGS[(idx + i) % 3] for i in range(2)]
    pobs = [controlled_obs(a * (1 + 0.05 * float(rng.normal())), abs(a) * 10.0 ** float(rng.uniform(-3, 0))),
            controlled_obs(b * (1 + 0.05 * float(rng.normal())), abs(b) * 10.0 ** float(rng.uniform(-3, 0)))]
    strings = [format(o, f + str(s)) for o, f, s in zip(pobs, flags, sigs)]
    if idx % 6 == 5:
        strings = [strings[0], strings[0]]          # the same string (object) in two slots: two independent priors with equal numbers
        pobs = [pobs[0], pobs[0]]
        sigs = [sigs[0], sigs[0]]
    for o, s_, sg in zip(pobs, strings, sigs):
        judge_string(ctx, s_, float(o.value), float(o.dvalue), sg, extra={'via': 'prior string'})

    if (idx // 4) % 3 == 0:
        func = SHARED_LINEAR                      # one function object for many fits of this process, with other data and priors
    elif (idx // 4) % 3 == 1:
        func = lambda p, x: p[0] + p[1] * x       # noqa: E731  a new object with the same code every time
    else:
        def func(p, x):
            return p[0] + p[1] * x
    ctx.cell('fit_priors', 'function', ['shared-object', 'fresh-lambda', 'fresh-def'][(idx // 4) % 3])
    form = ['list', 'dict', 'dict-one', 'array'][idx % 4]
    if form == 'list':
        priors = list(strings)
    elif form == 'array':
        priors = np.array(strings)
    elif form == 'dict':
        priors = {0: strings[0], 1: strings[1]}
    else:
        priors = {1: strings[1]}
    ctx.cell('fit_priors', form)
    STATE['in_fit'] = True
    try:
        out = pe.fits.least_squares(xs, ys, func, priors=priors, silent=True)
    finally:
        STATE['in_fit'] = False
    # the container of priors the caller holds is what it was; the same container and function in a second fit give the same priors
    before = list(strings) if form in ('list', 'array') else ({0: strings[0], 1: strings[1]} if form == 'dict' else {1: strings[1]})
    now = list(priors) if form in ('list', 'array') else dict(priors)
    ctx.ev()
    jd(ctx, 'prior:container-of-priors-modified-by-the-fit')
    if [str(t) for t in (now if isinstance(now, list) else now.values())] != [str(t) for t in (before if isinstance(before, list) else before.values())] or \
            any(not isinstance(t, str) for t in (now if isinstance(now, list) else now.values())):
        ctx.violation('prior:container-of-priors-modified-by-the-fit', {'form': form, 'now': repr(now)[:200]})
    elif idx % 2 == 0:
        STATE['in_fit'] = True
        try:
            out2 = pe.fits.least_squares(xs, ys, func, priors=priors, silent=True)
        finally:
            STATE['in_fit'] = False
        g2 = out2.priors
        it2 = list(g2.items()) if isinstance(g2, dict) else list(enumerate(g2))
        for pos, p2 in it2:
            den = F.denoted(str(strings[pos]))
            if den is not None:
                judge_prior_obs(ctx, str(strings[pos]), p2, den)
        ctx.count('second_fit_with_the_same_priors_object')
    got = out.priors
    items = list(got.items()) if isinstance(got, dict) else list(enumerate(got))
    for pos, p in items:
        den = F.denoted(str(strings[pos]))
        if den is None:
            continue
        judge_prior_obs(ctx, str(strings[pos]), p, den)
        ctx.count('fit_priors_compared')
    if len(items) == 2:
        ctx.ev()
        jd(ctx, 'prior:two-string-priors-share-a-covariance-name')
        if set(items[0][1].names) & set(items[1][1].names):
            ctx.violation('prior:two-string-priors-share-a-covariance-name', {'names': [list(i[1].names) for i in items], 'strings': [str(t) for t in strings]})
    judge_fit_text(ctx, out, idx)
    ctx.nontrivial.add(digest('fit', strings, form))
    ctx.sample({'priors': [str(s) for s in strings], 'form': form, 'fit_priors': [[float(p.value), float(p.dvalue)] for _, p in items]})


def SHARED_LINEAR(p, x):
    return p[0] + p[1] * x


PRIOR_POSITIONS = [9, 10, 11, 12, 99, 100, 101, 255, 256, 257, 999, 1000, 65536]


def case_many(ctx, idx, rng):
    """more than 10 / 100 / 255 members where members are numbered by position: prior positions, fits with 11 or 12
    parameters that all carry string priors, correlators with more than 100 timeslices"""
    pe = PE
    how = idx % 3
    if how == 0:
        ctx.cell('many', 'prior-positions')
        seen = set()
        for pos in PRIOR_POSITIONS:
            e = 10.0 ** float(rng.uniform(-6, 3))
            o = controlled_obs(float(rng.normal()) * e * 10.0 ** float(rng.uniform(-1, 3)), e)
            sig = int(rng.integers(1, 7))
            s = format(o, FLAGS[pos % 3] + str(sig))
            p = pe.fits._construct_prior_obs(s, pos)          # judged by the tap
            jd(ctx, 'prior:position>=10')
            ctx.ev()
            jd(ctx, 'prior:two-string-priors-share-a-covariance-name')
            if seen & set(p.names):
                ctx.violation('prior:two-string-priors-share-a-covariance-name', {'position': pos, 'names': list(p.names)})
            seen |= set(p.names)
        ctx.nontrivial.add(digest('many-priors', idx))
    elif how == 1:
        npar = 11 + idx % 2
        ctx.cell('many', 'fit-with-%d-string-priors' % npar)
        xs = np.arange(npar, dtype=float)
        truth = rng.normal(size=npar) * 3
        ys = [pe.Obs([truth[i] + rng.normal(size=30) * 0.2], ['E1']) for i in range(npar)]
        [y.gamma_method() for y in ys]
        pob = [controlled_obs(truth[i] + 0.1 * float(rng.normal()), 10.0 ** float(rng.uniform(-2, 0))) for i in range(npar)]
        strings = [format(o, FLAGS[i % 3] + str(1 + i % 6)) for i, o in enumerate(pob)]

        def func(p, x):
            return sum(p[i] * (x == i) for i in range(npar))
        priors = list(strings) if idx % 4 < 2 else {i: strings[i] for i in reversed(range(npar))}      # dict filled in descending order
        STATE['in_fit'] = True
        try:
            out = pe.fits.least_squares(xs, ys, func, priors=priors, silent=True)
        finally:
            STATE['in_fit'] = False
        got = out.priors
        items = list(got.items()) if isinstance(got, dict) else list(enumerate(got))
        ctx.require(len(items) == npar, 'prior:number-of-priors-built-by-the-fit', lambda: {'got': len(items), 'expected': npar})
        jd(ctx, 'prior:number-of-priors-built-by-the-fit')
        names = set()
        for pos, p in items:
            judge_prior_obs(ctx, strings[pos], p, F.denoted(strings[pos]))
            ctx.ev()
            jd(ctx, 'prior:two-string-priors-share-a-covariance-name')
            if names & set(p.names):
                ctx.violation('prior:two-string-priors-share-a-covariance-name', {'position': pos, 'names': list(p.names)})
            names |= set(p.names)
        ctx.count('fits_with_more_than_ten_string_priors')
        ctx.nontrivial.add(digest('many-fit', strings))
        ctx.sample({'priors': strings, 'parameters': npar})
    else:
        T = int(rng.choice([11, 101, 130, 260]))
        ctx.cell('many', 'correlator-T=%d' % T)
        content = []
        for t in range(T):
            e = 10.0 ** float(rng.uniform(-8, 2))
            content.append(None if rng.random() < 0.15 else pe.cov_Obs(float(rng.normal()) * 10.0 ** float(rng.uniform(-8, 8)), e * e, 'cvK'))
        if all(c is None for c in content):
            content[0] = pe.cov_Obs(1.0, 0.01, 'cvK')
        corr = pe.Corr(content)
        corr.gamma_method()
        x, y, dy = corr.plottable()
        ex = [t for t, c in enumerate(content) if c is not None]
        ctx.ev(3)
        jd(ctx, 'plottable:timeslices,values,errors(T>10)')
        if list(x) != ex:
            ctx.violation('plottable:timeslices-differ-from-defined-slices', {'T': T, 'got_tail': list(x)[-5:], 'expected_tail': ex[-5:]})
        if [float(v) for v in y] != [float(content[t].value) for t in ex]:
            ctx.violation('plottable:values-differ-from-central-values', {'T': T})
        if [float(v) for v in dy] != [float(corr.content[t][0].dvalue) for t in ex]:
            ctx.violation('plottable:errors-differ-from-dvalue', {'T': T})
        ctx.count('plottable_views')
        ctx.nontrivial.add(digest('many-corr', T, ex))


def run_case(ctx, kind, idx, rng):
    {'fmt': case_fmt, 'fmt_mc': case_fmt_mc, 'cobs': case_cobs, 'plain': case_plain, 'compare': case_compare, 'zero': case_zero,
     'plottable': case_plottable, 'fit_priors': case_fit_priors, 'many': case_many, 'corr_matrix': case_corr_matrix,
     'prior_refusals': case_prior_refusals}[kind](ctx, idx, rng)
