"""C07 - linear least-squares fits reproduce the closed-form GLS estimator.

Every fit problem generated here has a model that is linear in its parameters.  The design matrix is
typed in with plain numpy (independent of the autograd callables handed to the library), the weights
are read off the data at call time (dvalue), and ref.gls gives the closed-form estimator, its
sensitivities with respect to data and priors, chi-square, dof and p-values.  The expected parameter
observables are ref.dense.propagate(snapshots of data and priors, rows of the sensitivity matrix), so
every per-configuration fluctuation on every chain and every covariance-input gradient is judged.

Each problem is fitted twice: in its base presentation and in a transformed one (permuted points,
other insertion order of the dictionary keys, other containers, combined fit vs the equivalent single
fit); both results are judged against the closed form and against each other.  Corr.fit is driven
with undefined slices and inclusive ranges.  A counting tap on least_squares shows that the calls
went through the public entry point.
"""
import numpy as np

from .. import taps
from ..ctx import Skip, digest
from ..snap import snap, obs_digest, any_digest
from ..ref import dense, gls

ID = 'C07'
LEVEL = 'exploration'
DECIDING = ['tap:least_squares', 'fits_judged', 'metamorphic_pairs_judged', 'corr_fit_judged', 'corr_fit_repeated_calls_judged', 'corr_plateau_fits_judged', 'prior_string_gradients_judged', 'stored_state_monitored',
            'alias_cases_judged', 'spectator_parameters_judged', 'histories_judged', 'scale_pairs_judged', 'representations_judged', 'chained_fits_judged', 'boundary_cases_judged', 'result_interfaces_judged', 'rejections_judged', 'degenerate_cases_judged']
RULE = ('cases: linear-basis models from {1, x, x^2, sin x, exp(-x), x2, x*x2} with 1-4 parameters, 1-3 data sets sharing parameters, '
        '1-2 abscissa dimensions, data on independent / shared / mixed / nested ensembles (AR noise, common modes, replicas, covariance inputs), '
        'gamma_method with S in {0,1,2,3} before the fit, priors none / list / dict of Obs / dict of strings / mixed on any subset, weights '
        'diagonal / estimated correlation / supplied inverse Cholesky factor, methods LM / migrad / Nelder-Mead / Powell, num_grad on/off, '
        'each fitted in a base and a transformed presentation (permutation, key order, containers, combined vs single), plus Corr.fit; '
        'hardening kinds: alias (the same Obs as several data points / as data point and prior / as prior of two parameters / in several keys), '
        'history (two problems equal in shapes, abscissae, ensemble names, lists and options, different numbers, fitted A B A with class-level '
        'analysis parameters set during the middle fit), scale (units of y times 1e-8 .. 1e8, initial guess scaled alike), representation '
        '(strided / Fortran / int arrays, tuples, numpy strings, silent=False, resplot, qqplot, tol), chain (parameters of a fit with string priors '
        'as priors of the next fit with the same #prior<i>_ prefixes; trap keys), boundary (points == parameters, one point, Corr.fit first == last); '
        'around every fit: digest of the inputs incl. their stored analysis before/after, class-level parameters, no shared fluctuation arrays; '
        'non-trivial: >= 2 parameters and at least one redundant data point and non-zero fluctuations compared (boundary / alias kinds: case judged); '
        'distinct = digest of (data, abscissae, model terms, priors, options)')
ASSUMPTIONS = ['weights are the errors present on the data / priors when the fit is called (read by the harness immediately before the call)',
               'values are compared in units of the closed-form parameter error: 1e-8 + 2e-7 sqrt(cond chi2) (Levenberg-Marquardt with its forward-difference Jacobian), 2e-3 (Nelder-Mead, Powell), 5e-3 (migrad: edm < 1e-7)',
               'fluctuations and gradients: 1e-10 + 3e-14 cond of the no-cancellation scale sum_k |S_ik| max|delta_k| (autograd Hessians are exact to rounding; measured ~1e-11); num_grad 2e-5; chi-square 1e-10, p-values 1e-13 / 1e-12, expected chi-square 1e-12 + eps cond(D^-1 A)^2 n / expected (normal equations in the library)',
               'problems with cond(A^T W A + P) > 1e8 are discarded (counted); non-converged derivative-free fits are counted, not judged',
               'replica means of the fitted parameters are not part of the property and are not compared',
               'chisquare/expected chisquare is judged for uncorrelated fits without priors only (not documented otherwise)',
               'scipy.special.gammaincc / betainc for the chi-square and F survival functions',
               'a fit must leave its inputs (data, stored errors / windows / parameters) and the class-level analysis parameters as they were, and an earlier Fit_result must not change when another fit runs (frozen weights)',
               'scale sweep: the scaled problem gets the scaled initial guess; tags of the two known scale dependences are chosen from the witness (Powell and error of the best determined parameter combination < 1e-8; num_grad and a parameter error > 1e2)']
BUDGET = {'quick': 40, 'thorough': 420}

PE = None
ANP = None

# ------------------------------------------------------------------------------------------
# bases: typed twice - library side (autograd.numpy, set up in setup()) and reference side (numpy)
REF_BASIS = {
    '1': lambda x1, x2: np.ones_like(x1),
    'x': lambda x1, x2: x1,
    'xx': lambda x1, x2: x1 * x1,
    'sin': lambda x1, x2: np.sin(x1),
    'exp': lambda x1, x2: np.exp(-x1),
    'y': lambda x1, x2: x2,
    'xy': lambda x1, x2: x1 * x2,
    'zero': lambda x1, x2: 0.0 * x1,          # a parameter that is touched but does not enter (spectator)
}
LIB_BASIS = {}
KEY_POOL = ['a', 'ab', 'b', 'a1', 'c10', 'c9']
ENS_NAMES = ['A', 'AB', 'A1', 'B', 'ens', 'A2', 'AB1', 'C', 'Ca', 'D', 'E1', 'E10', 'E2', 'F', 'G', 'H', 'K', 'L']
METHODS = ['Levenberg-Marquardt', 'migrad', 'Nelder-Mead', 'Powell']
VAL_TOL = {'Levenberg-Marquardt': 1e-6, 'migrad': 5e-3, 'Nelder-Mead': 2e-3, 'Powell': 2e-3}
WEIGHTS = ['diag', 'estimated', 'supplied']
PRIORS = ['none', 'list', 'dict-obs', 'dict-str', 'mixed']


def val_tol(method, sol):
    """Admissible distance from the closed-form minimum in units of the parameter error.  Levenberg-Marquardt (MINPACK
    with a forward-difference Jacobian of relative accuracy ~1e-8) stops where J~^T r = 0, i.e. up to
    ~1e-8 sqrt(cond chi2) sigma from the minimum (measured: <= 2.2e-8); a factor 10 is allowed on top."""
    if method == 'Levenberg-Marquardt':
        return 1e-8 + 2e-7 * float(np.sqrt(sol['cond_scaled'] * max(1.0, sol['chi2'])))
    return VAL_TOL[method]


class CountMonitor(taps.Monitor):
    pass


def install_judgement_counters(ctx):
    """Checklist item 13: the evidence shows how often every judgement ran (counter 'judged:<family>:<field>'; the family is the
    mechanism tag without the presentation / step / variant it was reached through)."""
    import re

    def family(mech):
        m = re.sub(r'@[a-z-]+', '', mech)
        m = re.sub(r'^(history):\d+', r'\1', m)
        m = re.sub(r'^(alias|representation|options|boundary|metamorphic|degenerate):[A-Za-z0-9=.\-]+(?=:|$)', r'\1', m)
        m = re.sub(r'^scale:(unit|scaled|small-parameters:[A-Za-z-]+|large-parameters:[A-Za-z_-]+)', 'scale', m)
        return m
    c_close, c_equal, c_require = ctx.close, ctx.equal, ctx.require

    def close(got, exp, mechanism, *args, **kw):
        ctx.count('judged:' + family(mechanism))
        ctx.count('judged-field:' + mechanism.split(':')[-1])
        return c_close(got, exp, mechanism, *args, **kw)

    def equal(got, exp, mechanism, *args, **kw):
        ctx.count('judged:' + family(mechanism))
        ctx.count('judged-field:' + mechanism.split(':')[-1])
        return c_equal(got, exp, mechanism, *args, **kw)

    def require(cond, mechanism, detail=None):
        ctx.count('judged:' + family(mechanism))
        ctx.count('judged-field:' + mechanism.split(':')[-1])
        return c_require(cond, mechanism, detail)
    ctx.close, ctx.equal, ctx.require = close, equal, require


def setup(ctx):
    global PE, ANP
    install_judgement_counters(ctx)
    import pyerrors as pe
    import autograd.numpy as anp
    PE, ANP = pe, anp
    LIB_BASIS.update({
        '1': lambda x1, x2: 1.0 + 0 * x1,
        'x': lambda x1, x2: x1,
        'xx': lambda x1, x2: x1 ** 2,
        'sin': lambda x1, x2: anp.sin(x1),
        'exp': lambda x1, x2: anp.exp(-x1),
        'y': lambda x1, x2: x2,
        'xy': lambda x1, x2: x1 * x2,
        'zero': lambda x1, x2: 0.0 * x1,
    })
    import pyerrors.fits as fits
    taps.tap_function(fits, 'least_squares', CountMonitor())


def teardown(ctx):
    taps.report(ctx)
    taps.remove_all()


def plan(tier):
    m = 1 if tier == 'quick' else 8
    return [('fit', 150 * m), ('corrfit', 72 * m), ('alias', 72 * m), ('history', 54 * m), ('scale', 60 * m), ('representation', 72 * m),
            ('chain', 54 * m), ('boundary', 56 * m), ('expchisq', 60 * m), ('spectator', 54 * m),
            ('interface', 60 * m), ('rejection', 72 * m), ('degenerate', 99 * m)]


# ------------------------------------------------------------------------------------------
# library-side model callables
def lib_func(terms, dim):
    def f(p, x):
        if dim == 1:
            x1, x2 = x, None
        else:
            (x1, x2) = x
        out = 0
        for idx, b in terms:
            out = out + p[idx] * LIB_BASIS[b](x1, x2)
        return out
    return f


def lib_func_star(terms, dim):
    """The same model written as f(p, x) = g(x, *p) with a fixed number of positional parameters: calling it with too few or too many
    parameters raises TypeError (not IndexError) - the other branch of the library's count of the parameters."""
    k = 1 + max(i for i, _ in terms)
    body = lib_func(terms, dim)
    src = 'lambda x, %s: body([%s], x)' % (', '.join('a%d' % i for i in range(k)), ', '.join('a%d' % i for i in range(k)))
    g = eval(src, {'body': body})
    return lambda p, x: g(x, *p)


def lib_selector_func(sets, dim):
    """One function for all data sets: x[0] is the number of the data set."""
    fs = [lib_func(s['terms'], dim) for s in sets]

    def f(p, x):
        sel = x[0]
        xs = x[1] if dim == 1 else x[1:]
        out = 0
        for d, fd in enumerate(fs):
            out = out + (sel == d) * fd(p, xs)
        return out
    return f


def design_matrix(sets, k, dim):
    rows = []
    for s in sets:
        x = np.asarray(s['x'], dtype=float)
        x1, x2 = (x, None) if dim == 1 else (x[0], x[1])
        A = np.zeros((len(s['y']), k))
        for idx, b in s['terms']:
            A[:, idx] += REF_BASIS[b](x1, x2)
        rows.append(A)
    return np.vstack(rows)


# ------------------------------------------------------------------------------------------
# data
def ar_noise(rng, n, tau):
    if tau <= 0:
        return rng.normal(size=n)
    a = np.exp(-1.0 / tau)
    e = rng.normal(size=n) * np.sqrt(1 - a * a)
    x = np.zeros(n)
    x[0] = rng.normal()
    for i in range(1, n):
        x[i] = a * x[i - 1] + e[i]
    return x


def make_data(rng, means, mode, tier):
    """List of Obs with the given true means; mode independent / shared / mixed / nested."""
    pe = PE
    npt = len(means)
    nmax = 60 if tier == 'quick' else int(rng.choice([60, 120, 300]))
    rel = float(rng.choice([1e-3, 1e-2, 3e-2, 1e-1]))
    sig = rel * (np.abs(means) + 0.3 * np.mean(np.abs(means)) + 1e-3) * rng.uniform(0.5, 2.0, size=npt)
    tau = float(rng.choice([0, 0, 1.5, 4]))
    ys = []
    if mode == 'indep':
        names = list(rng.permutation(ENS_NAMES + ['Q%d' % i for i in range(max(0, npt - len(ENS_NAMES)))])[:npt])
        for i in range(npt):
            n = int(rng.integers(20, nmax + 1))
            reps = int(rng.choice([1, 1, 2]))
            samples, nn, idl = [], [], []
            for r in range(reps):
                nr = n if r == 0 else int(rng.integers(10, nmax + 1))
                samples.append(means[i] + sig[i] * np.sqrt(nr) * ar_noise(rng, nr, tau))
                nn.append(names[i] if reps == 1 else '%s|r%d' % (names[i], [1, 10][r]))
                start = int(rng.integers(1, 30))
                step = int(rng.choice([1, 1, 2]))
                idl.append(range(start, start + nr * step, step))
            ys.append(pe.Obs(samples, nn, idl=idl))
        return ys
    # a shared ensemble, possibly with two replicas
    n = int(rng.integers(max(30, 6 * npt), max(nmax, 6 * npt) + 1))
    ens = str(rng.choice(['ens', 'A', 'AB']))
    reps = int(rng.choice([1, 1, 2]))
    rnames = [ens] if reps == 1 else [ens + '|r1', ens + '|r2']
    lens = [n] if reps == 1 else [n, int(rng.integers(max(20, 4 * npt), n + 1))]
    common = [ar_noise(rng, l, tau) for l in lens]
    cw = float(rng.uniform(0.2, 0.8))
    cv = None
    if mode == 'mixed' and rng.random() < 0.6:
        cv = pe.cov_Obs(0.0, float(rng.uniform(0.3, 1.5)) ** 2, 'cvSys')
    other = [str(e) for e in rng.permutation([e for e in ENS_NAMES if e != ens and not e.startswith(ens)])[:3]]
    equal_sizes = bool(rng.integers(0, 2))
    for i in range(npt):
        samples, idl = [], []
        for r, l in enumerate(lens):
            s = means[i] + sig[i] * np.sqrt(l) * (cw * common[r] + np.sqrt(1 - cw * cw) * ar_noise(rng, l, tau))
            cfgs = np.arange(1, l + 1)
            if mode == 'nested' and rng.random() < 0.6:
                # half of the time all points keep the same number of configurations (equal summaries, different members)
                size = int(l * 0.8) - (1 if (equal_sizes and i == npt - 1) else 0) if equal_sizes else int(l * rng.uniform(0.6, 0.95))     # one point one short
                keep = np.sort(rng.choice(l, size=size, replace=False))
                s, cfgs = s[keep], cfgs[keep]
            samples.append(s)
            idl.append(list(int(c) for c in cfgs))
        o = pe.Obs(samples, rnames, idl=idl)
        if mode == 'mixed':
            if rng.random() < 0.6:
                n2 = int(rng.integers(20, nmax + 1))
                extra = pe.Obs([sig[i] * np.sqrt(n2) * rng.uniform(0.3, 1.0) * ar_noise(rng, n2, 0)], [other[int(rng.integers(0, len(other)))]])
                o = o + extra - extra.value
            if cv is not None:
                o = o + float(rng.normal()) * sig[i] * cv
        ys.append(o)
    return ys


GM = {}      # id(obs) -> (obs, analysis parameters): needed to analyse scaled / cloned copies exactly like the original


def gm(o, **kw):
    try:
        o.gamma_method(**kw)
    except ValueError:
        raise Skip() from None      # 'needs at least 8 samples' with tau_exp on a short chain
    GM[id(o)] = (o, dict(kw))


def rand_gm_kwargs(rng):
    """Analysis parameters away from the defaults (S = 2, tau_exp = 0, N_sigma = 1)."""
    kw = {'S': float(rng.choice([0, 1, 2, 3]))}
    if rng.random() < 0.25:
        kw['tau_exp'] = float(rng.choice([1.5, 4.0]))
        kw['N_sigma'] = float(rng.choice([1, 2]))
        kw['S'] = max(kw['S'], 1.0)
    return kw


def analyse(rng, objs):
    same = rng.random() < 0.6
    base = rand_gm_kwargs(rng)
    for o in objs:
        gm(o, **(base if same else rand_gm_kwargs(rng)))
        if not o.dvalue > 0:
            raise Skip()


def make_problem(ctx, rng, opts):
    k = opts['k']
    nsets = opts['nsets']
    dim = opts['dim']
    names = ['1', 'x', 'xx', 'sin', 'exp'] + (['y', 'xy'] if dim == 2 else [])
    keys = sorted(rng.permutation(KEY_POOL)[:nsets].tolist())
    # terms: every parameter is used somewhere; bases distinct within a data set
    sets = []
    for d in range(nsets):
        nuse = k if nsets == 1 else int(rng.integers(1, k + 1))
        use = sorted(rng.choice(k, size=nuse, replace=False).tolist())
        bs = rng.permutation(names)[:len(use)].tolist()
        sets.append({'key': keys[d], 'terms': list(zip(use, bs))})
    used = set(i for s in sets for i, _ in s['terms'])
    for i in range(k):
        if i not in used:
            s = sets[int(rng.integers(0, nsets))]
            free = [b for b in names if b not in [bb for _, bb in s['terms']]]
            s['terms'].append((i, free[int(rng.integers(0, len(free)))]))
    ptrue = rng.normal(1.0, 0.5, size=k) * rng.choice([1, 1, 5, 0.2], size=k)
    # number of points
    exact = opts.get('exact', False)
    ntot = k if exact else k + int(rng.integers(1, 7))
    if opts.get('many_points'):
        ntot = int(rng.integers(12, 41))           # more than 10 members, sorted / numbered positions beyond one digit
    if opts.get('npoints') is not None:
        ntot = int(opts['npoints'])
    ntot = max(ntot, nsets)
    split = np.ones(nsets, dtype=int)
    for _ in range(ntot - nsets):
        split[int(rng.integers(0, nsets))] += 1
    for s, n in zip(sets, split):
        x1 = rng.uniform(0.2, 3.0, size=n)
        if opts.get('integer_x'):
            x1 = rng.permutation(np.arange(1, 13))[:n].astype(float) if n <= 12 else np.arange(1, n + 1, dtype=float)
        s['x'] = x1 if dim == 1 else np.array([x1, rng.uniform(-1.0, 2.0, size=n)])
    A = design_matrix([dict(s, y=[None] * (np.asarray(s['x']).shape[-1])) for s in sets], k, dim)
    means = A @ ptrue
    ys = make_data(rng, means, opts['mode'], ctx.tier)
    # scatter the central values around the model by about one sigma is already in the noise
    analyse(rng, ys)
    pos = 0
    for s, n in zip(sets, split):
        s['y'] = ys[pos:pos + n]
        pos += n
    prob = dict(k=k, dim=dim, sets=sets, ptrue=ptrue, A=A, ys=ys)
    make_priors(rng, prob, opts['priors'], ys)
    return prob


def prior_string(rng, val, err):
    """The documented forms 0.548(23), 500(40), 0.5(0.4) (and both with a decimal point)."""
    form = int(rng.integers(0, 4))
    if form == 0:
        digits = int(rng.integers(1, 5))
        e = max(1, int(round(err * 10 ** digits)))
        return '%.*f(%d)' % (digits, val, e)
    if form == 1:
        return '%d(%d)' % (int(round(val)), max(1, int(round(err + 0.5))))
    if form == 2:
        return '%.1f(%.1f)' % (val, max(0.1, round(err, 1)))
    return '%.3f(%.2f)' % (val, max(0.01, round(err, 2)))


def make_priors(rng, prob, kind, ys):
    """prob['priors'] = argument for the library; prob['prior_spec'] = [(parameter, 'obs'|'str', object)] in argument order."""
    pe = PE
    k = prob['k']
    ptrue = prob['ptrue']
    prob['priors'] = None
    prob['prior_spec'] = []
    if kind == 'none':
        return
    if kind == 'list':
        mask = list(range(k))
    else:
        mask = rng.permutation(k)[:int(rng.integers(1, k + 1))].tolist()
    spec = []
    for m in mask:
        err = abs(ptrue[m]) * float(rng.uniform(0.03, 0.5)) + 0.02
        val = ptrue[m] + err * float(rng.normal())
        as_str = {'dict-obs': False, 'dict-str': True}.get(kind, rng.random() < 0.5)
        if as_str:
            spec.append((int(m), 'str', prior_string(rng, val, err)))
        else:
            n = int(rng.integers(20, 60))
            if rng.random() < 0.12 and len(ys[0].mc_names) and all(len(o.mc_names) == 1 and not o.cov_names for o in ys) and len(ys[0].names) == 1:
                # prior on the ensemble of the data: correlated with them
                nm = ys[0].names[0]
                o = pe.Obs([val + err * np.sqrt(len(ys[0].idl[nm])) * rng.normal(size=len(ys[0].idl[nm]))], [nm], idl=[ys[0].idl[nm]])
            else:
                o = pe.Obs([val + err * np.sqrt(n) * ar_noise(rng, n, float(rng.choice([0, 2])))], ['pr%d' % m])
            gm(o, S=float(rng.choice([0, 1, 2])))
            spec.append((int(m), 'obs', o))
    prob['prior_spec'] = spec
    if kind == 'list':
        prob['priors'] = [s[2] for s in spec]
    else:
        prob['priors'] = {m: v for m, _, v in spec}


# ------------------------------------------------------------------------------------------
# presentations
def base_presentation(prob):
    nsets = len(prob['sets'])
    return dict(form='single' if nsets == 1 else 'dict', perm=[np.arange(len(s['y'])) for s in prob['sets']],
                order=[list(range(nsets))] * 3, container='list', prior_order=None, name='base')


def variant_presentation(rng, prob, which):
    nsets = len(prob['sets'])
    pres = base_presentation(prob)
    pres['name'] = which
    if which == 'permute':
        pres['perm'] = [rng.permutation(len(s['y'])) for s in prob['sets']]
        if isinstance(prob['priors'], dict) and len(prob['priors']) > 1:
            pres['prior_order'] = rng.permutation(len(prob['priors'])).tolist()
    elif which == 'keyorder':
        pres['order'] = [rng.permutation(nsets).tolist() for _ in range(3)]
        if nsets > 1 and all(o == list(range(nsets)) for o in pres['order']):
            pres['order'][1] = list(range(nsets))[::-1]
        if isinstance(prob['priors'], dict) and len(prob['priors']) > 1:
            pres['prior_order'] = list(range(len(prob['priors'])))[::-1]
    elif which == 'container':
        pres['container'] = str(rng.choice(['ndarray', 'tuple']))
    elif which == 'form':
        pres['form'] = 'selector' if nsets > 1 else 'dict'
    return pres


def canonical_index(prob, pres):
    """For every row of the presented data (library order: sorted keys, presented order inside) the canonical row."""
    offs = np.concatenate([[0], np.cumsum([len(s['y']) for s in prob['sets']])])
    return np.concatenate([offs[d] + np.asarray(pres['perm'][d]) for d in range(len(prob['sets']))])


def build_call(prob, pres, opts, Lcanon):
    sets = prob['sets']
    dim = prob['dim']
    cont = pres['container']
    cache = prob.get('funcs')                   # histories: one function object in several calls with other data / abscissae

    def lib_func_(terms, dim_):
        if opts.get('star_args'):
            return lib_func_star(terms, dim_)
        if cache is None:
            return lib_func(terms, dim_)
        key = (tuple(terms), dim_)
        if key not in cache:
            cache[key] = lib_func(terms, dim_)
        return cache[key]

    def xs(d):
        x = np.asarray(sets[d]['x'], dtype=float)[..., pres['perm'][d]]
        if cont == 'list':
            return x.tolist()
        if cont == 'tuple':
            return tuple(x.tolist()) if dim == 1 else tuple(tuple(r) for r in x.tolist())
        return x

    def ysel(d):
        y = [sets[d]['y'][i] for i in pres['perm'][d]]
        if cont == 'ndarray':
            return np.array(y, dtype=object)
        if cont == 'tuple':
            return tuple(y)
        return y
    if pres['form'] == 'single':
        x, y, f = xs(0), ysel(0), lib_func_(sets[0]['terms'], dim)
        keyl = ['']
    elif pres['form'] == 'dict':
        x, y, f = {}, {}, {}
        for d in pres['order'][0]:
            x[sets[d]['key']] = xs(d)
        for d in pres['order'][1]:
            y[sets[d]['key']] = ysel(d)
        for d in pres['order'][2]:
            f[sets[d]['key']] = lib_func_(sets[d]['terms'], dim)
        keyl = sorted(s['key'] for s in sets)
    else:
        xa = [np.asarray(sets[d]['x'], dtype=float)[..., pres['perm'][d]] for d in range(len(sets))]
        sel = np.concatenate([np.full(a.shape[-1], float(d)) for d, a in enumerate(xa)])
        rest = np.concatenate(xa, axis=-1)
        x = np.vstack([sel, rest])
        y = [sets[d]['y'][i] for d in range(len(sets)) for i in pres['perm'][d]]
        f = lib_selector_func(sets, dim)
        keyl = ['']
    kw = {}
    if opts['method'] != 'Levenberg-Marquardt':
        kw['method'] = opts['method']
    if opts['num_grad']:
        kw['num_grad'] = True
    if opts['weights'] != 'diag':
        kw['correlated_fit'] = True
    if opts['weights'] == 'supplied':
        # the factor belonging to the presented order of the points: inverse Cholesky factor of the permuted covariance
        ci = canonical_index(prob, pres)
        if np.all(ci == np.arange(len(ci))):
            Lp = Lcanon
        else:
            Wc = Lcanon.T @ Lcanon
            cov = np.linalg.inv(Wc)[np.ix_(ci, ci)]
            Lp = np.tril(np.linalg.inv(np.linalg.cholesky(cov)))
        kw['inv_chol_cov_matrix'] = [Lp, keyl]
    if opts.get('expected_chisquare'):
        kw['expected_chisquare'] = True
    if opts.get('initial_guess') is not None:
        kw['initial_guess'] = list(opts['initial_guess'])
    pri = prob['priors']
    if isinstance(pri, dict) and pres.get('prior_order'):
        items = list(pri.items())
        pri = {items[j][0]: items[j][1] for j in pres['prior_order']}
    elif isinstance(pri, list) and cont == 'ndarray':
        arr = np.empty(len(pri), dtype=object)
        for i, v in enumerate(pri):
            arr[i] = v
        pri = arr
    return x, y, f, pri, kw


# ------------------------------------------------------------------------------------------
# the oracle
def reference(prob, opts, dy, prior_err_at_call, Lcanon):
    ys = prob['ys']
    snaps = [snap(o) for o in ys]
    yv = np.array([s['value'] for s in snaps])
    if opts['weights'] == 'diag':
        W = gls.weights_diag(dy)
    elif opts['weights'] == 'estimated':
        corr = gls.corr_from_snapshots(snaps)
        # a correlated fit needs a positive definite correlation matrix; the estimate is not guaranteed to be one when the points live on
        # different subsets of the configurations (nested lists): such inputs are refused by the library (LinAlgError) and are outside
        # the quantifier
        if not np.all(np.isfinite(corr)) or np.linalg.cond(corr) > 1e10 or not np.linalg.eigvalsh(corr)[0] > 1e-9:
            raise Skip()
        W = gls.weights_from_corr(corr, dy)
    else:
        W = gls.weights_from_factor(Lcanon)
    pidx, pval, perr = [], [], []
    for (m, kind, v), e in zip(prob['prior_spec'], prior_err_at_call):
        pidx.append(m)
        if kind == 'str':
            val, err = gls.parse_prior(v)
            pval.append(val)
            perr.append(err)
        else:
            pval.append(float(v.value))
            perr.append(e)
    try:
        sol = gls.solve(prob['A'], yv, W, pidx, pval, perr)
    except gls.Singular:
        raise Skip() from None
    sol.update(W=W, snaps=snaps, yv=yv, pidx=pidx, pval=pval, perr_in=perr,
               n_cov=min(gls.n_samples(s) for s in snaps))
    return sol


def run_fit(ctx, x, y, f, pri, kw, method):
    kw = dict(kw)
    silent = kw.pop('silent', True)
    try:
        return PE.fits.least_squares(x, y, f, priors=pri, silent=silent, **kw)
    except Exception as e:
        if method != 'Levenberg-Marquardt' and 'did not converge' in str(e):
            ctx.count('not_converged:' + method)
            return None
        raise


def prior_snapshots(ctx, prob, res, sol, mech):
    """Snapshots of the priors as inputs of the propagation; string priors become covariance inputs whose name is
    taken from the result by its '#prior<i>_' prefix."""
    out = []
    got = getattr(res, 'priors', None)
    for j, (m, kind, v) in enumerate(prob['prior_spec']):
        if kind == 'obs':
            out.append(snap(v))
            continue
        lib_prior = got[m] if isinstance(got, dict) else (got[j] if got is not None else None)
        pref = '#prior%d_' % m
        names = [n for n in (lib_prior.cov_names if lib_prior is not None else []) if n.startswith(pref)]
        ctx.ev()
        if lib_prior is None or len(names) != 1 or list(lib_prior.names) != names:
            ctx.violation(mech + ':prior-string:name', {'prior': v, 'parameter': m, 'names': None if lib_prior is None else list(lib_prior.names)})
            return None
        ok = ctx.close(lib_prior.value, sol['pval'][j], mech + ':prior-string:value', v, rtol=1e-14, atol=1e-300)
        ok &= ctx.close(lib_prior.dvalue, sol['perr_in'][j], mech + ':prior-string:error', v, rtol=1e-12, atol=1e-300)
        co = lib_prior.covobs[names[0]]
        ok &= ctx.close(np.asarray(co.cov).ravel(), [sol['perr_in'][j] ** 2], mech + ':prior-string:variance', v, rtol=1e-12, atol=1e-300)
        if not ok:
            return None
        out.append(dict(value=sol['pval'][j], chains={}, idl_form={}, rew=False,
                        cov={names[0]: (np.array([[sol['perr_in'][j] ** 2]]), np.array([1.0]))}))
    return out


def compare_param(ctx, got, ref, mech, fl_tol, cov_tol, what):
    """Fluctuations on every chain and gradients of every covariance input with absolute tolerances."""
    g = snap(got)
    ok = True
    gc = {n: v for n, v in g['chains'].items()}
    if sorted(gc) != sorted(ref['chains']):
        ctx.ev()
        ctx.violation(mech + ':chain-names', {'what': what, 'got': sorted(gc), 'exp': sorted(ref['chains'])})
        return False
    for c in sorted(ref['chains']):
        ridl, rd, _ = ref['chains'][c]
        gidl, gd, _ = gc[c]
        if [int(i) for i in gidl] != [int(i) for i in ridl]:
            ctx.ev()
            ctx.violation(mech + ':configuration-list', {'what': what, 'chain': c, 'got': gidl, 'exp': ridl})
            ok = False
            continue
        ok &= ctx.close(gd, rd, mech + ':fluctuations', what + ' chain ' + c, rtol=0.0, atol=fl_tol)
    gcov = {n: v for n, v in g['cov'].items() if np.any(np.asarray(v[0]) != 0)}
    rcov = {n: np.asarray(v, dtype=float).ravel() for n, v in ref['cov'].items()}
    if sorted(gcov) != sorted(rcov):
        ctx.ev()
        ctx.violation(mech + ':covariance-names', {'what': what, 'got': sorted(gcov), 'exp': sorted(rcov)})
        return False
    for n in sorted(rcov):
        ok &= ctx.close(gcov[n][1], rcov[n], mech + ':covariance-gradient', what + ' cov ' + n, rtol=0.0, atol=cov_tol[n])
    return bool(ok)


def judge(ctx, prob, opts, res, sol, mech, what):
    """Compare one Fit_result with the closed form. Returns extracted numbers for the metamorphic comparison."""
    k = prob['k']
    method = opts['method']
    # autograd Hessians are exact to rounding and the solve loses eps * cond: 1e-10 + 3e-14 cond (measured ~1e-11); numdifftools 2e-5
    rt = (2e-5 + 1e-14 * sol['cond']) if opts['num_grad'] else (1e-10 + 3e-14 * sol['cond'])
    ctx.equal(len(res.fit_parameters), k, mech + ':number-of-parameters', what)
    psnaps = prior_snapshots(ctx, prob, res, sol, mech)
    if psnaps is None:
        return None
    ins = sol['snaps'] + psnaps
    pv = np.array([float(o.value) for o in res.fit_parameters])
    # values in units of the closed-form error
    for i in range(k):
        tol = val_tol(method, sol) * sol['perr'][i] + 1e-11 * abs(sol['p'][i])
        ctx.close(pv[i], sol['p'][i], mech + ':value', '%s p[%d] method %s' % (what, i, method), rtol=0.0, atol=tol,
                  detail={'in_sigma': (pv[i] - sol['p'][i]) / sol['perr'][i], 'cond': sol['cond']})
    budget = []
    fl_tols = []
    nontriv = False
    errs = list(sol['dy']) + [float(e) for e in sol['perr_in']]
    for i in range(k):
        grads = list(sol['Sy'][i]) + list(sol['Sp'][i])
        ref = dense.propagate(ins, grads, lambda v: 0.0)
        scale = dense.delta_scale(ins, grads)
        # no-cancellation error budget of parameter i (data and prior errors at call time)
        bud = float(np.sum(np.abs(sol['Sy'][i]) * sol['dy']) + np.sum(np.abs(sol['Sp'][i]) * np.asarray(sol['perr_in'], dtype=float)))
        budget.append(bud)
        cov_tol = {}
        for n in ref['cov']:
            sg = 0.0
            cvs = None
            for s_, g_ in zip(ins, grads):
                if n in s_['cov']:
                    sg = sg + abs(g_) * np.abs(s_['cov'][n][1])
                    cvs = s_['cov'][n][0]
            sd = np.sqrt(np.abs(np.diag(np.atleast_2d(cvs))))
            cov_tol[n] = rt * float(np.max(sg + bud / sd))
        # a parameter fixed by its prior alone has sensitivities that are pure rounding: floor = the fluctuation size that
        # would carry the whole budget of the parameter
        ratios = [float(np.max(np.abs(d))) / e for s_, e in zip(ins, errs) for (_, d, _) in s_['chains'].values() if len(d)]
        floor = bud * max(ratios) if ratios else 0.0
        fl_tols.append(rt * max(scale, floor) + 1e-300)
        compare_param(ctx, res.fit_parameters[i], ref, mech, fl_tols[-1], cov_tol, '%s p[%d]' % (what, i))
        if any(np.any(v[1] != 0) for v in ref['chains'].values()):
            nontriv = True
    # chi-square: the weighted residual norm at the returned parameters, and equal to the minimum
    chi_at = gls.chi2_at(pv, prob['A'], sol['yv'], sol['W'], sol['pidx'], sol['pval'], sol['perr_in'])
    ctx.close(res.chisquare, chi_at, mech + ':chisquare-at-returned-parameters', what, rtol=1e-10, scale=max(1.0, chi_at))
    ctol = (1e-10 + val_tol(method, sol) ** 2) if method == 'Levenberg-Marquardt' else 2e-4
    ctx.close(res.chisquare, sol['chi2'], mech + ':chisquare', what, rtol=ctol, scale=max(1.0, sol['chi2']))
    ctx.equal(int(res.dof), int(sol['dof']), mech + ':dof', what, detail={'points': len(sol['yv']), 'parameters': k, 'priors': len(sol['pidx'])})
    ctx.count('judged:p_value:dof-%s' % ('0' if sol['dof'] <= 0 else '1' if sol['dof'] == 1 else '2-9' if sol['dof'] < 10 else '10+'))
    ctx.close(res.p_value, gls.chi2_sf(float(res.chisquare), sol['dof']), mech + ':p_value', what, rtol=0.0, atol=1e-13)
    if sol['dof'] > 0:
        ctx.close(res.chisquare_by_dof, float(res.chisquare) / sol['dof'], mech + ':chisquare_by_dof', what, rtol=1e-13)
    else:
        ctx.require(np.isnan(res.chisquare_by_dof), mech + ':chisquare_by_dof', {'what': what, 'got': res.chisquare_by_dof, 'dof': sol['dof']})
    if opts['weights'] != 'diag':
        if ctx.require(hasattr(res, 't2_p_value'), mech + ':t2_p_value-missing', what):
            ctx.close(res.t2_p_value, gls.hotelling_p(float(res.chisquare), sol['dof'], sol['n_cov']), mech + ':t2_p_value', what,
                      rtol=0.0, atol=1e-12, detail={'n_cov': sol['n_cov'], 'dof': sol['dof'], 'N_of_points': sorted(set(gls.n_samples(s_) for s_ in sol['snaps']))})
            if len(set(gls.n_samples(s_) for s_ in sol['snaps'])) > 1:
                ctx.count('judged:t2_p_value:points-with-different-N')
            ctx.count('hotelling_judged')
    else:
        ctx.require(not hasattr(res, 't2_p_value'), mech + ':t2_p_value-on-uncorrelated-fit', what)
    if opts.get('expected_chisquare') and opts['weights'] == 'diag' and not sol['pidx']:
        if ctx.require(hasattr(res, 'chisquare_by_expected_chisquare'), mech + ':expected-chisquare-missing', what):
            corr = gls.corr_from_snapshots(sol['snaps'])
            cov = corr * np.outer(sol['dy'], sol['dy'])
            exp = gls.expected_chisquare(prob['A'], sol['dy'], cov)
            if exp > 1e-6 * len(sol['yv']):
                # the library projects with pinv(A^T A) (normal equations): error eps * cond(D^-1 A)^2, amplified by the cancellation n / expected
                condB = float(np.linalg.cond(np.diag(1.0 / sol['dy']) @ prob['A']))
                ctx.close(res.chisquare_by_expected_chisquare, float(res.chisquare) / exp, mech + ':chisquare_by_expected_chisquare', what,
                          rtol=1e-12 + 2.2e-16 * condB ** 2 * len(sol['yv']) / exp, detail={'cond_of_weighted_design_matrix': condB})
                ctx.count('expected_chisquare_judged')
    ctx.equal(res.method, method, mech + ':method-field', what)
    return dict(p=pv, nontriv=nontriv, budget=budget, rt=rt, fl_tols=fl_tols)


def cross_compare(ctx, prob, opts, ra, rb, sol, info, mech, which):
    """The two presentations must give the same fit (same weights, same data)."""
    method = opts['method']
    tight = method == 'Levenberg-Marquardt'
    for i in range(prob['k']):
        a, b = ra.fit_parameters[i], rb.fit_parameters[i]
        vt = 2 * val_tol(method, sol) * sol['perr'][i] + 1e-11 * abs(sol['p'][i])
        ctx.close(a.value, b.value, mech + ':value', which + ' p[%d]' % i, rtol=0.0, atol=vt)
        sa, sb = snap(a), snap(b)
        if sorted(sa['chains']) != sorted(sb['chains']):
            ctx.ev()
            ctx.violation(mech + ':chain-names', {'which': which, 'a': sorted(sa['chains']), 'b': sorted(sb['chains'])})
            continue
        for c in sa['chains']:
            if list(sa['chains'][c][0]) != list(sb['chains'][c][0]):
                ctx.ev()
                ctx.violation(mech + ':configuration-list', {'which': which, 'chain': c})
                continue
            ctx.close(sa['chains'][c][1], sb['chains'][c][1], mech + ':fluctuations', which + ' p[%d] chain %s' % (i, c), rtol=0.0, atol=2 * info['fl_tols'][i])
        # covariance inputs other than the string priors (their names are drawn afresh at every call)
        na = sorted(n for n in sa['cov'] if not n.startswith('#prior'))
        nb = sorted(n for n in sb['cov'] if not n.startswith('#prior'))
        ctx.equal(na, nb, mech + ':covariance-names', which)
        pa = sorted(n.split('_')[0] for n in sa['cov'] if n.startswith('#prior'))
        pb = sorted(n.split('_')[0] for n in sb['cov'] if n.startswith('#prior'))
        ctx.equal(pa, pb, mech + ':prior-names', which)
    ct = (1e-10 + 4 * val_tol(method, sol) ** 2) if tight else 4e-4
    ctx.close(ra.chisquare, rb.chisquare, mech + ':chisquare', which, rtol=ct, scale=max(1.0, abs(sol['chi2'])))
    ctx.equal(int(ra.dof), int(rb.dof), mech + ':dof', which)


# ------------------------------------------------------------------------------------------
def options_for(idx, rng):
    """Stratified options: the index walks through method x grad x weights x priors (120 combinations),
    the remaining factors are drawn."""
    o = {}
    o['method'] = METHODS[idx % 4]
    o['num_grad'] = bool((idx // 4) % 2)
    o['weights'] = WEIGHTS[(idx // 8) % 3]
    o['priors'] = PRIORS[(idx // 24) % 5]
    o['k'] = int(rng.integers(1, 5))
    o['nsets'] = int(rng.choice([1, 1, 2, 3]))
    o['dim'] = int(rng.choice([1, 1, 2]))
    if o['weights'] == 'estimated':
        o['mode'] = str(rng.choice(['shared', 'mixed', 'nested']))
    else:
        o['mode'] = str(rng.choice(['indep', 'shared', 'mixed', 'nested']))
    o['exact'] = rng.random() < 0.06
    o['many_points'] = (not o['exact']) and o['weights'] != 'estimated' and rng.random() < 0.08
    o['expected_chisquare'] = (o['weights'] == 'diag' and o['priors'] == 'none' and rng.random() < 0.6)
    o['variant'] = ['permute', 'keyorder', 'container', 'form'][(idx // 120 + idx) % 4]
    if o['variant'] == 'keyorder' and o['nsets'] == 1:
        o['nsets'] = int(rng.choice([2, 3]))
    return o


def supplied_factor(rng, dy):
    n = len(dy)
    a = rng.normal(size=(n, n + 2))
    c = a @ a.T
    d = 1 / np.sqrt(np.diag(c))
    corr = c * d[:, None] * d[None, :]
    corr = 0.6 * corr + 0.4 * np.eye(n)
    err = np.asarray(dy) * rng.uniform(0.6, 1.8, size=n)
    cov = corr * np.outer(err, err)
    return np.tril(np.linalg.inv(np.linalg.cholesky(cov)))


def run_expchisq_case(ctx, idx, rng):
    """chisquare_by_expected_chisquare of combined fits to correlated data, keys presented in another order than sorted."""
    force = dict(weights='diag', priors='none', expected_chisquare=True, mode=str(rng.choice(['shared', 'mixed', 'nested'])),
                 nsets=int(rng.choice([2, 2, 3, 1])), exact=False)
    force['variant'] = 'keyorder' if force['nsets'] > 1 else str(rng.choice(['permute', 'container']))
    run_fit_case(ctx, idx, rng, force)


def run_fit_case(ctx, idx, rng, force=None):
    opts = options_for(idx, rng)
    if force:
        opts.update(force)
    prob = make_problem(ctx, rng, opts)
    ys = prob['ys']
    if rng.random() < 0.25:
        opts['initial_guess'] = (prob['ptrue'] * rng.uniform(0.5, 1.5, size=prob['k'])).tolist()
    dy = np.array([float(o.dvalue) for o in ys])                  # weights present at call time
    perr_call = [float(v.dvalue) if kind == 'obs' else None for _, kind, v in prob['prior_spec']]
    Lcanon = supplied_factor(rng, dy) if opts['weights'] == 'supplied' else None
    sol = reference(prob, opts, dy, perr_call, Lcanon)
    sol['dy'] = dy
    if not np.isfinite(sol['cond']) or sol['cond'] > 1e8:
        ctx.count('discarded_ill_conditioned')
        raise Skip()
    cellbase = (opts['method'][:2], 'num' if opts['num_grad'] else 'auto', opts['weights'], opts['priors'])
    ctx.cell('opt', *cellbase)
    ctx.cell('shape', 'k%d' % opts['k'], 'sets%d' % opts['nsets'], 'dim%d' % opts['dim'])
    ctx.cell('data', opts['mode'], opts['weights'])
    ctx.cell('variant', opts['variant'], 'sets%d' % opts['nsets'])
    results = []
    infos = []
    for pres in (base_presentation(prob), variant_presentation(rng, prob, opts['variant'])):
        mech = 'gls' if pres['name'] == 'base' else 'gls@' + pres['name']
        res = guarded_fit(ctx, prob, build_call(prob, pres, opts, Lcanon), opts['method'], mech, perturb=bool((idx // 7) % 2))
        if res is None:
            results.append(None)
            infos.append(None)
            continue
        info = judge(ctx, prob, opts, res, sol, mech, '%s %s' % (pres['name'], '/'.join(str(c) for c in cellbase)))
        ctx.count('fits_judged')
        if any(kind == 'str' for _, kind, _ in prob['prior_spec']):
            ctx.count('prior_string_gradients_judged')
        results.append(res)
        infos.append(info)
        if info and info['nontriv'] and prob['k'] >= 2 and len(ys) > prob['k']:
            ctx.nontrivial.add(digest([obs_digest(o) for o in ys], [np.asarray(s['x']) for s in prob['sets']],
                                      [s['terms'] for s in prob['sets']], repr(prob['priors'].keys() if isinstance(prob['priors'], dict) else None),
                                      sorted(opts.items(), key=str), pres['name']))
    if results[0] is not None and results[1] is not None and infos[0] is not None:
        cross_compare(ctx, prob, opts, results[0], results[1], sol, infos[0], 'metamorphic:' + opts['variant'], opts['variant'])
        ctx.count('metamorphic_pairs_judged')
        ctx.count('metamorphic:' + opts['variant'])
    ctx.sample({'options': {k_: v for k_, v in opts.items() if k_ != 'initial_guess'}, 'terms': [(s['key'], s['terms']) for s in prob['sets']],
                'points': len(ys), 'closed_form_p': sol['p'], 'library_p': None if results[0] is None else [o.value for o in results[0].fit_parameters],
                'chi2': sol['chi2'], 'dof': sol['dof'], 'cond': sol['cond']})


# ------------------------------------------------------------------------------------------
def run_corr_case(ctx, idx, rng):
    """Corr.fit: inclusive fit range, undefined slices skipped, prange / all timeslices as defaults."""
    pe = PE
    T = int(rng.integers(8, 17))
    n = int(rng.integers(40, 80))
    k = int(rng.choice([1, 2, 2, 3]))
    terms = [(0, '1'), (1, 'exp'), (2, 'x')][:k] if rng.random() < 0.5 else [(0, 'exp'), (1, '1'), (2, 'xx')][:k]
    ptrue = rng.normal(1.0, 0.4, size=k)
    ts = np.arange(T, dtype=float)
    # time enters the bases scaled by 1/4 so that exp(-x) and x^2 stay moderate
    scale = 0.25
    mean = sum(ptrue[i] * REF_BASIS[b](ts * scale, None) for i, b in terms)
    common = ar_noise(rng, n, float(rng.choice([0, 2])))
    undefined = set(rng.choice(T, size=int(rng.integers(0, 4)), replace=False).tolist())
    content = []
    for t in range(T):
        if t in undefined:
            content.append(None)
        else:
            s = 0.02 * (abs(mean[t]) + 0.2) * np.sqrt(n)
            content.append(pe.Obs([mean[t] + s * (0.5 * common + ar_noise(rng, n, 0))], ['ens'], idl=[range(1, n + 1)]))
    corr = pe.Corr(content)
    Scorr = float(rng.choice([0, 1, 2]))
    corr.gamma_method(S=Scorr)
    mode = ['range', 'prange', 'all'][idx % 3]
    for _ in range(50):
        a = int(rng.integers(0, T - 2))
        b = int(rng.integers(a + 1, T))
        if mode == 'all':
            a, b = 0, T - 1
        exp_ts = [t for t in range(a, b + 1) if t not in undefined]
        if len(exp_ts) >= k + 1:
            break
    else:
        raise Skip()
    if len(exp_ts) < k + 1:
        raise Skip()

    def f(p, x):
        out = 0
        for i, b_ in terms:
            out = out + p[i] * LIB_BASIS[b_](x * scale, None)
        return out
    opts = dict(method='Levenberg-Marquardt', num_grad=False, weights='diag', priors='none', k=k)
    kw = {}
    if rng.random() < 0.3 and len(exp_ts) * 5 < n:
        kw['correlated_fit'] = True
        opts['weights'] = 'estimated'
    # ---- the reference (independent of how often and through which object the fit is requested)
    ys = [corr.content[t][0] for t in exp_ts]
    x = np.array(exp_ts, dtype=float)
    sets = [{'key': '', 'terms': terms, 'x': x * scale, 'y': ys}]
    prob = dict(k=k, dim=1, sets=sets, ptrue=ptrue, A=design_matrix(sets, k, 1), ys=ys, priors=None, prior_spec=[])
    dy = np.array([float(o.dvalue) for o in ys])
    sol = reference(prob, opts, dy, [], None)
    sol['dy'] = dy
    if sol['cond'] > 1e8:
        ctx.count('discarded_ill_conditioned')
        raise Skip()
    ctx.cell('corrfit', mode, 'undefined%d' % min(len(undefined), 2), opts['weights'])
    # ---- the calls: the same range / correlator objects are used for several fits (second use of an argument or of stored state);
    # every call is judged against the closed form on t = a..b, and range list, stored prange and correlator must be left as they were
    fr = [a, b]                                   # the caller's list, handed over by reference in mode 'range'
    stored = None
    if mode == 'range' and rng.random() < 0.5:
        stored = [0, T - 1] if (a, b) != (0, T - 1) else [1, T - 2]     # an explicit range wins over the stored one
        corr.set_prange(stored)
    elif mode == 'prange':
        stored = fr
        corr.set_prange(stored)
    stored_before = None if stored is None else list(stored)
    derived = None
    if mode == 'prange':
        derived = corr + 0.0                      # derived correlators share the stored range object
        derived.gamma_method(S=Scorr)
    calls = {'range': [('first', corr, (fr,)), ('same list again', corr, (fr,)), ('same list, third call', corr, (fr,))],
             'prange': [('first', corr, ()), ('derived correlator sharing prange', derived, ()), ('original again', corr, ())],
             'all': [('first', corr, ()), ('again', corr, ())]}[mode]
    content_before = any_digest(corr)
    first = None
    for ncall, (label, cobj, args) in enumerate(calls):
        res = cobj.fit(f, *args, silent=True, **kw)
        mech = 'Corr.fit' if ncall == 0 else 'Corr.fit:repeated-call'
        what = 'Corr.fit %s [%d,%d] undefined %s call %d (%s)' % (mode, a, b, sorted(undefined), ncall + 1, label)
        info = judge(ctx, prob, opts, res, sol, mech, what)
        ctx.count('corr_fit_judged')
        ctx.count('fits_judged')
        ctx.require(fr == [a, b], 'Corr.fit:fitrange-argument-changed', {'what': what, 'passed': [a, b], 'now': list(fr)})
        ctx.require(stored is None or (list(stored) == stored_before and list(corr.prange) == stored_before), 'Corr.fit:stored-prange-changed',
                    {'what': what, 'set': stored_before, 'now': None if corr.prange is None else list(corr.prange)})
        ctx.require(any_digest(corr) == content_before, 'Corr.fit:correlator-changed', what)
        if ncall == 0:
            first = (res, info)
        else:
            ctx.count('corr_fit_repeated_calls_judged')
    res, info = first
    # ---- plateau(method='fit') is a constant fit through the same entry point: weighted mean of the defined slices of [a, b], on the
    # second request as well, with the range given explicitly (same list twice) or taken from the stored prange
    if not kw:
        pl_sets = [{'key': '', 'terms': [(0, '1')], 'x': x * scale, 'y': ys}]
        pl_prob = dict(k=1, dim=1, sets=pl_sets, ptrue=ptrue[:1], A=design_matrix(pl_sets, 1, 1), ys=ys, priors=None, prior_spec=[])
        pl_sol = reference(pl_prob, dict(opts, weights='diag', k=1), dy, [], None)
        pr = [a, b]
        use_stored = mode == 'prange'
        for ncall in range(2):
            got = corr.plateau(method='fit') if use_stored else corr.plateau(pr, method='fit')
            tol = val_tol('Levenberg-Marquardt', pl_sol) * pl_sol['perr'][0] + 1e-11 * abs(pl_sol['p'][0])
            ctx.close(got.value, pl_sol['p'][0], 'Corr.plateau-fit:value', 'call %d %s' % (ncall + 1, 'prange' if use_stored else 'explicit range'), rtol=0.0, atol=tol)
            refp = dense.propagate(pl_sol['snaps'], list(pl_sol['Sy'][0]), lambda v: 0.0)
            compare_param(ctx, got, refp, 'Corr.plateau-fit', 1e-6 * dense.delta_scale(pl_sol['snaps'], list(pl_sol['Sy'][0])) + 1e-300, {}, 'call %d' % (ncall + 1))
            ctx.require(pr == [a, b] and (stored is None or list(corr.prange) == stored_before), 'Corr.plateau-fit:range-changed',
                        {'passed': [a, b], 'now': list(pr), 'prange': None if corr.prange is None else list(corr.prange)})
        ctx.count('corr_plateau_fits_judged', 2)
    if info and info['nontriv'] and k >= 2:
        ctx.nontrivial.add(digest([obs_digest(o) for o in ys], a, b, mode, terms))
    ctx.sample({'Corr.fit': mode, 'range': [a, b], 'undefined': sorted(undefined), 'points_expected': exp_ts, 'dof': int(res.dof), 'calls': [c[0] for c in calls],
                'closed_form_p': sol['p'], 'library_p': [o.value for o in res.fit_parameters]})


# ------------------------------------------------------------------------------------------
# hardening: histories, aliasing, stored state, scale, representation, flags, name traps, boundaries
def analysis_digest(o):
    """Everything a fit could change on an input: the data and the stored results / parameters of the analysis."""
    parts = [obs_digest(o), repr(getattr(o, '_dvalue', None)), repr(getattr(o, 'ddvalue', None))]
    for a in ('e_dvalue', 'e_ddvalue', 'e_tauint', 'e_dtauint', 'e_windowsize', 'S', 'tau_exp', 'N_sigma', 'e_rho', 'e_drho', 'e_n_tauint'):
        d = getattr(o, a, None)
        if isinstance(d, dict):
            parts.append([(k_, np.asarray(v).tobytes() if isinstance(v, np.ndarray) else repr(v)) for k_, v in sorted(d.items())])
        else:
            parts.append(repr(d))
    return digest(*parts)


def unique_inputs(prob):
    seen, out = set(), []
    for o in list(prob['ys']) + [v for _, kind, v in prob['prior_spec'] if kind == 'obs']:
        if id(o) not in seen:
            seen.add(id(o))
            out.append(o)
    return out


class class_state:
    """Class-level analysis parameters set to values that differ from everything stored on the inputs while the fit runs
    (a fit that re-analyses its inputs would pick them up); the fit must leave them as they are."""

    def __init__(self, inputs, active):
        self.inputs, self.active = inputs, active

    def state(self):
        O = PE.Obs
        return (O.S_global, dict(O.S_dict), O.tau_exp_global, dict(O.tau_exp_dict), O.N_sigma_global, dict(O.N_sigma_dict))

    def __enter__(self):
        O = PE.Obs
        self.saved = self.state()
        if self.active:
            O.S_global, O.tau_exp_global, O.N_sigma_global = 7.0, 3.0, 2.0
            for o in self.inputs:
                for e in o.mc_names:
                    O.S_dict[e] = 0.25
                    O.tau_exp_dict[e] = 6.0
                    O.N_sigma_dict[e] = 3.0
        self.during = self.state()
        return self

    def __exit__(self, *a):
        O = PE.Obs
        self.after = self.state()
        O.S_global, sd, O.tau_exp_global, td, O.N_sigma_global, nd = self.saved
        for d_, v in ((O.S_dict, sd), (O.tau_exp_dict, td), (O.N_sigma_dict, nd)):
            d_.clear()
            d_.update(v)


def arguments_digest(x, y, f, pri, kw):
    """The containers handed to the library (arrays, lists, dictionaries with their key order, the supplied matrix, the initial guess):
    the caller must find them as they were."""
    def d(v):
        if isinstance(v, dict):
            return [(repr(k_), d(w)) for k_, w in v.items()]
        if callable(v):
            return id(v)
        return any_digest(v)
    return [d(x), d(y), d(f), d(pri), [(k_, d(w)) for k_, w in sorted(kw.items())]]


def guarded_fit(ctx, prob, call, method, mech, perturb=False, runner=None):
    """Run one fit with the stored-state monitors around it: inputs (data + analysis results) and class-level parameters must be
    what they were; the result must not share fluctuation arrays with the inputs or between parameters."""
    inputs = unique_inputs(prob)
    before = [analysis_digest(o) for o in inputs]
    x, y, f, pri, kw = call
    args_before = arguments_digest(x, y, f, pri, kw)
    with class_state(inputs, perturb) as cs:
        res = runner() if runner is not None else run_fit(ctx, x, y, f, pri, kw, method)
    after = [analysis_digest(o) for o in inputs]
    args_after = arguments_digest(x, y, f, pri, kw)
    ctx.require(args_before == args_after, mech + ':arguments-changed-by-fit',
                lambda: {'changed': [n for n, a_, b_ in zip(('x', 'y', 'func', 'priors', 'kwargs'), args_before, args_after) if a_ != b_]})
    changed = [i for i, (a_, b_) in enumerate(zip(before, after)) if a_ != b_]
    ctx.ev()
    if changed:
        o = inputs[changed[0]]
        ctx.violation(mech + ':inputs-changed-by-fit', {'input': changed[0], 'names': list(o.names), 'dvalue_now': getattr(o, '_dvalue', None),
                                                       'analysis_parameters': GM.get(id(o), (None, None))[1]})
    ctx.require(cs.after == cs.during, mech + ':class-level-parameters-changed-by-fit', {'during': repr(cs.during)[:300], 'after': repr(cs.after)[:300]})
    ctx.count('stored_state_monitored')
    if perturb:
        ctx.count('fits_with_class_level_parameters_set')
    if res is not None:
        ok = True
        ps = list(res.fit_parameters)
        for i, p_ in enumerate(ps):
            for n in p_.deltas:
                for o in inputs:
                    if n in o.deltas and np.shares_memory(p_.deltas[n], o.deltas[n]):
                        ok = False
                for q in ps[i + 1:]:
                    if n in q.deltas and np.shares_memory(p_.deltas[n], q.deltas[n]):
                        ok = False
        ctx.require(ok, mech + ':result-shares-fluctuation-array', None)
    return res


def result_record(res):
    """Plain copy of a Fit_result (for 'an earlier result does not change when another fit runs')."""
    return dict(params=[snap(o) for o in res.fit_parameters], chisquare=float(res.chisquare), dof=int(res.dof), p=float(res.p_value))


def same_record(ctx, a, b, mech, what, rtol=0.0):
    ok = ctx.close(a['chisquare'], b['chisquare'], mech + ':chisquare', what, rtol=max(rtol, 1e-15), scale=max(1.0, abs(a['chisquare'])))
    ok &= ctx.equal(a['dof'], b['dof'], mech + ':dof', what)
    for i, (pa, pb) in enumerate(zip(a['params'], b['params'])):
        ok &= ctx.close(pa['value'], pb['value'], mech + ':value', '%s p[%d]' % (what, i), rtol=max(rtol, 1e-15))
        ok &= ctx.equal(sorted(pa['chains']), sorted(pb['chains']), mech + ':chain-names', what)
        for c in pa['chains']:
            if c in pb['chains']:
                ok &= ctx.close(pa['chains'][c][1], pb['chains'][c][1], mech + ':fluctuations', '%s p[%d] chain %s' % (what, i, c), rtol=max(rtol, 1e-15))
        for n in pa['cov']:
            if n in pb['cov']:
                ok &= ctx.close(pa['cov'][n][1], pb['cov'][n][1], mech + ':covariance-gradient', '%s p[%d] %s' % (what, i, n), rtol=max(rtol, 1e-15))
    return ok


def solve_reference(ctx, prob, opts, Lcanon):
    ys = prob['ys']
    dy = np.array([float(o.dvalue) for o in ys])                  # weights present at call time
    perr_call = [float(v.dvalue) if kind == 'obs' else None for _, kind, v in prob['prior_spec']]
    sol = reference(prob, opts, dy, perr_call, Lcanon)
    sol['dy'] = dy
    if not np.isfinite(sol['cond']) or sol['cond'] > 1e8:
        ctx.count('discarded_ill_conditioned')
        raise Skip()
    return sol


def fit_and_judge(ctx, prob, opts, mech, what, Lcanon=None, pres=None, extra_kw=None, perturb=False, sol=None):
    sol = sol or solve_reference(ctx, prob, opts, Lcanon)
    x, y, f, pri, kw = build_call(prob, pres or base_presentation(prob), opts, Lcanon)
    kw.update(extra_kw or {})
    res = guarded_fit(ctx, prob, (x, y, f, pri, kw), opts['method'], mech, perturb)
    if res is None:
        return None, sol, None
    info = judge(ctx, prob, opts, res, sol, mech, what)
    ctx.count('fits_judged')
    return res, sol, info


def set_priors(prob, spec, as_list=False):
    prob['prior_spec'] = spec
    if not spec:
        prob['priors'] = None
    elif as_list:
        prob['priors'] = [v for _, _, v in sorted(spec, key=lambda t: t[0])]
        prob['prior_spec'] = sorted(spec, key=lambda t: t[0])
    else:
        prob['priors'] = {m: v for m, _, v in spec}


def resync(prob):
    prob['ys'] = [o for s_ in prob['sets'] for o in s_['y']]


def hard_options(idx, rng, **over):
    o = dict(method=METHODS[idx % 4], num_grad=bool((idx // 4) % 4 == 3), weights='diag', priors='none', k=int(rng.integers(1, 5)),
             nsets=int(rng.choice([1, 1, 2, 3])), dim=int(rng.choice([1, 1, 2])), mode=str(rng.choice(['indep', 'shared', 'nested'])),
             exact=False, expected_chisquare=False, variant='base')
    o.update(over)
    return o


# ---- item 4: the same object in several argument slots -----------------------------------------------------------------
def run_spectator_case(ctx, idx, rng):
    """Checklist items 13 / 14: the spectator judgements get a kind of their own (every case is one)."""
    run_alias_case(ctx, 6 * idx + 5, rng)


def run_alias_case(ctx, idx, rng):
    variant = ['same-object-several-points', 'data-point-is-prior', 'same-prior-two-parameters', 'keys-share-y-objects', 'all', 'spectator-parameter'][idx % 6]
    o = hard_options(idx // 6, rng, weights=['diag', 'supplied', 'estimated'][(idx // 6) % 3] if variant == 'spectator-parameter' else ['diag', 'supplied'][(idx // 6) % 2])
    if variant == 'spectator-parameter':
        o['k'] = int(rng.integers(2, 5))
        if o['weights'] == 'estimated':
            o['mode'] = 'shared'
    if variant in ('same-prior-two-parameters', 'all'):
        o['k'] = int(rng.integers(2, 5))
    if variant in ('keys-share-y-objects', 'all'):
        o['nsets'] = int(rng.choice([2, 3]))
    prob = make_problem(ctx, rng, o)
    sets, k = prob['sets'], prob['k']
    ys = prob['ys']
    spec = []
    if variant in ('same-object-several-points', 'all') and len(ys) >= 3:
        for _ in range(int(rng.integers(1, 3))):
            d = int(rng.integers(0, len(sets)))
            if len(sets[d]['y']) >= 2:
                i, j = rng.choice(len(sets[d]['y']), size=2, replace=False)
                sets[d]['y'] = list(sets[d]['y'])
                sets[d]['y'][j] = sets[d]['y'][i]
    if variant in ('keys-share-y-objects', 'all'):
        sets[1]['y'] = list(sets[1]['y'])
        sets[1]['y'][int(rng.integers(0, len(sets[1]['y'])))] = sets[0]['y'][int(rng.integers(0, len(sets[0]['y'])))]
    resync(prob)
    ys = prob['ys']
    if variant in ('data-point-is-prior', 'all'):
        spec.append((int(rng.integers(0, k)), 'obs', ys[int(rng.integers(0, len(ys)))]))
    if variant in ('same-prior-two-parameters', 'all'):
        free = [m for m in range(k) if m not in [q[0] for q in spec]]
        if len(free) >= 2:
            m1, m2 = rng.choice(free, size=2, replace=False)
            val = float(np.mean(prob['ptrue'][[m1, m2]]))
            err = 0.5 * abs(prob['ptrue'][m1] - prob['ptrue'][m2]) + 0.1
            P = PE.Obs([val + err * np.sqrt(40) * rng.normal(size=40)], ['prShared'])
            gm(P, S=float(rng.choice([0, 1, 3])))
            spec += [(int(m1), 'obs', P), (int(m2), 'obs', P)]
    spect = None
    if variant == 'spectator-parameter':
        # parameter m is touched by every function (0 * p[m]) but enters none: it is fixed by its prior alone, has sensitivity exactly 0
        # to every datum, sits in the first / last / a middle slot, and must change nothing else
        spect = [0, k - 1, int(rng.integers(0, k))][(idx // 6) % 3]
        for s_ in sets:
            s_['terms'] = [(i_, b_) for i_, b_ in s_['terms'] if i_ != spect] + [(spect, 'zero')]
        prob['A'] = design_matrix(sets, k, prob['dim'])
        err = abs(prob['ptrue'][spect]) * float(rng.uniform(0.05, 0.5)) + 0.02
        if rng.random() < 0.5:
            spec.append((spect, 'str', prior_string(rng, prob['ptrue'][spect], err)))
        else:
            P = PE.Obs([prob['ptrue'][spect] + err * np.sqrt(40) * rng.normal(size=40)], ['prSpect'])
            gm(P, S=float(rng.choice([0, 1, 3])))
            spec.append((spect, 'obs', P))
        for m in rng.permutation([m for m in range(k) if m != spect])[:int(rng.integers(0, 2))]:
            e2 = abs(prob['ptrue'][m]) * 0.3 + 0.05
            spec.append((int(m), 'str', prior_string(rng, prob['ptrue'][m], e2)))
    set_priors(prob, spec, as_list=False)
    dy = np.array([float(v.dvalue) for v in ys])
    Lcanon = supplied_factor(rng, dy) if o['weights'] == 'supplied' else None
    ctx.cell('alias', variant, o['weights'], o['method'][:2])
    res, sol, info = fit_and_judge(ctx, prob, o, 'alias:' + variant, 'alias %s %s' % (variant, o['method']), Lcanon=Lcanon, perturb=bool(idx % 2))
    if res is not None and spect is not None:
        pr = [v for m, _, v in spec if m == spect][0]
        pval, perr_ = gls.parse_prior(pr) if isinstance(pr, str) else (float(pr.value), float(pr.dvalue))
        got = res.fit_parameters[spect]
        ctx.close(got.value, pval, 'alias:spectator-parameter:not-equal-to-its-prior', 'slot %d of %d' % (spect, k), rtol=0.0, atol=2 * val_tol(o['method'], sol) * perr_)
        data_chains = set(n for v in ys for n in v.names)
        own = set(pr.names) if not isinstance(pr, str) else set()
        # fluctuations on the chains of the data: nothing beyond rounding, measured against the fluctuation that would carry the prior error
        unit = perr_ * max(float(np.max(np.abs(d_))) / float(v.dvalue) for v in ys for n, d_ in v.deltas.items() if len(d_))
        leak = max([float(np.max(np.abs(got.deltas[n]))) for n in got.deltas if n in data_chains and n not in own] or [0.0]) / unit
        ctx.require(leak <= (2e-5 if o['num_grad'] else 1e-8), 'alias:spectator-parameter:depends-on-data', {'slot': spect, 'relative_fluctuation': leak})
        ctx.count('spectator_parameters_judged')
    if res is not None:
        ctx.count('alias_cases_judged')
        if info and info['nontriv'] and k >= 2:
            ctx.nontrivial.add(digest([obs_digest(v) for v in ys], variant, repr(sorted(o.items(), key=str))))
    ctx.sample({'alias': variant, 'points': len(ys), 'distinct_objects': len(set(id(v) for v in ys)), 'priors': [(m, kind) for m, kind, _ in spec]})


# ---- items 3, 5, 7: two problems that agree in everything a cheap key would look at, fitted A, B, A ----------------------
def clone_obs(rng, o):
    """Same chains, same configuration lists, same length - other numbers."""
    names = [n for n in o.names if n not in o.cov_names]
    samples = [o.r_values[n] + rng.permutation(np.asarray(o.deltas[n])) * float(rng.uniform(0.7, 1.3)) + float(rng.normal()) * o.dvalue for n in names]
    c = PE.Obs(samples, names, idl=[o.idl[n] for n in names])
    gm(c, **GM[id(o)][1])
    return c


def clone_problem(rng, prob):
    mp = {}
    for o in unique_inputs(prob):
        mp[id(o)] = clone_obs(rng, o)
    new = dict(prob)
    new['sets'] = [dict(s_, y=[mp[id(v)] for v in s_['y']]) for s_ in prob['sets']]
    resync(new)
    spec = [(m, kind, mp[id(v)] if kind == 'obs' else v) for m, kind, v in prob['prior_spec']]
    set_priors(new, spec, as_list=isinstance(prob['priors'], list))
    return new


def run_history_case(ctx, idx, rng):
    o = hard_options(idx, rng, weights=WEIGHTS[idx % 3], priors=PRIORS[(idx // 3) % 5], method=METHODS[(idx // 15) % 4])
    o['mode'] = 'shared' if o['weights'] == 'estimated' else str(rng.choice(['indep', 'shared', 'nested']))
    A = make_problem(ctx, rng, o)
    if any(v.cov_names for v in unique_inputs(A)):
        raise Skip()
    A['funcs'] = {}
    B = clone_problem(rng, A)                  # shares the dictionary of function objects with A
    dyA = np.array([float(v.dvalue) for v in A['ys']])
    Lcanon = supplied_factor(rng, dyA) if o['weights'] == 'supplied' else None
    what = 'history %s/%s/%s' % (o['method'][:2], o['weights'], o['priors'])
    ctx.cell('history', o['method'][:2], o['weights'], o['priors'])
    order = [('A', A), ('B', B), ('A', A)] if idx % 2 == 0 else [('B', B), ('A', A), ('B', B)]
    first = None
    for step, (nm, prob) in enumerate(order):
        res, sol, info = fit_and_judge(ctx, prob, o, 'history:%d' % step, '%s step %d (%s)' % (what, step, nm), Lcanon=Lcanon, perturb=(step == 1))
        if res is None:
            return
        if step == 0:
            first = (res, result_record(res))
        elif step == 1:
            same_record(ctx, result_record(first[0]), first[1], 'history:earlier-result-changed-by-later-fit', what)
        else:
            # string priors get fresh names: compare without them through the record of values / chains
            same_record(ctx, result_record(res), first[1], 'history:refit-after-other-data-differs', what, rtol=1e-12)
    # the same function objects once more, on other abscissae and other data (a Jacobian / design matrix remembered per function would show)
    # (always as an uncorrelated fit without priors and with expected_chisquare, whose hat matrix is the Jacobian of the functions)
    C = clone_problem(rng, A)
    C['sets'] = [dict(s_, x=np.asarray(s_['x'], dtype=float) * float(rng.uniform(0.6, 0.9)) + 0.07) for s_ in C['sets']]
    C['A'] = design_matrix(C['sets'], C['k'], C['dim'])
    A2 = dict(A)
    set_priors(A2, [])
    set_priors(C, [])
    oc = dict(o, weights='diag', priors='none', expected_chisquare=True)
    for nm, prob in (('A', A2), ('C', C)):
        sol_c = solve_reference(ctx, prob, oc, None)
        if oc['method'] != 'Levenberg-Marquardt' and sol_c['cond'] > 1e6:
            # without its priors the problem can be ill conditioned (cond 1e6 .. 1e8): migrad / simplex / Powell stop on a change of the
            # function value (EDM 2e-4 = 0.02 sigma for migrad), which no longer bounds the distance along the flat direction
            ctx.count('history_reuse_not_judged_ill_conditioned_for_this_minimiser')
            continue
        res, sol, info = fit_and_judge(ctx, prob, oc, 'history:same-functions-other-abscissae', '%s functions reused (%s)' % (what, nm), sol=sol_c)
        if res is None:
            return
        ctx.count('function_objects_reused_on_other_abscissae')
    ctx.count('histories_judged')
    if A['k'] >= 2:
        ctx.nontrivial.add(digest([obs_digest(v) for v in A['ys']], [obs_digest(v) for v in B['ys']], repr(sorted(o.items(), key=str))))
    ctx.sample({'history': [n_ for n_, _ in order], 'options': {k_: o[k_] for k_ in ('method', 'weights', 'priors', 'mode')},
                'ensembles': sorted(set(n_ for v in A['ys'] for n_ in v.names))})


# ---- item 6: scale sweep -------------------------------------------------------------------------------------------------
SCALES = [1e-8, 1e-4, 1e-2, 1e2, 1e4, 1e8]


def scaled_problem(prob, c):
    mp = {}
    for v in unique_inputs(prob):
        w = v * c
        gm(w, **GM[id(v)][1])
        mp[id(v)] = w
    new = dict(prob)
    new['sets'] = [dict(s_, y=[mp[id(v)] for v in s_['y']]) for s_ in prob['sets']]
    resync(new)
    new['ptrue'] = prob['ptrue'] * c
    set_priors(new, [(m, kind, mp[id(v)]) for m, kind, v in prob['prior_spec']], as_list=isinstance(prob['priors'], list))
    return new


def run_scale_case(ctx, idx, rng):
    c = SCALES[idx % len(SCALES)]
    o = hard_options(idx // 6, rng, weights=WEIGHTS[(idx // 6) % 3], priors=['none', 'dict-obs', 'none', 'list-obs'][(idx // 18) % 4])
    o['mode'] = 'shared' if o['weights'] == 'estimated' else str(rng.choice(['indep', 'shared', 'nested']))
    pk = o['priors']
    o['priors'] = 'none'
    prob = make_problem(ctx, rng, o)
    o['priors'] = pk
    if pk != 'none':
        k = prob['k']
        mask = list(range(k)) if pk == 'list-obs' else rng.permutation(k)[:int(rng.integers(1, k + 1))].tolist()
        spec = []
        for m in mask:
            err = abs(prob['ptrue'][m]) * float(rng.uniform(0.03, 0.5)) + 0.02
            P = PE.Obs([prob['ptrue'][m] + err * np.sqrt(30) * rng.normal(size=30)], ['pr%d' % m])
            gm(P, S=float(rng.choice([0, 1, 2])))
            spec.append((int(m), 'obs', P))
        set_priors(prob, spec, as_list=(pk == 'list-obs'))
    guess = prob['ptrue'] * (1 + 0.2 * rng.normal(size=prob['k']))
    dy = np.array([float(v.dvalue) for v in prob['ys']])
    L1 = supplied_factor(rng, dy) if o['weights'] == 'supplied' else None
    what = 'scale %g %s/%s/%s' % (c, o['method'][:2], o['weights'], pk)
    ctx.cell('scale', '%g' % c, o['method'][:2], o['weights'])
    o1 = dict(o, priors='none' if pk == 'none' else 'dict-obs', initial_guess=guess.tolist())
    r1, sol1, info1 = fit_and_judge(ctx, prob, o1, 'scale:unit', what + ' unit', Lcanon=L1)
    sp = scaled_problem(prob, c)
    oc = dict(o1, initial_guess=(guess * c).tolist())
    # two causes of scale dependence are known and get tags of their own (a different failure in these cells keeps another suffix):
    #  * scipy's Powell brackets along unit directions starting with [0, 1] and Brent's line search has an absolute floor of 1e-11 on
    #    the line parameter, i.e. in the units of the parameters: results are wrong once the parameter errors approach 1e-11 .. 1e-9;
    #  * numdifftools chooses steps ~ log1p(|x|), which do not grow with the parameters: for large parameters (errors >> 1) the second
    #    differences of chi-square drown in rounding and the propagated errors of num_grad=True are wrong.
    # The tag is decided from the witness: the method / differentiation in use AND the magnitude regime of the closed-form parameter
    # errors of the scaled problem in which the cause operates; everything else keeps the generic tag.
    Lc = None if L1 is None else L1 / c
    solc0 = solve_reference(ctx, sp, oc, Lc)
    mech = 'scale:scaled'
    known_cause = False
    sig_min = 1.0 / float(np.sqrt(np.max(np.linalg.eigvalsh(solc0['M']))))     # error of the best determined combination of parameters
    if o['method'] == 'Powell' and sig_min < 1e-8:
        mech, known_cause = 'scale:small-parameters:Powell-line-search-in-absolute-units', True
    elif o['num_grad'] and float(np.max(solc0['perr'])) > 1e2:
        mech, known_cause = 'scale:large-parameters:num_grad-steps-do-not-scale', True
    rc, solc, infoc = fit_and_judge(ctx, sp, oc, mech, what + ' scaled', Lcanon=Lc, sol=solc0)
    if r1 is None or rc is None or info1 is None or infoc is None:
        return
    if known_cause:
        ctx.count('scale_pairs_judged')
        ctx.count('scale_pairs_in_cells_with_known_cause')
        return
    # the scaled problem is the exact image of the unit one: p -> c p, fluctuations -> c fluctuations, chi2 / dof / p-values unchanged
    mech = 'scale:not-covariant'
    vt = 2 * val_tol(o['method'], sol1)
    for i in range(prob['k']):
        ctx.close(rc.fit_parameters[i].value / c, r1.fit_parameters[i].value, mech + ':value', '%s p[%d]' % (what, i), rtol=0.0,
                  atol=vt * sol1['perr'][i] + 1e-11 * abs(sol1['p'][i]))
        sa, sb = snap(r1.fit_parameters[i]), snap(rc.fit_parameters[i])
        if ctx.equal(sorted(sa['chains']), sorted(sb['chains']), mech + ':chain-names', what):
            for ch in sa['chains']:
                ctx.close(sb['chains'][ch][1] / c, sa['chains'][ch][1], mech + ':fluctuations', '%s p[%d] chain %s' % (what, i, ch), rtol=0.0, atol=2 * info1['fl_tols'][i])
    ct = 1e-8 if o['method'] == 'Levenberg-Marquardt' else 4e-4
    ctx.close(rc.chisquare, r1.chisquare, mech + ':chisquare', what, rtol=ct, scale=max(1.0, sol1['chi2']))
    ctx.equal(int(rc.dof), int(r1.dof), mech + ':dof', what)
    ctx.close(rc.p_value, r1.p_value, mech + ':p_value', what, rtol=0.0, atol=1e-3 if o['method'] != 'Levenberg-Marquardt' else 1e-7)
    ctx.count('scale_pairs_judged')
    if prob['k'] >= 2:
        ctx.nontrivial.add(digest([obs_digest(v) for v in prob['ys']], c, repr(sorted(o.items(), key=str))))
    ctx.sample({'scale': c, 'unit_p': [v.value for v in r1.fit_parameters], 'scaled_p_over_c': [v.value / c for v in rc.fit_parameters],
                'chi2': [float(r1.chisquare), float(rc.chisquare)]})


# ---- items 1, 2: representation of the inputs, flags and forwarded options ------------------------------------------------
def represent(rng, call, how, prob):
    """Other representations of the same arguments."""
    x, y, f, pri, kw = call
    kw = dict(kw)

    def view(a):
        a = np.asarray(a, dtype=float)
        big = np.zeros(a.shape[:-1] + (2 * a.shape[-1],))
        big[..., ::2] = a
        return big[..., ::2]                   # strided, non-contiguous

    def conv_x(a):
        a = np.asarray(a, dtype=float)
        if how == 'views':
            return view(a)
        if how == 'fortran':
            return np.asfortranarray(a) if a.ndim > 1 else a[::-1][::-1]
        if how == 'int-array' and np.all(a == np.round(a)):
            return a.astype(np.int32 if rng.random() < 0.5 else np.int64)
        if how == 'tuple':
            return tuple(a.tolist()) if a.ndim == 1 else tuple(tuple(r) for r in a.tolist())
        return a

    def conv_y(l):
        arr = np.empty(2 * len(l), dtype=object)
        arr[::2] = list(l)
        return arr[::2] if how in ('views', 'fortran') else (tuple(l) if how == 'tuple' else list(l))
    if isinstance(x, dict):
        x = {k_: conv_x(v) for k_, v in x.items()}
        y = {k_: conv_y(v) for k_, v in y.items()}
    else:
        x, y = conv_x(x), conv_y(y)
    if 'inv_chol_cov_matrix' in kw:
        L, keys = kw['inv_chol_cov_matrix']
        kw['inv_chol_cov_matrix'] = [np.asfortranarray(L) if how == 'fortran' else view(L) if how == 'views' else L, list(keys)]
    if isinstance(pri, dict):
        pri = {m: (np.str_(v) if isinstance(v, str) else v) for m, v in pri.items()}
    elif isinstance(pri, list):
        pri = [np.str_(v) if isinstance(v, str) else v for v in pri]
        if how == 'tuple':
            arr = np.empty(len(pri), dtype=object)
            for i, v in enumerate(pri):
                arr[i] = v
            pri = arr
    return x, y, f, pri, kw


def run_flags_case(ctx, idx, rng):
    how = ['views', 'fortran', 'int-array', 'tuple', 'flags', 'flags-plots', 'tol', 'same-arguments-twice'][idx % 8]
    o = hard_options(idx // 8, rng, weights=WEIGHTS[(idx // 8) % 3], priors=PRIORS[(idx // 24) % 5])
    o['mode'] = 'shared' if o['weights'] == 'estimated' else str(rng.choice(['indep', 'shared', 'nested']))
    if how == 'int-array':
        o['integer_x'] = True
        o['dim'] = 1
    if how == 'flags-plots':
        o['dim'] = 1
    if how == 'tol':
        o['method'] = METHODS[1 + (idx // 8) % 3]
    prob = make_problem(ctx, rng, o)
    if how == 'flags-plots' and any(len(s_['y']) < 2 for s_ in prob['sets']):
        raise Skip()
    dy = np.array([float(v.dvalue) for v in prob['ys']])
    Lcanon = supplied_factor(rng, dy) if o['weights'] == 'supplied' else None
    sol = solve_reference(ctx, prob, o, Lcanon)
    what = 'representation %s %s/%s/%s' % (how, o['method'][:2], o['weights'], o['priors'])
    ctx.cell('representation', how, o['weights'], o['priors'])
    base_call = build_call(prob, base_presentation(prob), o, Lcanon)
    r0 = guarded_fit(ctx, prob, base_call, o['method'], 'representation:base')
    if r0 is None:
        return
    info0 = judge(ctx, prob, o, r0, sol, 'representation:base', what)
    call = base_call if how == 'same-arguments-twice' else represent(rng, base_call, how, prob)
    x, y, f, pri, kw = call
    if how in ('flags', 'flags-plots'):
        kw['silent'] = False
    if how == 'flags-plots':
        kw['resplot'] = True
        kw['qqplot'] = True
    if how == 'tol':
        kw['tol'] = 1e-6 if o['method'] == 'migrad' else 1e-13      # tighter than the defaults: forwarded to the minimiser
    r1 = guarded_fit(ctx, prob, (x, y, f, pri, kw), o['method'], 'representation:' + how)
    if how == 'flags-plots':
        import matplotlib.pyplot as plt
        plt.close('all')
    if r1 is None:
        return
    judge(ctx, prob, o, r1, sol, 'representation:' + how, what)
    ctx.count('fits_judged', 2)
    if info0 is not None:
        if how in ('flags', 'flags-plots', 'same-arguments-twice'):
            # output / plots switched on: the same arithmetic, the same numbers
            same_record(ctx, result_record(r1), result_record(r0), 'representation:%s-changes-result' % how, what, rtol=1e-12)
        else:
            # another memory layout / container / tighter minimiser tolerance: the same fit within what the minimiser resolves
            cross_compare(ctx, prob, o, r0, r1, sol, info0, 'representation:%s-changes-result' % how, what)
    ctx.count('representations_judged')
    if prob['k'] >= 2:
        ctx.nontrivial.add(digest([obs_digest(v) for v in prob['ys']], how, repr(sorted(o.items(), key=str))))


# ---- item 8: name traps -----------------------------------------------------------------------------------------------------
def run_chain_case(ctx, idx, rng):
    """Chained fits: parameters of a first fit with 'value(err)' priors (covariance inputs '#prior<i>_...') are priors of a second fit
    that has string priors of its own with the same '#prior<i>_' prefixes; dictionary keys with prefix / case / digit traps."""
    o1 = hard_options(idx, rng, priors=['dict-str', 'mixed', 'list'][idx % 3], weights=['diag', 'supplied'][(idx // 3) % 2], method='Levenberg-Marquardt', num_grad=False)
    o1['k'] = int(rng.integers(2, 5))
    p1 = make_problem(ctx, rng, o1)
    if not any(kind == 'str' for _, kind, _ in p1['prior_spec']):
        raise Skip()
    dy = np.array([float(v.dvalue) for v in p1['ys']])
    L1 = supplied_factor(rng, dy) if o1['weights'] == 'supplied' else None
    r1, sol1, info1 = fit_and_judge(ctx, p1, o1, 'chain:first', 'chain first', Lcanon=L1)
    if r1 is None:
        return
    for v in r1.fit_parameters:
        gm(v, S=float(rng.choice([0, 1, 2])))
    o2 = hard_options(idx // 2, rng, priors='none', weights=WEIGHTS[(idx // 2) % 3], k=int(rng.integers(2, 5)))
    o2['mode'] = 'shared' if o2['weights'] == 'estimated' else str(rng.choice(['indep', 'shared']))
    if idx % 2:
        o2['nsets'] = int(rng.choice([2, 3]))
    p2 = make_problem(ctx, rng, o2)
    if idx % 2:
        # keys whose sorted order differs from insertion order, sharing prefixes, mixing case and digit counts
        trap = rng.permutation(['a', 'A', 'a1', 'a10', 'a2', 'aa', 'Z', 'b', 'B1'])[:len(p2['sets'])].tolist()
        for s_, key in zip(p2['sets'], trap):
            s_['key'] = key
        p2['sets'] = sorted(p2['sets'], key=lambda s_: s_['key'])
        resync(p2)
        p2['A'] = design_matrix(p2['sets'], p2['k'], p2['dim'])
    k2 = p2['k']
    spec = []
    used = rng.permutation(k2)
    # previous results as priors (they carry '#prior<i>_' covariance inputs), on parameters whose index may differ from i
    src = [i for i, v in enumerate(r1.fit_parameters) if any(n.startswith('#prior') for n in v.cov_names)]
    if not src:
        raise Skip()
    i0 = int(rng.choice(src))
    spec.append((int(used[0]), 'obs', r1.fit_parameters[i0]))
    # own string priors: one with the same index as a '#prior<i>_' name inside the Obs prior when possible
    idxs = sorted(set(int(n.split('_')[0][len('#prior'):]) for n in r1.fit_parameters[i0].cov_names if n.startswith('#prior')))
    cand = [m for m in idxs if m < k2 and m != int(used[0])] or [int(m) for m in used[1:2]]
    for m in cand[:2]:
        err = abs(p2['ptrue'][m]) * float(rng.uniform(0.05, 0.5)) + 0.02
        spec.append((int(m), 'str', prior_string(rng, p2['ptrue'][m] + err * float(rng.normal()), err)))
    set_priors(p2, spec)
    dy2 = np.array([float(v.dvalue) for v in p2['ys']])
    L2 = supplied_factor(rng, dy2) if o2['weights'] == 'supplied' else None
    o2['priors'] = 'mixed'
    ctx.cell('chain', o1['priors'], o2['weights'], 'trap-keys' if idx % 2 else 'plain-keys')
    pres = base_presentation(p2)
    if idx % 2 and len(p2['sets']) > 1:
        pres['order'] = [rng.permutation(len(p2['sets'])).tolist() for _ in range(3)]
    r2, sol2, info2 = fit_and_judge(ctx, p2, o2, 'chain:second', 'chain second (prior = earlier result with %s)' % sorted(r1.fit_parameters[i0].cov_names),
                                    Lcanon=L2, pres=pres)
    if r2 is not None:
        ctx.count('chained_fits_judged')
        ctx.nontrivial.add(digest([obs_digest(v) for v in p2['ys']], [obs_digest(v) for v in p1['ys']], idx % 2))
        ctx.sample({'chain': 'second fit', 'keys': [s_['key'] for s_ in p2['sets']], 'priors': [(m, kind, v if kind == 'str' else sorted(v.names)) for m, kind, v in spec]})


# ---- item 9: boundary values ----------------------------------------------------------------------------------------------------
def run_boundary_case(ctx, idx, rng):
    variant = ['points==parameters', 'one-point-more', 'one-point-one-parameter-prior', 'one-point-two-parameters-two-priors',
               'one-point-one-parameter', 'Corr.fit-first==last', 'Corr.fit-first==last-prior'][idx % 7]
    if variant.startswith('Corr.fit'):
        pe = PE
        T, n = int(rng.integers(6, 12)), int(rng.integers(30, 60))
        content = [pe.Obs([1.0 + 0.3 * t + 0.05 * np.sqrt(n) * rng.normal(size=n)], ['ens'], idl=[range(1, n + 1)]) for t in range(T)]
        corr = pe.Corr(content)
        corr.gamma_method(S=float(rng.choice([0, 1, 2])))
        a = int(rng.integers(0, T))
        f = lambda p, x: p[0] + 0 * x
        spec, kw = [], {}
        if variant.endswith('prior'):
            spec = [(0, 'str', prior_string(rng, 1.0 + 0.3 * a, 0.2))]
            kw['priors'] = {0: spec[0][2]}
        if idx % 2:
            corr.set_prange([0, T - 1])
        fr = [a, a]
        for ncall in range(2):                      # the same single-slice range list twice: the second use must fit the same slice
            res = corr.fit(f, fr, silent=True, **kw)
            ctx.require(fr == [a, a] and int(res.dof) == len(spec), 'Corr.fit:fitrange-argument-changed', {'passed': [a, a], 'now': list(fr), 'dof': int(res.dof), 'call': ncall + 1})
        ys = [corr.content[a][0]]
        sets = [{'key': '', 'terms': [(0, '1')], 'x': np.array([float(a)]), 'y': ys}]
        prob = dict(k=1, dim=1, sets=sets, ptrue=np.array([1.0]), A=design_matrix(sets, 1, 1), ys=ys)
        set_priors(prob, spec)
        o = dict(method='Levenberg-Marquardt', num_grad=False, weights='diag', priors='dict-str' if spec else 'none', k=1)
        sol = solve_reference(ctx, prob, o, None)
        judge(ctx, prob, o, res, sol, 'boundary:' + variant, '%s [%d,%d]' % (variant, a, a))
        ctx.count('fits_judged')
    else:
        k, npts, pk = {'points==parameters': (int(rng.integers(1, 5)), None, 'none'), 'one-point-more': (int(rng.integers(1, 5)), None, 'none'),
                       'one-point-one-parameter-prior': (1, 1, str(rng.choice(['dict-obs', 'dict-str', 'list']))),
                       'one-point-two-parameters-two-priors': (2, 1, 'list'), 'one-point-one-parameter': (1, 1, 'none')}[variant]
        o = hard_options(idx // 7, rng, k=k, nsets=1 if npts == 1 else int(rng.choice([1, 2])), priors=pk, weights='diag')
        o['npoints'] = npts if npts is not None else (k if variant == 'points==parameters' else k + 1)
        if o['method'] in ('Nelder-Mead', 'Powell') and k == 1 and npts == 1 and pk == 'none':
            o['method'] = 'Levenberg-Marquardt'
        prob = make_problem(ctx, rng, o)
        if len(prob['ys']) != o['npoints']:
            raise Skip()
        res, sol, info = fit_and_judge(ctx, prob, o, 'boundary:' + variant, '%s %s' % (variant, o['method']))
        if res is None:
            return
    ctx.cell('boundary', variant)
    ctx.count('boundary_cases_judged')
    ctx.nontrivial.add(digest(variant, [obs_digest(v) for v in prob['ys']]))
    ctx.sample({'boundary': variant, 'points': len(prob['ys']), 'parameters': prob['k'], 'priors': len(prob['prior_spec']), 'dof': int(res.dof),
                'chisquare': float(res.chisquare), 'p_value': float(res.p_value)})



# ------------------------------------------------------------------------------------------
# third hardening pass: result interface and printing, rejections, degenerate values, indistinguishable members, coincidences
def variance_at_window_zero(o):
    """Squared error of an observable analysed with S = 0 (no autocorrelation, documented convention Gamma(0) / (N - 1)): per ensemble
    sum delta^2 / (N (N - 1)), plus g^T C g."""
    sn = snap(o)
    tot = 0.0
    ens = {}
    for n, (idl, d, _) in sn['chains'].items():
        e = n.split('|')[0]
        a_, b_ = ens.get(e, (0.0, 0))
        ens[e] = (a_ + float(np.sum(np.asarray(d) ** 2)), b_ + len(idl))
    for a_, b_ in ens.values():
        tot += a_ / (b_ * (b_ - 1.0))
    for n, (cov, g) in sn['cov'].items():
        tot += float(np.asarray(g) @ np.atleast_2d(cov) @ np.asarray(g))
    return tot


def run_interface_case(ctx, idx, rng):
    """Fit_result as a sequence, Fit_result.gamma_method, and the numbers printed by str(result) / repr(result); half of the cases with
    functions written as g(x, *p) (TypeError branch of the parameter count), some with tol on Levenberg-Marquardt (ignored, announced)."""
    import re
    o = hard_options(idx, rng, weights=WEIGHTS[idx % 3], priors=PRIORS[(idx // 3) % 5], method='Levenberg-Marquardt', num_grad=bool((idx // 6) % 3 == 2))
    o['mode'] = 'shared' if o['weights'] == 'estimated' else str(rng.choice(['indep', 'shared', 'mixed']))
    o['star_args'] = idx % 2 == 0
    if o['star_args']:
        o['nsets'] = 1
    o['expected_chisquare'] = o['weights'] == 'diag' and o['priors'] == 'none'
    prob = make_problem(ctx, rng, o)
    dy = np.array([float(v.dvalue) for v in prob['ys']])
    Lcanon = supplied_factor(rng, dy) if o['weights'] == 'supplied' else None
    extra = {'tol': 1e-3} if idx % 4 == 1 else {}
    if idx % 4 == 3:
        extra['silent'] = False                          # prints method, message, chisquare/d.o.f., chisquare/expected_chisquare
    what = 'interface %s/%s star=%s' % (o['weights'], o['priors'], o['star_args'])
    try:
        res, sol, info = fit_and_judge(ctx, prob, o, 'interface', what, Lcanon=Lcanon, extra_kw=extra)
    except TypeError as e:
        # a TypeError that leaves the library through the user's function would be taken for a harness error
        ctx.ev()
        ctx.violation('interface:function-with-positional-parameters-refused', {'message': str(e)[:200], 'star_args': o['star_args']})
        return
    if res is None:
        return
    k = prob['k']
    ctx.cell('interface', o['weights'], o['priors'], 'star' if o['star_args'] else 'index', 'tol' if 'tol' in extra else 'plain')
    # sequence protocol
    ctx.equal(len(res), k, 'Fit_result:len', what)
    ctx.require(all(res[i] is res.fit_parameters[i] for i in range(k)) and [id(v) for v in res] == [id(v) for v in res.fit_parameters]
                and res[-1] is res.fit_parameters[-1], 'Fit_result:indexing', what)
    # gamma_method on the result = gamma_method on every parameter (S = 0: the error follows from the fluctuations in closed form)
    for call in (res.gamma_method, res.gm):
        for v in res.fit_parameters:
            v._dvalue = -1.0
        call(S=0)
        for i, v in enumerate(res.fit_parameters):
            exp = np.sqrt(variance_at_window_zero(v))
            ctx.close(v.dvalue, exp, 'Fit_result:gamma_method', '%s p[%d]' % (what, i), rtol=1e-10, atol=1e-300)
    # printed numbers
    text = str(res)
    lines = text.splitlines()

    def printed(label):
        m = [ln for ln in lines if ln.startswith(label)]
        return float(m[0].split('=')[1]) if len(m) == 1 else None
    got = printed('χ²/d.o.f.')
    if sol['dof'] > 0:
        ctx.require(got is not None and abs(got - float(res.chisquare_by_dof)) <= 0.51e-6 + 1e-12 * abs(got), 'Fit_result:str:chisquare_by_dof', {'printed': got, 'attribute': float(res.chisquare_by_dof)})
    got = printed('p-value')
    if sol['dof'] > 0:
        ctx.require(got is not None and abs(got - float(res.p_value)) <= 0.51e-4, 'Fit_result:str:p_value', {'printed': got, 'attribute': float(res.p_value)})
    if o['weights'] != 'diag' and sol['dof'] > 0:
        got = printed('t²p-value')
        ctx.require(got is not None and abs(got - float(res.t2_p_value)) <= 0.51e-4, 'Fit_result:str:t2_p_value', {'printed': got, 'attribute': float(res.t2_p_value)})
    else:
        ctx.require(printed('t²p-value') is None, 'Fit_result:str:t2_p_value-printed-for-uncorrelated-fit', text)
    if o['expected_chisquare'] and hasattr(res, 'chisquare_by_expected_chisquare'):
        got = printed('χ²/χ²exp')
        ctx.require(got is not None and abs(got - float(res.chisquare_by_expected_chisquare)) <= 0.51e-6 + 1e-12 * abs(got), 'Fit_result:str:chisquare_by_expected_chisquare',
                    {'printed': got, 'attribute': float(res.chisquare_by_expected_chisquare)})
    at = lines.index('Fit parameters:') if 'Fit parameters:' in lines else None
    ok = at is not None and len(lines) - at - 1 == k
    if ok:
        for i in range(k):
            m = re.match(r'^(\d+)\t\s*(\S+)', lines[at + 1 + i])
            ok &= bool(m) and int(m.group(1)) == i and m.group(2).split('(')[0].lstrip('-')[:1].isdigit()
            if ok:
                v = float(m.group(2).split('(')[0])
                ok &= abs(v - float(res[i].value)) <= max(2.0 * float(res[i].dvalue), 1e-12 * abs(v))      # value(error) keeps about two digits of the error
    ctx.require(ok, 'Fit_result:str:parameter-lines', text)
    rp = repr(res)
    ctx.require(all(('%s: ' % key) in rp for key in ('chisquare', 'dof', 'p_value', 'fit_parameters', 'method')), 'Fit_result:repr', rp[:400])
    ctx.count('result_interfaces_judged')
    if info and info['nontriv'] and k >= 2:
        ctx.nontrivial.add(digest([obs_digest(v) for v in prob['ys']], repr(sorted(o.items(), key=str))))


def expect_rejection(ctx, row, exc_types, call, inputs, message=None):
    """A documented rejection: the call must raise one of exc_types (with the documented message) and leave the inputs as they were."""
    before = [analysis_digest(v) for v in inputs]
    try:
        out = call()
    except exc_types as e:
        ok = message is None or message in str(e)
        ctx.require(ok, 'rejection:%s:other-message' % row, {'message': str(e)[:200], 'expected': message})
    except Exception as e:
        ctx.ev()
        ctx.violation('rejection:%s:other-exception' % row, {'raised': type(e).__name__, 'message': str(e)[:200], 'expected': [t.__name__ for t in exc_types]})
    else:
        ctx.ev()
        ctx.violation('rejection:%s:accepted' % row, {'returned': type(out).__name__})
    ctx.require(before == [analysis_digest(v) for v in inputs], 'rejection:%s:inputs-changed' % row, None)
    ctx.count('rejections_judged')
    ctx.count('judged:rejection:' + row)


def run_rejection_case(ctx, idx, rng):
    """Every rejection of least_squares, _construct_prior_obs and Corr.fit is provoked from a valid problem by one minimal change (the
    valid twin is fitted and judged first, so the row differs from an accepted input in exactly that respect)."""
    pe = PE
    rows = ['mixed-dict-and-list', 'y-keys-differ', 'func-keys-differ', 'x-three-dimensional', 'y-without-error', 'func-not-callable', 'x-y-length-differ',
            'combined-function-wrong-shape', 'prior-list-wrong-length', 'prior-key-not-int', 'prior-position-out-of-range', 'priors-wrong-type',
            'prior-without-error', 'initial-guess-wrong-length', 'supplied-matrix-wrong-size', 'supplied-matrix-not-square', 'supplied-matrix-keys',
            'supplied-matrix-not-lower-triangular', 'prior-entry-not-obs-or-str', 'singular-hessian', 'function-with-wrong-signature', 'Corr.fit-matrix-correlator',
            'Corr.fit-range-not-list', 'Corr.fit-range-three-entries']
    row = rows[idx % len(rows)]
    o = hard_options(idx // len(rows), rng, weights='diag', priors='none', method='Levenberg-Marquardt', num_grad=False, nsets=2, dim=1)
    o['k'] = int(rng.integers(2, 4))
    if row.startswith('supplied'):
        o['weights'] = 'supplied'
    if row in ('prior-list-wrong-length', 'prior-entry-not-obs-or-str'):
        o['priors'] = 'list'
    if row in ('prior-key-not-int', 'prior-position-out-of-range', 'prior-without-error'):
        o['priors'] = 'dict-obs'
    prob = make_problem(ctx, rng, o)
    ys = prob['ys']
    dy = np.array([float(v.dvalue) for v in ys])
    Lcanon = supplied_factor(rng, dy) if o['weights'] == 'supplied' else None
    res, sol, info = fit_and_judge(ctx, prob, o, 'rejection:valid-twin', 'valid twin of ' + row, Lcanon=Lcanon)
    if res is None:
        return
    x, y, f, pri, kw = build_call(prob, base_presentation(prob), o, Lcanon)
    keys = sorted(x)
    k0, k1 = keys[0], keys[1]
    fit = lambda x_=x, y_=y, f_=f, pri_=pri, **over: pe.fits.least_squares(x_, y_, f_, priors=pri_, silent=True, **dict(kw, **over))
    inputs = unique_inputs(prob)
    E = expect_rejection
    if row == 'mixed-dict-and-list':
        E(ctx, row, (TypeError,), lambda: fit(x_=x[k0], y_=y, f_=f), inputs, 'All arguments have to be dictionaries')
    elif row == 'y-keys-differ':
        # equal number of keys, one differs only by a prefix trap
        E(ctx, row, (ValueError,), lambda: fit(y_={k0: y[k0], k1 + '1': y[k1]}), inputs, 'x and y dictionaries do not contain the same keys')
    elif row == 'func-keys-differ':
        E(ctx, row, (ValueError,), lambda: fit(f_={k0: f[k0], k1.upper() + '_': f[k1]}), inputs, 'x and func dictionaries do not contain the same keys')
    elif row == 'x-three-dimensional':
        E(ctx, row, (ValueError,), lambda: fit(x_={q: np.asarray(x[q], dtype=float).reshape(1, 1, -1) for q in keys}), inputs, 'Unknown format for x values')
    elif row == 'y-without-error':
        v = ys[int(rng.integers(0, len(ys)))]
        fresh = pe.Obs([v.deltas[n] + v.r_values[n] for n in v.names], list(v.names), idl=[v.idl[n] for n in v.names]) if not v.cov_names else None
        if fresh is None:
            raise Skip()
        y2 = {q: [fresh if w is v else w for w in y[q]] for q in keys}
        E(ctx, row, (Exception,), lambda: fit(y_=y2), inputs, 'No y errors available')
    elif row == 'func-not-callable':
        E(ctx, row, (TypeError,), lambda: fit(f_={k0: f[k0], k1: 'not a function'}), inputs, 'is not a function')
    elif row == 'x-y-length-differ':
        E(ctx, row, (ValueError,), lambda: fit(x_={k0: list(x[k0]) + [9.9], k1: x[k1]}), inputs, 'do not have the same length')
    elif row == 'combined-function-wrong-shape':
        const = lambda p, xx: p[0]                       # a constant without '+ 0 * x': documented hint in the message
        E(ctx, row, (ValueError,), lambda: fit(f_={k0: f[k0], k1: const}), inputs, 'returns the wrong shape')
    elif row == 'prior-list-wrong-length':
        E(ctx, row, (ValueError,), lambda: fit(pri_=list(pri)[:-1]), inputs, "'priors' does not have the correct length")
    elif row == 'prior-key-not-int':
        m0 = list(pri)[0]
        E(ctx, row, (TypeError,), lambda: fit(pri_={(str(m) if m == m0 else m): v for m, v in pri.items()}), inputs, 'Prior position needs to be an integer')
    elif row == 'prior-position-out-of-range':
        m0 = list(pri)[0]
        E(ctx, row, (ValueError,), lambda: fit(pri_={(prob['k'] if m == m0 else m): v for m, v in pri.items()}), inputs, 'Prior position out of range')
    elif row == 'priors-wrong-type':
        E(ctx, row, (TypeError,), lambda: fit(pri_=tuple('1.0(1)' for _ in range(prob['k']))), inputs, 'Unkown type for `priors`')
    elif row == 'prior-without-error':
        m0 = list(pri)[0]
        fresh = pe.Obs([pri[m0].deltas[n] + pri[m0].r_values[n] for n in pri[m0].names], list(pri[m0].names))
        E(ctx, row, (Exception,), lambda: fit(pri_=dict(pri, **{})) if False else fit(pri_={m: (fresh if m == m0 else v) for m, v in pri.items()}), inputs, 'No prior errors available')
    elif row == 'initial-guess-wrong-length':
        E(ctx, row, (ValueError,), lambda: fit(initial_guess=[0.5] * (prob['k'] + int(rng.choice([-1, 1])))), inputs, 'Initial guess does not have the correct length')
    elif row == 'supplied-matrix-wrong-size':
        L, kl = kw['inv_chol_cov_matrix']
        E(ctx, row, (TypeError,), lambda: fit(inv_chol_cov_matrix=[L[:-1, :-1], kl]), inputs, 'number of columns of the inverse covariance matrix')
    elif row == 'supplied-matrix-not-square':
        L, kl = kw['inv_chol_cov_matrix']
        E(ctx, row, (TypeError,), lambda: fit(inv_chol_cov_matrix=[L[:, :-1], kl]), inputs, 'same number of rows as columns')
    elif row == 'supplied-matrix-keys':
        L, kl = kw['inv_chol_cov_matrix']
        E(ctx, row, (ValueError,), lambda: fit(inv_chol_cov_matrix=[L, list(kl)[::-1]]), inputs, 'keys of inverse covariance matrix')
    elif row == 'supplied-matrix-not-lower-triangular':
        L, kl = kw['inv_chol_cov_matrix']
        almost = L.copy()
        almost[0, -1] = 1e-13 * abs(L[0, 0])             # lower triangular up to one entry of relative size 1e-13: still not a Cholesky factor
        E(ctx, row, (ValueError,), lambda: fit(inv_chol_cov_matrix=[[L.T.copy(), -L, almost][(idx // 24) % 3], kl]), inputs, 'has to be a lower triangular matrix')
    elif row == 'prior-entry-not-obs-or-str':
        bad = list(pri)
        bad[int(rng.integers(0, len(bad)))] = float(prob['ptrue'][0])
        E(ctx, row, (TypeError,), lambda: fit(pri_=bad), inputs, "Prior entries need to be 'Obs' or 'str'")
    elif row == 'function-with-wrong-signature':
        # a function that cannot be called as func(p, x) for any number of parameters (here: a third mandatory argument)
        bad = lambda p, xx, extra: p[0] + p[1] * xx
        E(ctx, row, (RuntimeError,), lambda: fit(f_={k0: f[k0], k1: bad}), inputs, 'is not valid')
    elif row == 'singular-hessian':
        # a parameter that enters nowhere and has no prior: the Hessian is exactly singular and the library must refuse
        kk = prob['k']
        f2 = {q: (lambda p, xx, g=f[q]: g(p, xx) + 0 * p[kk]) for q in keys}
        E(ctx, row, (Exception,), lambda: fit(f_=f2), inputs, 'Cannot invert hessian matrix')
    else:
        T = 6
        n = 40
        cont = [pe.Obs([1.0 + 0.2 * t + 0.05 * np.sqrt(n) * rng.normal(size=n)], ['ens'], idl=[range(1, n + 1)]) for t in range(T)]
        corr = pe.Corr(cont)
        corr.gamma_method()
        g = lambda p, xx: p[0] + p[1] * xx
        if row == 'Corr.fit-matrix-correlator':
            mats = [np.array([[cont[t], cont[t]], [cont[t], cont[t]]]) for t in range(T)]
            E(ctx, row, (ValueError,), lambda: pe.Corr(mats).fit(g, [1, 4], silent=True), cont, 'must be projected before fitting')
        elif row == 'Corr.fit-range-not-list':
            E(ctx, row, (TypeError,), lambda: corr.fit(g, (1, 4), silent=True), cont, 'fitrange has to be a list')
        else:
            E(ctx, row, (ValueError,), lambda: corr.fit(g, [1, 4, 5], silent=True), cont, 'exactly two elements')
    ctx.cell('rejection', row)


def run_degenerate_case(ctx, idx, rng):
    """Checklist items 16-18: central values exactly 0.0 (first data point, a prior), falsy but valid options, members the library's own ==
    cannot tell apart (copies, copies shifted by 1e-12) next to the original, equal central values on different data."""
    pe = PE
    variant = ['first-point-exactly-zero', 'all-points-exactly-zero-mean', 'prior-exactly-zero', 'falsy-options', 'empty-prior-dict', 'equal-copies',
               'copy-shifted-1e-12', 'prior-is-copy-of-data-point', 'equal-central-values', 'one-point-with-tiny-error', 'one-point-of-tiny-size'][idx % 11]
    o = hard_options(idx // 11, rng, weights=WEIGHTS[(idx // 11) % 3] if variant not in ('equal-copies', 'copy-shifted-1e-12', 'prior-is-copy-of-data-point') else ['diag', 'supplied'][(idx // 11) % 2],
                     method=METHODS[(idx // 33) % 4])
    o['mode'] = 'shared' if o['weights'] == 'estimated' else str(rng.choice(['indep', 'shared']))
    if variant in ('prior-exactly-zero', 'prior-is-copy-of-data-point'):
        o['k'] = int(rng.integers(2, 5))
    prob = make_problem(ctx, rng, o)
    sets, k = prob['sets'], prob['k']
    extra = {}

    def reanalysed(new, like):
        gm(new, **GM[id(like)][1])
        return new

    def copy_of(v, shift=0.0, tag=None):
        names = [n for n in v.names if n not in v.cov_names]
        c = pe.Obs([v.deltas[n] + v.r_values[n] + shift for n in names], names, idl=[v.idl[n] for n in names])
        c.tag = tag
        return reanalysed(c, v)
    spec = []
    if variant == 'first-point-exactly-zero':
        v = sets[0]['y'][0]
        sets[0]['y'] = [reanalysed(v - v.value, v)] + list(sets[0]['y'][1:])
    elif variant == 'all-points-exactly-zero-mean':
        for s_ in sets:
            s_['y'] = [reanalysed(v - v.value, v) for v in s_['y']]
    elif variant == 'prior-exactly-zero':
        m = int(rng.integers(0, k))
        if rng.random() < 0.5:
            spec.append((m, 'str', str(rng.choice(['0.0(3)', '0(1)', '0.00(25)', '-0.0(0.4)']))))
        else:
            P = pe.Obs([0.3 * np.sqrt(40) * rng.normal(size=40)], ['prZero'])
            P = P - P.value
            gm(P, S=1.0)
            spec.append((m, 'obs', P))
    elif variant == 'falsy-options':
        extra = dict(correlated_fit=(o['weights'] != 'diag'), num_grad=False, expected_chisquare=False, resplot=False, qqplot=False, silent=0,
                     initial_guess=[0.0] * k)
        o['num_grad'] = False
    elif variant in ('equal-copies', 'copy-shifted-1e-12'):
        if any(v.cov_names for v in prob['ys']) or len(prob['ys']) < 3:
            raise Skip()
        d = int(rng.integers(0, len(sets)))
        if len(sets[d]['y']) < 2:
            raise Skip()
        i, j = [int(q) for q in rng.choice(len(sets[d]['y']), size=2, replace=False)]
        sets[d]['y'] = list(sets[d]['y'])
        src = sets[d]['y'][i]
        sets[d]['y'][j] = copy_of(src, 1e-12 * abs(src.value) if variant == 'copy-shifted-1e-12' else 0.0, tag='copy')
        if rng.random() < 0.5 and len(sets[d]['y']) >= 3:
            l = [q for q in range(len(sets[d]['y'])) if q not in (i, j)][0]
            sets[d]['y'][l] = src                                    # ... next to a repetition of the identical object
    elif variant == 'prior-is-copy-of-data-point':
        if any(v.cov_names for v in prob['ys']):
            raise Skip()
        v = prob['ys'][int(rng.integers(0, len(prob['ys'])))]
        spec.append((int(rng.integers(0, k)), 'obs', copy_of(v, tag='prior copy')))
    elif variant in ('one-point-with-tiny-error', 'one-point-of-tiny-size'):
        # checklist item 21: tiny in ONE slot only (an error 1e-3 of the others; a central value and error 1e-6 of the others, placed where the
        # model is made to vanish is not possible for a linear basis - the point is simply far below the model, chi-square is large)
        d = int(rng.integers(0, len(sets)))
        j = int(rng.integers(0, len(sets[d]['y'])))
        v = sets[d]['y'][j]
        if v.cov_names:
            raise Skip()
        sets[d]['y'] = list(sets[d]['y'])
        if variant == 'one-point-with-tiny-error':
            sets[d]['y'][j] = reanalysed((v - v.value) * 1e-3 + v.value, v)
        else:
            sets[d]['y'][j] = reanalysed(v * 1e-6, v)
    elif variant == 'equal-central-values':
        c0 = float(prob['ys'][0].value)
        for s_ in sets:
            s_['y'] = [reanalysed(v - v.value + c0, v) for v in s_['y']]
    resync(prob)
    if spec:
        set_priors(prob, spec)
    dy = np.array([float(v.dvalue) for v in prob['ys']])
    Lcanon = supplied_factor(rng, dy) if o['weights'] == 'supplied' else None
    what = 'degenerate %s %s/%s' % (variant, o['method'][:2], o['weights'])
    ctx.cell('degenerate', variant, o['weights'], o['method'][:2])
    if variant == 'empty-prior-dict':
        # an empty dictionary of priors constrains nothing: the fit without priors
        sol = solve_reference(ctx, prob, o, Lcanon)
        x, y, f, pri, kw = build_call(prob, base_presentation(prob), o, Lcanon)
        try:
            res = guarded_fit(ctx, prob, (x, y, f, {}, kw), o['method'], 'priors:empty-dict')
        except ValueError as e:
            ctx.ev()
            ctx.violation('priors:empty-dict:max-of-empty-sequence' if 'max()' in str(e) and 'empty' in str(e) else 'priors:empty-dict:ValueError', {'message': str(e)[:200]})
            ctx.count('degenerate_cases_judged')
            return
        if res is not None:
            judge(ctx, prob, o, res, sol, 'priors:empty-dict', what)
        ctx.count('degenerate_cases_judged')
        return
    res, sol, info = fit_and_judge(ctx, prob, o, 'degenerate:' + variant, what, Lcanon=Lcanon, extra_kw=extra)
    if res is not None:
        if variant in ('first-point-exactly-zero', 'all-points-exactly-zero-mean'):
            ctx.require(all(np.isfinite(float(v.value)) and all(np.all(np.isfinite(d_)) for d_ in v.deltas.values()) and
                            all(np.isfinite(float(r_)) for r_ in v.r_values.values()) for v in res.fit_parameters), 'degenerate:zero-central-value:non-finite-result', what)
        ctx.count('degenerate_cases_judged')
        if info and info['nontriv'] and k >= 2:
            ctx.nontrivial.add(digest([obs_digest(v) for v in prob['ys']], variant, repr(sorted(o.items(), key=str))))
    ctx.sample({'degenerate': variant, 'points': len(prob['ys']), 'first_value': float(prob['ys'][0].value), 'priors': [(m, kind) for m, kind, _ in spec]})



def run_case(ctx, kind, idx, rng):
    GM.clear()
    runner = {'fit': run_fit_case, 'corrfit': run_corr_case, 'alias': run_alias_case, 'history': run_history_case, 'scale': run_scale_case,
              'representation': run_flags_case, 'chain': run_chain_case, 'boundary': run_boundary_case, 'expchisq': run_expchisq_case,
              'spectator': run_spectator_case, 'interface': run_interface_case, 'rejection': run_rejection_case, 'degenerate': run_degenerate_case}[kind]
    runner(ctx, idx, rng)
