"""C10 - matrix operations on matrices of observables satisfy their defining identities.

Oracles
  I1  products: every entry of matmul(A, B, ...) equals the explicit sum of element products, computed with
      dual numbers (ref.matid) and propagated through the dense model of C01 (value, fluctuations on every
      chain, replica means, covariance gradients), real and complex, 2-4 factors, rectangular shapes.
  I2  decompositions: the defining identities, written as polynomial residuals in the entries of the input
      and of the library's result, must vanish as observables: A A^-1 = A^-1 A = 1, L L^T = A (L lower
      triangular), det = cofactor expansion, A v = lambda v with V^T V = 1, characteristic polynomial /
      trace / determinant for eig, the four Penrose conditions, U S V^h = A with orthonormal factors.
      Tolerances are scaled by the condition number (or the inverse spectral gap) of the central matrix.
  I3  jack_matmul / einsum: equal to the exact jackknife computation recomputed from the samples
      (ref.jackmat) and within C/N of the linear product.
"""
import math
import functools

import numpy as np

from .. import taps, gen
from ..ctx import Skip, digest
from ..snap import snap, is_obs, is_cobs, any_digest
from ..compare import compare_obs, drop_null_cov
from ..ref import matid, jackmat, dense

ID = 'C10'
LEVEL = 'exploration'
OPS = ['matmul', 'inv', 'cholesky', 'det', 'eigh', 'eig', 'eigv', 'pinv', 'svd', 'jack_matmul', 'einsum']
DECIDING = ['tap:' + o for o in OPS] + ['histories_judged', 'entries_compared_with_explicit_product', 'identity_residuals_judged', 'jackknife_entries_judged']
RULE = ('cases: matrices 1x1..4x4 (rectangular for svd / pinv / jack_matmul / einsum; matmul needs equal shapes) whose central values are built from a prescribed spectrum '
        '(condition number <= ~10, spectral gaps >= ~0.5), entries Obs / CObs / mixed with plain numbers (float, int, complex), chains: '
        'regular (identical lists, 1-2 replicas), irregular (gapped / irregular lists, nested / overlapping between entries, replica subsets), '
        'two ensembles (+ covariance inputs); operations matmul (2-4 factors), inv, cholesky, det, eigh, eig, eigv, pinv, svd, jack_matmul, '
        'einsum (14 contraction forms, explicit and implicit output subscripts incl. free labels not in alphabetical order of appearance; single chain with regular / irregular list, operands on two different '
        'chains of equal length as a negative row); call histories (original, twin sharing shape / first / last entry / names / lists / '
        'central values, original again); non-trivial: an identity whose terms have non-zero fluctuations was judged on a '
        'matrix of dimension >= 2 (1x1 cases count when an entry is complex or lists had to be aligned); distinct = digest of (operation, '
        'shapes, central values, chain layout)')
ASSUMPTIONS = ['products: direct arithmetic, 1e-13 of sum |gradient| max|fluctuation|; decompositions: 1e-12 x condition number (inverse relative gap) x that scale '
               '(observed residuals <= 1e-15 of it); matrices with condition number up to ~1e3 in the ill-conditioned rows',
               'jackknife: 2e-12 x N x max|sample| (cancellation in the pseudo-values); C/N bound for the agreement with the linear product',
               'replica means are judged for polynomial results (matmul, det), not for decompositions (ordering / sign conventions at the replica means)',
               'complex entries only for the operations documented for CObs (matmul, inv, jack_matmul, einsum); deliberate refusals '
               '(Cholesky of CObs, jackknife export on several chains) are counted, not judged',
               'the scalar reference rule (union of lists, up-weighting) is the one judged by C01']
BUDGET = {'quick': 45, 'thorough': 540}

PE = None
CTX = None


class CountMonitor(taps.Monitor):
    pass


# ------------------------------------------------------------------------------------------
# chains and entries
class Chains:
    def __init__(self, rng, tier, layout):
        self.rng = rng
        self.layout = layout
        pool = list(gen.ENS_POOL)
        rng.shuffle(pool)
        self.e1, self.e2 = pool[0], pool[1]
        nmax = 20 if tier == 'quick' else int(rng.choice([20, 50, 120]))
        self.n = int(rng.integers(8, nmax + 1))
        self.base = {}
        if layout in ('jack_other_configs', 'jack_other_configs_within'):
            name = '%s|%s' % (self.e1, rng.choice(gen.REP_POOL))
            n_ = max(int(self.n), 6)          # the constructor refuses chains with fewer than five samples
            variant = str(rng.choice(['shifted', 'same_ends', 'same_ends']))
            start = int(rng.integers(1, 40))
            if variant == 'shifted':
                base_l = list(range(start, start + n_))
                alt = [c + int(rng.choice([1, 2, n_])) for c in base_l]
            else:
                span = list(range(start + 1, start + 2 * n_))
                base_l = [start] + sorted(rng.choice(span, size=n_ - 2, replace=False).tolist()) + [start + 2 * n_]
                alt = list(base_l)
                while alt == base_l:
                    alt = [start] + sorted(rng.choice(span, size=n_ - 2, replace=False).tolist()) + [start + 2 * n_]
            self.base[name] = [int(c) for c in base_l]
            self.alt = [int(c) for c in alt]
            self.current = 0
        elif layout == 'jack_two_chains':
            idl = [int(c) for c in gen.rand_idl(rng, self.n, 'contig', as_type='list')]
            other = '%s|r2' % self.e1 if rng.random() < 0.5 else '%s|r1' % self.e2
            self.per_operand = ['%s|r1' % self.e1, other]
            self.current = 0
            for nm in self.per_operand:
                self.base[nm] = idl if rng.random() < 0.5 else [c + 3 for c in idl]
        elif layout in ('jack', 'jack_irregular'):
            name = self.e1 if rng.random() < 0.3 else '%s|%s' % (self.e1, rng.choice(gen.REP_POOL))
            kind = 'contig' if layout == 'jack' else str(rng.choice(['gapped', 'irregular', 'strided']))
            self.base[name] = [int(c) for c in gen.rand_idl(rng, self.n, kind, as_type='list')]
        elif layout == 'regular':
            for r in gen.rand_reps(rng, 2, allow_bare=True):
                name = self.e1 if r is None else '%s|%s' % (self.e1, r)
                self.base[name] = [int(c) for c in gen.rand_idl(rng, int(rng.integers(8, nmax + 1)), str(rng.choice(['contig', 'strided'])), as_type='list')]
        elif layout == 'irregular':
            for r in gen.rand_reps(rng, 2):
                name = '%s|%s' % (self.e1, r)
                self.base[name] = [int(c) for c in gen.rand_idl(rng, int(rng.integers(8, nmax + 1)), str(rng.choice(['gapped', 'irregular'])), as_type='list')]
        elif layout == 'two_ens':
            self.base['%s|r1' % self.e1] = [int(c) for c in gen.rand_idl(rng, int(rng.integers(8, nmax + 1)), str(rng.choice(['contig', 'gapped'])), as_type='list')]
            for r in gen.rand_reps(rng, 2):
                self.base['%s|%s' % (self.e2, r)] = [int(c) for c in gen.rand_idl(rng, int(rng.integers(8, nmax + 1)), 'contig', as_type='list')]
        else:
            raise ValueError(layout)
        self.cov = None
        self.cov_prob = 0.3 if layout == 'two_ens' else 0.0
        self.aligned = False

    def _chain_list(self, name):
        rng = self.rng
        cfgs = self.base[name]
        if self.layout == 'jack_other_configs' and self.current >= 1:
            return self.alt
        if self.layout == 'jack_other_configs_within' and rng.random() < 0.5:
            return self.alt
        if self.layout != 'irregular':
            if self.layout == 'two_ens' and rng.random() < 0.2:
                self.aligned = True
                return sorted(rng.choice(cfgs, size=max(5, len(cfgs) * 2 // 3), replace=False).tolist())
            return cfgs
        rel = str(rng.choice(['identical', 'identical', 'nested', 'overlapping']))
        if rel == 'identical':
            return cfgs
        self.aligned = True
        if rel == 'nested':
            return sorted(rng.choice(cfgs, size=max(5, len(cfgs) * 2 // 3), replace=False).tolist())
        k = max(1, len(cfgs) // 3)
        return cfgs[k:] + [cfgs[-1] + 1 + i for i in range(k)]

    def obs(self, mean, sigma=0.03):
        rng = self.rng
        names = sorted(self.base)
        if self.layout == 'jack_two_chains':
            names = [self.per_operand[min(self.current, 1)]]
        if self.layout == 'irregular' and len(names) > 1 and rng.random() < 0.25:
            names = [names[int(rng.integers(0, len(names)))]]
            self.aligned = True
        parts = []
        if self.layout == 'two_ens':
            which = str(rng.choice(['first', 'second', 'both']))
            groups = []
            if which in ('first', 'both'):
                groups.append([n for n in names if n.split('|')[0] == self.e1])
            if which in ('second', 'both'):
                groups.append([n for n in names if n.split('|')[0] == self.e2])
            self.aligned = True
        else:
            groups = [names]
        o = None
        for gi, grp in enumerate(groups):
            tab = {}
            for n in grp:
                cfgs = self._chain_list(n)
                m = mean if gi == 0 else 0.0
                tab[n] = {int(c): float(v) for c, v in zip(cfgs, np.clip(rng.normal(size=len(cfgs)), -2.5, 2.5) * sigma + m)}
            if any(len(d_) < 5 for d_ in tab.values()):
                raise Skip()          # a chain of fewer than five configurations cannot be constructed: not a case
            forms = {n: str(rng.choice(['list', 'ndarray', 'native'])) for n in tab}
            oo = gen.table_to_obs(PE, tab, forms)
            o = oo if o is None else o + oo
        if rng.random() < self.cov_prob:
            if self.cov is None:
                self.cov = PE.cov_Obs(0.0, 0.02 ** 2, 'cvM')
            o = o + float(rng.uniform(0.3, 1.5)) * self.cov
        return o


def rand_unitary(rng, n, cplx):
    a = rng.normal(size=(n, n)) + (1j * rng.normal(size=(n, n)) if cplx else 0)
    q, r = np.linalg.qr(a)
    # random column signs / phases (the Householder Q of LAPACK always has determinant (-1)^(n-1))
    ph = np.exp(2j * np.pi * rng.uniform(size=n)) if cplx else rng.choice([-1.0, 1.0], size=n)
    return q * ph


def spaced(rng, k, lo, hi, mingap):
    """k values in [lo, hi] with pairwise distance >= mingap, random signs excluded."""
    for _ in range(200):
        v = np.sort(rng.uniform(lo, hi, size=k))
        if k == 1 or np.min(np.diff(v)) >= mingap:
            return v
    return np.linspace(lo, hi, k)


COND = {'max': 30.0, 'smin': 0.3, 'lo': None}     # the ill-conditioned rows raise max / lower smin for one case


def central_matrix(rng, kind, n, m=None, cplx=False):
    m = n if m is None else m
    k = min(n, m)
    if kind == 'general':
        s = spaced(rng, k, 0.8, 3.0, 0.3)
        if COND['lo'] is not None and k > 1:
            s[0] = COND['lo']                       # one small singular value: condition number 1e2 .. 1e3
        u, v = rand_unitary(rng, n, cplx), rand_unitary(rng, m, cplx)
        return (u[:, :k] * s) @ v[:k, :]
    if kind == 'spd':
        ev = spaced(rng, n, 0.8, 4.0, 0.5)
        if COND['lo'] is not None and n > 1:
            ev[0] = COND['lo']
        q = rand_unitary(rng, n, False)
        a = (q * ev) @ q.T
        return (a + a.T) / 2
    if kind == 'sym':
        ev = spaced(rng, n, -3.0, 4.0, 0.8)
        q = rand_unitary(rng, n, False)
        a = (q * ev) @ q.T
        return (a + a.T) / 2
    if kind == 'realspec':
        ev = spaced(rng, n, -3.0, 4.0, 0.8)
        rng.shuffle(ev)
        s = np.eye(n) + 0.35 * rng.uniform(-1, 1, size=(n, n))
        return s @ np.diag(ev) @ np.linalg.inv(s)
    raise ValueError(kind)


def make_matrix(rng, chains, m0, entries, symmetric=False, force_first_cobs=None):
    """entries: 'Obs' | 'mixed' (real) | 'CObs' | 'cmixed' (complex).  Returns an object array."""
    pe = PE
    n, m = m0.shape
    out = np.empty((n, m), dtype=object)
    cplx = entries in ('CObs', 'cmixed')
    for i in range(n):
        for j in range(m):
            if symmetric and j < i:
                out[i, j] = out[j, i]
                continue
            z = m0[i, j]
            if not cplx:
                z = float(np.real(z))
                r_ = rng.random() if entries == 'mixed' else 1.0
                if r_ < 0.1 and i != j:
                    out[i, j] = 0.0                                      # exactly zero entry (plain number)
                elif r_ < 0.18 and i != j:
                    out[i, j] = 0.0 * chains.obs(1.0)                    # spectator: an observable multiplied by zero
                elif r_ < 0.45:
                    out[i, j] = (int(round(z)) if abs(round(z) - z) < 0.3 and rng.random() < 0.5 else z)
                else:
                    r3 = rng.random()
                    earlier = [out[a_, b_] for a_ in range(n) for b_ in range(m) if (a_, b_) < (i, j) and is_obs(out[a_, b_])]
                    if r3 < 0.05 and i != j:
                        fresh = chains.obs(0.0)
                        out[i, j] = fresh - fresh.value                  # central value exactly 0.0, fluctuations not
                    elif r3 < 0.10 and i != j and earlier:
                        out[i, j] = earlier[int(rng.integers(0, len(earlier)))]          # the very same object in a second entry
                    elif r3 < 0.14 and i != j and earlier:
                        src = earlier[int(rng.integers(0, len(earlier)))]
                        out[i, j] = 1.0 * src                            # equal data in another object with another tag
                        out[i, j].tag = 'copy'
                    elif r3 < 0.18 and i != j and earlier:
                        src = earlier[int(rng.integers(0, len(earlier)))]
                        fresh = chains.obs(z)
                        out[i, j] = fresh - fresh.value + float(src.value)    # equal mean on different data
                    else:
                        out[i, j] = chains.obs(z)
            else:
                z = complex(z)
                r = rng.random() if entries == 'cmixed' else 0.0
                if r < 0.5:
                    out[i, j] = pe.CObs(chains.obs(z.real), chains.obs(z.imag))
                elif r < 0.65:
                    out[i, j] = z
                elif r < 0.75:
                    out[i, j] = float(z.real)
                elif r < 0.9:
                    out[i, j] = chains.obs(z.real)
                else:
                    out[i, j] = pe.CObs(chains.obs(z.real), float(z.imag))
    if not cplx and not any(is_obs(x) for x in out.ravel()):
        out[n - 1, m - 1] = chains.obs(float(np.real(m0[n - 1, m - 1])))
        if symmetric:
            out[m - 1, n - 1] = out[n - 1, m - 1]
    if cplx:
        if not any(is_cobs(x) for x in out.ravel()):
            z = complex(m0[n - 1, m - 1])
            out[n - 1, m - 1] = pe.CObs(chains.obs(z.real), chains.obs(z.imag))
        if force_first_cobs is True and not is_cobs(out[0, 0]):
            z = complex(m0[0, 0])
            out[0, 0] = pe.CObs(chains.obs(z.real), chains.obs(z.imag))
    return out


def sn(o):
    return drop_null_cov(snap(o))


def describe_entry(x):
    if is_obs(x):
        return ('re', sn(x))
    if is_cobs(x):
        re, im = x.real, x.imag
        return ('c', sn(re) if is_obs(re) else float(re), sn(im) if is_obs(im) else float(im))
    if isinstance(x, (complex, np.complexfloating)):
        return ('num', complex(x))
    return ('num', float(x))


def describe(arr):
    arr = np.asarray(arr, dtype=object)
    if arr.ndim == 1:
        return [describe_entry(x) for x in arr]
    return [[describe_entry(arr[i, j]) for j in range(arr.shape[1])] for i in range(arr.shape[0])]


def entry_value(e):
    if e[0] == 'num':
        return e[1]
    if e[0] == 're':
        return e[1]['value']
    re = e[1]['value'] if isinstance(e[1], dict) else e[1]
    im = e[2]['value'] if isinstance(e[2], dict) else e[2]
    return complex(re, im)


def central(desc):
    if desc and isinstance(desc[0], list):
        return np.array([[entry_value(e) for e in row] for row in desc])
    return np.array([entry_value(e) for e in desc])


def has_complex(desc):
    rows = desc if desc and isinstance(desc[0], list) else [desc]
    return any(e[0] == 'c' or (e[0] == 'num' and isinstance(e[1], complex)) for row in rows for e in row)


def numeric(descs, vals):
    """the matrices with the variable values replaced by vals (same order in which a Tape registers them)."""
    it = iter(vals)

    def ev(e):
        if e[0] == 'num':
            return e[1]
        if e[0] == 're':
            return next(it)
        re = next(it) if isinstance(e[1], dict) else e[1]
        im = next(it) if isinstance(e[2], dict) else e[2]
        return complex(re, im)
    out = []
    for d in descs:
        if d and isinstance(d[0], list):
            out.append(np.array([[ev(e) for e in row] for row in d]))
        else:
            out.append(np.array([ev(e) for e in d]))
    return out


def mutated_inputs(ctx, arrs, before_types, op):
    for a, bt in zip(arrs, before_types):
        if [type(x).__name__ for x in np.asarray(a, dtype=object).ravel()] != bt:
            ctx.count('input_matrix_entries_replaced_in_place:' + op)
            return True
    return False


def types_of(arrs):
    return [[type(x).__name__ for x in np.asarray(a, dtype=object).ravel()] for a in arrs]


def bucket(ctx, op, ratio):
    if ratio <= 0 or not math.isfinite(ratio):
        return
    ctx.count('residual_over_scale:%s:1e%+03d' % (op, int(math.floor(math.log10(ratio)))))


def part_of(x, part):
    """real / imaginary part of a library result entry as Obs (or number)."""
    if is_cobs(x):
        return x.real if part == 're' else x.imag
    return x if part == 're' else 0.0


def moving(tape):
    return any(np.any(s['chains'][c][1] != 0) for s in tape.snaps for c in s['chains']) or any(s['cov'] for s in tape.snaps)


# ------------------------------------------------------------------------------------------
def judge_zero(ctx, tape, r, op, ident, what, kappa):
    """r: Dual that the identity claims to vanish (value, every fluctuation, every covariance gradient)."""
    sz = matid.residual_size(tape, r)
    ctx.count('identity_residuals_judged')
    mech = '%s:%s' % (op, ident)
    ctx.count('judged:' + mech)
    ctx.ev()
    vt = 1e-13 * kappa * max(sz['vscale'], 1.0)          # pass 4: was 1e-12 (observed <= 1e-15 kappa)
    if not sz['value'] <= vt:
        ctx.violation(mech + ':value', {'what': what, 'residual': sz['value'], 'tol': vt, 'kappa': kappa})
    ft = kappa * (1e-12 * sz['fscale'] + 1e-14 * sz['dall'])          # pass 4: was 1e-10 / 1e-13 (observed <= 1e-15 kappa x scale)
    if sz['fscale'] > 0:
        bucket(ctx, op, sz['fluct'] / (kappa * (sz['fscale'] + 1e-3 * sz['dall'])) if sz['fluct'] > 0 else 0)
    ctx.ev()
    if not sz['fluct'] <= ft:
        ctx.violation(mech + ':fluctuations', {'what': what, 'residual': sz['fluct'], 'tol': ft, 'scale': sz['fscale'], 'kappa': kappa, 'where': sz['where']})
    if sz['cscale'] > 0:
        ctx.ev()
        if not sz['cov'] <= kappa * (1e-12 * sz['cscale'] + 1e-14 * sz['call']):
            ctx.violation(mech + ':covariance-gradient', {'what': what, 'residual': sz['cov'], 'scale': sz['cscale'], 'kappa': kappa})
    return sz


def judge_zero_matrix(ctx, tape, mat, op, ident, what, kappa):
    for row in mat:
        for r in row:
            judge_zero(ctx, tape, r, op, ident, what, kappa)


def require_array(ctx, got, shape, op, what, want_cobs=None):
    ctx.ev()
    if not isinstance(got, np.ndarray) or got.shape != tuple(shape):
        ctx.violation(op + ':result-shape', {'what': what, 'type': type(got).__name__, 'shape': getattr(got, 'shape', None), 'expected': list(shape)})
        return False
    for x in got.ravel():
        ok = is_cobs(x) if want_cobs else is_obs(x)
        if want_cobs is not None and not ok:
            ctx.violation(op + ':result-entry-type', {'what': what, 'type': type(x).__name__, 'expected': 'CObs' if want_cobs else 'Obs'})
            return False
    return True


def nontrivial(ctx, tape, op, shape_info, mats, chains):
    dim = max(max(np.shape(m)) if np.ndim(m) else 1 for m in mats)
    cplx = any(np.iscomplexobj(m) for m in mats)
    if moving(tape) and (dim >= 2 or cplx or (chains is not None and chains.aligned)):
        ctx.nontrivial.add(digest(op, shape_info, [np.asarray(m) for m in mats], sorted(set(c for s in tape.snaps for c in s['chains']))))


def part_kinds(x):
    """what numpy.vectorize sees when it applies (np.real, np.imag) to an entry: 'obs', 'float' or 'int' per part."""
    if is_cobs(x):
        re, im = x.real, x.imag
    elif is_obs(x):
        re, im = x, 0                      # np.imag of an object that has no .imag is the integer 0
    else:
        re, im = np.real(x), np.imag(x)

    def k(v):
        if is_obs(v):
            return 'obs'
        v = v.item() if isinstance(v, np.ndarray) else v
        return 'int' if isinstance(v, (int, np.integer)) and not isinstance(v, bool) else 'float'
    return k(re), k(im)


def emulate_type_inference_from_first_entry(desc, kinds):
    """the operand as the complex branch of matmul sees it when the part types are taken from its [0, 0] entry:
    'float' -> every entry's part becomes its central value, 'int' -> its truncated central value."""
    def conv(v, kind):
        if kind == 'obs':
            return v
        val = v['value'] if isinstance(v, dict) else v
        return float(val) if kind == 'float' else float(int(val))
    out = []
    for row in desc:
        new = []
        for e in row:
            if e[0] == 'num':
                re, im = complex(e[1]).real, complex(e[1]).imag
            elif e[0] == 're':
                re, im = e[1], 0.0
            else:
                re, im = e[1], e[2]
            new.append(('c', conv(re, kinds[0]), conv(im, kinds[1])))
        out.append(new)
    return out


TWIN_SHIFT = [0.0]


def twin_of(x):
    """an entry with the same names, configuration lists and central value but different fluctuations"""
    if is_cobs(x):
        return PE.CObs(twin_of(x.real) if is_obs(x.real) else x.real, twin_of(x.imag) if is_obs(x.imag) else x.imag)
    # same central value, or a shifted one (a result that remembers the central values of an earlier call is then wrong as well)
    return -0.5 * x + 1.5 * x.value + (0.0 if TWIN_SHIFT[0] == 0 else TWIN_SHIFT[0])


def history_check(ctx, rng, fn, arrays, op, judge=None, baseline=None):
    """Call fn on the arrays, then on twin arrays that share shape, first and last entry objects, names, lists and central values
    (one interior entry has other fluctuations), then on the original again: the results for the original must be identical
    whatever was computed in between (identity- or summary-keyed caching); the twin is judged by the same oracle."""
    cand = [(k, idx) for k, a in enumerate(arrays) if isinstance(a, np.ndarray) and a.dtype == object
            for idx in np.ndindex(a.shape) if (is_obs(a[idx]) or is_cobs(a[idx])) and idx != (0, 0) and idx != tuple(d - 1 for d in a.shape)]
    if not cand:
        return
    k, idx = cand[int(rng.integers(0, len(cand)))]
    twins = [np.array(a, copy=True) for a in arrays]
    TWIN_SHIFT[0] = 0.0 if rng.random() < 0.5 else float(rng.choice([-0.07, 0.07]))
    twins[k][idx] = twin_of(arrays[k][idx])
    if twins[k].shape[0] == twins[k].shape[1] and arrays[k][idx[::-1]] is arrays[k][idx]:
        twins[k][idx[::-1]] = twins[k][idx]                    # keep symmetric matrices symmetric
    first = fn(*[np.array(a, copy=True) for a in arrays])
    if judge is not None:
        judge(ctx, twins)
    else:
        other = fn(*[np.array(a, copy=True) for a in twins])
        # no separate oracle here: at least the changed fluctuations must show up in the result
        ctx.require(any_digest(other) != any_digest(first), op + ':result-ignores-a-changed-entry', {'op': op, 'changed_entry': (k, idx)})
    again = fn(*[np.array(a, copy=True) for a in arrays])
    ctx.count('histories_judged')
    if baseline is not None:
        ctx.require(any_digest(first) == any_digest(baseline), op + ':result-depends-on-call-history', {'op': op, 'note': 'differs from the first (judged) call'})
    ctx.require(any_digest(first) == any_digest(again), op + ':result-depends-on-call-history', {'op': op, 'changed_entry': (k, idx)})


INT_TAG = 'derived_observable:plain-int-as-first-entry-truncates-all-central-values-to-integers'


def run_with_diagnosis(ctx, arrays, judge):
    """judge(ctx_like, arrays) = library call + oracle.  When the first entry handed to the library is a plain
    Python int and the judgement fails, the case is re-run with that entry as a float: if the failure
    disappears, the cause is the integer (one violation with its own tag); otherwise the original violations stand."""
    first = np.asarray(arrays[0], dtype=object).ravel()[0]
    if type(first) is not int:
        judge(ctx, arrays)
        return

    def attempt(arrs):
        t = ctx.trial()
        try:
            judge(t, arrs)
        except Skip:
            raise
        except Exception as e:
            origin, tag = ctx.classify_exception(e)
            if origin != 'library':
                raise
            t.violation(tag, {'error': repr(e)[:300]})
        return t
    t = attempt(arrays)
    if t.violations:
        arrays2 = [np.array(a, dtype=object, copy=True) if isinstance(a, np.ndarray) and a.dtype == object else a for a in arrays]
        arrays2[0].ravel()[0] = float(first)
        t2 = attempt(arrays2)
        if not t2.violations:
            ctx.ev()
            ctx.count('int_first_entry_cause_confirmed_by_rerun_with_float')
            ctx.violation(INT_TAG, {'first_entry': first, 'observed_as': t.violations[0]['mechanism'], 'detail': t.violations[0]['detail']})
            ctx.evaluations += t.evaluations
            for k, v in t.counters.items():
                ctx.count(k, v)
            return
    ctx.absorb(t)


# ------------------------------------------------------------------------------------------
# I1 matmul
def case_matmul(ctx, rng, nfac, entries, layout):
    pe = PE
    n = int(rng.integers(1, 5)) if ctx.tier == 'thorough' or rng.random() < 0.3 else int(rng.integers(1, 4))
    chains = Chains(rng, ctx.tier, layout)
    cplx = entries in ('CObs', 'cmixed')
    ops = []
    for k in range(nfac):
        m0 = rng.uniform(-1.5, 1.5, size=(n, n)) + (1j * rng.uniform(-1.5, 1.5, size=(n, n)) if cplx else 0)
        ent = entries
        if k > 0 and rng.random() < 0.2:
            # an operand that is a plain-number matrix / a real matrix among complex ones
            if rng.random() < 0.5:
                ops.append(np.real(m0).astype(float) if (not cplx or rng.random() < 0.5) else m0.astype(complex))
                continue
            ent = 'Obs'
        ops.append(make_matrix(rng, chains, m0, ent))
    ctx.cell('matmul%d' % nfac, 'dim%d' % n, entries, layout)

    def compare_product(c, got, descs, expect_complex, what):
        tape = matid.Tape()
        duals = [matid.matrix_duals(tape, d) for d in descs]
        prod = functools.reduce(matid.mm, duals)
        for i in range(n):
            for j in range(n):
                for part in (('re', 'im') if expect_complex else ('re',)):
                    g = part_of(got[i, j], part)

                    def f(vals, _i=i, _j=j, _p=part):
                        mats = numeric(descs, vals)
                        z = functools.reduce(np.matmul, mats)[_i, _j]
                        return float(np.real(z)) if _p == 're' else float(np.imag(z))
                    ref, scale, _, vscale = matid.propagate_part(tape, prod[i][j], part, f)
                    c.count('entries_compared_with_explicit_product')
                    if not is_obs(g):
                        c.ev()
                        if any(tape.grads(prod[i][j], part)):
                            c.violation('matmul:part-is-number-but-depends-on-observables', {'what': what, 'part': part})
                        continue
                    compare_obs(c, g, ref, 'matmul:%s:differs-from-explicit-sum-of-products' % ('complex-' + part if expect_complex else 'real'),
                                scale=scale, rtol=1e-13, vtol=1e-13, what=what, value_scale=max(vscale, abs(ref['value']), 1e-300), rv_tol=1e-13)
        return tape

    def judge(c, ops):
        descs = [describe(o) for o in ops]
        expect_complex = any(has_complex(d) for d in descs)
        first_entries = [np.asarray(o, dtype=object)[0, 0] for o in ops]
        holds_obs = [any(is_obs(y) or is_cobs(y) for y in np.asarray(o, dtype=object).ravel()) for o in ops]
        any_cobs = any(is_cobs(x) for o in ops for x in np.asarray(o, dtype=object).ravel())
        what = 'matmul %d factors n=%d entries=%s layout=%s' % (nfac, n, entries, layout)
        types00 = [type(x).__name__ for x in first_entries]
        # operands of a complex product that hold observables but whose [0, 0] entry has a plain-number real or imaginary part
        kinds = [part_kinds(x) for x in first_entries]
        complex_branch = any(is_cobs(x) for x in first_entries)
        suspects = [k for k in range(len(ops)) if complex_branch and holds_obs[k] and kinds[k] != ('obs', 'obs')]
        work = [np.array(o, copy=True) for o in ops]
        bt = types_of(work)
        try:
            got = pe.linalg.matmul(*work)
        except AttributeError as e:
            if any_cobs and not any(is_cobs(x) for x in first_entries) and 'cov_names' in str(e):
                c.ev()
                c.violation('matmul:complex-operands-recognised-only-by-their-[0,0]-entry', {'what': what, 'error': repr(e), 'types_at_00': types00})
                return
            raise
        except TypeError as e:
            if suspects and 'Obs' in str(e):
                c.ev()
                c.violation('matmul:complex-branch-infers-the-entry-type-of-an-operand-from-its-[0,0]-entry',
                            {'what': what, 'symptom': 'TypeError', 'error': repr(e), 'types_at_00': types00})
                return
            raise
        mutated_inputs(c, work, bt, 'matmul')
        if not require_array(c, got, (n, n), 'matmul', what, want_cobs=expect_complex):
            return
        if SECOND_CALL[0]:
            c.count('second_calls_with_the_same_argument_object')
            c.require(any_digest(pe.linalg.matmul(*work)) == any_digest(got), 'matmul:second-call-with-the-same-argument-object-differs', {'what': what})
        if suspects:
            t = c.trial()
            tape = compare_product(t, got, descs, expect_complex, what)
            if t.violations:
                # cause check: the result is the product in which the parts of those operands are converted to the type of the [0, 0] entry
                descs2 = [emulate_type_inference_from_first_entry(d, kinds[k]) if k in suspects else d for k, d in enumerate(descs)]
                t2 = c.trial()
                compare_product(t2, got, descs2, expect_complex, what)
                if not t2.violations:
                    c.ev()
                    c.count('plain_number_at_00_cause_confirmed')
                    c.violation('matmul:complex-branch-infers-the-entry-type-of-an-operand-from-its-[0,0]-entry',
                                {'what': what, 'symptom': 'parts of every entry of the operand are converted to plain numbers (fluctuations dropped)', 'types_at_00': types00, 'part_kinds_at_00': kinds,
                                 'observed_as': t.violations[0]['mechanism'], 'detail': t.violations[0]['detail']})
                    return
            c.absorb(t)
        else:
            tape = compare_product(c, got, descs, expect_complex, what)
        nontrivial(c, tape, 'matmul', (nfac, n), [central(d) for d in descs], chains)
        c.sample({'op': 'matmul', 'factors': nfac, 'n': n, 'entries': entries, 'layout': layout, 'central': [central(d) for d in descs],
                  'result00': got[0, 0].real.value if is_cobs(got[0, 0]) else got[0, 0].value})
    run_with_diagnosis(ctx, ops, judge)
    if n >= 2 and rng.random() < 0.6 and type(np.asarray(ops[0], dtype=object)[0, 0]) is not int:
        history_check(ctx, rng, pe.linalg.matmul, ops, 'matmul', judge)


# ------------------------------------------------------------------------------------------
# I2 decompositions
def mean_symmetrise(ctx, rng, chains, a):
    """Equal elements: the matrix of MEAN values becomes exactly symmetric although [i, j] and [j, i] hold different things -
    an independent observable with the same mean, a plain number with the value of the observable opposite, or a zero-mean
    observable opposite a plain 0.  (Anything that looks only at the central values cannot tell it from a symmetric matrix.)"""
    n = a.shape[0]
    for i in range(n):
        for j in range(i + 1, n):
            up = a[i, j]
            target = float(up.value) if is_obs(up) else float(up)
            how = str(rng.choice(['independent', 'independent', 'number', 'zero']))
            if how == 'number' and not is_obs(up):
                how = 'independent'
            if how == 'independent':
                fresh = chains.obs(target)
                # exactly equal means, or NEARLY equal ones (relative 1e-9 / 1e-6): a tolerance-based symmetry test must not decide anything
                near = float(rng.choice([0.0, 0.0, 1e-9, 1e-6]))
                a[j, i] = fresh - fresh.value + target * (1.0 + near)
                if near:
                    ctx.count('nearly_symmetric_pairs')
            elif how == 'number':
                a[j, i] = target
            else:
                fresh = chains.obs(0.0)
                a[i, j] = 0.0
                a[j, i] = fresh - fresh.value
            ctx.cell('mean_symmetric_pair', how)
    ctx.count('mean_symmetric_matrices')
    return a


def square_case(ctx, rng, n, entries, layout, kind, symmetric=False, cov_prob=None, mean_symmetric=False):
    chains = Chains(rng, ctx.tier, layout)
    if cov_prob is not None:
        chains.cov_prob = cov_prob
    cplx = entries in ('CObs', 'cmixed')
    m0 = central_matrix(rng, kind, n, cplx=cplx)
    a = make_matrix(rng, chains, m0, entries, symmetric=symmetric)
    if mean_symmetric:
        a = mean_symmetrise(ctx, rng, chains, a)
    return chains, a


SECOND_CALL = [False]


def call(c, fn, a, op):
    """library call on a copy of the caller's array; telemetry when the library replaced entries of its argument."""
    work = np.array(a, copy=True)
    bt = types_of([work])
    res = fn(work)
    mutated_inputs(c, [work], bt, op)
    if SECOND_CALL[0]:
        # the same argument object once more (whatever the first call did to it, the caller's second use must give the same result)
        c.count('second_calls_with_the_same_argument_object')
        c.require(any_digest(fn(work)) == any_digest(res), op + ':second-call-with-the-same-argument-object-differs', {'op': op})
    return res


def case_inv(ctx, rng, n, entries, layout, ms=False):
    pe = PE
    chains, a = square_case(ctx, rng, n, entries, layout, 'spd' if ms else 'general', mean_symmetric=ms)
    ctx.cell('inv', 'dim%d' % n, entries, layout)

    def judge(c, arrs):
        a, = arrs
        desc = describe(a)
        mc = central(desc)
        cond = float(np.linalg.cond(mc))
        if not cond < COND['max']:
            raise Skip()
        what = 'inv n=%d entries=%s layout=%s cond=%.1f' % (n, entries, layout, cond)
        any_cobs = any(is_cobs(x) for x in a.ravel())
        got = call(c, pe.linalg.inv, a, 'inv')
        if not require_array(c, got, (n, n), 'inv', what, want_cobs=any_cobs):
            return
        tape = matid.Tape()
        A = matid.matrix_duals(tape, desc)
        B = matid.matrix_duals(tape, describe(got))
        one = matid.eye(n)
        judge_zero_matrix(c, tape, matid.sub(matid.mm(A, B), one), 'inv', 'A-times-inverse-not-identity', what, cond)
        judge_zero_matrix(c, tape, matid.sub(matid.mm(B, A), one), 'inv', 'inverse-times-A-not-identity', what, cond)
        nontrivial(c, tape, 'inv', n, [mc], chains)
        c.sample({'op': 'inv', 'n': n, 'entries': entries, 'layout': layout, 'central': mc, 'cond': cond})
    run_with_diagnosis(ctx, [a], judge)
    if n >= 2 and type(a[0, 0]) is not int:
        history_check(ctx, rng, pe.linalg.inv, [a], 'inv', judge)


def case_cholesky(ctx, rng, n, entries, layout):
    pe = PE
    chains, a = square_case(ctx, rng, n, entries, layout, 'spd', symmetric=True)
    ctx.cell('cholesky', 'dim%d' % n, entries, layout)

    def judge(c, arrs):
        a, = arrs
        desc = describe(a)
        mc = np.real(central(desc))
        ev = np.linalg.eigvalsh(mc)
        if not (ev[0] > COND['smin'] and ev[-1] / ev[0] < COND['max']):
            raise Skip()
        cond = float(ev[-1] / ev[0])
        what = 'cholesky n=%d entries=%s layout=%s cond=%.1f' % (n, entries, layout, cond)
        got = call(c, pe.linalg.cholesky, a, 'cholesky')
        if not require_array(c, got, (n, n), 'cholesky', what, want_cobs=False):
            return
        tape = matid.Tape()
        A = matid.matrix_duals(tape, desc)
        Ld = describe(got)
        L = matid.matrix_duals(tape, Ld)
        judge_zero_matrix(c, tape, matid.sub(matid.mm(L, matid.transpose(L)), A), 'cholesky', 'L-LT-differs-from-A', what, cond)
        for i in range(n):
            for j in range(n):
                s = Ld[i][j][1]
                if j > i:
                    c.ev()
                    if s['value'] != 0 or any(np.any(v[1] != 0) for v in s['chains'].values()) or any(np.any(v[1] != 0) for v in s['cov'].values()):
                        c.violation('cholesky:factor-not-lower-triangular', {'what': what, 'at': (i, j), 'value': s['value']})
                elif i == j:
                    c.require(s['value'] > 0, 'cholesky:diagonal-not-positive', {'what': what, 'value': s['value']})
        nontrivial(c, tape, 'cholesky', n, [mc], chains)
    run_with_diagnosis(ctx, [a], judge)


def tidy_residue(got, ref, snaps, gabs, rtol):
    """rounding residue (<= rtol * sum_k gabs_k max|input_k|) on a chain / covariance input where the reference is exactly zero is
    set to zero on both sides before the field-by-field comparison (which scales by the result itself)."""
    g = sn(got)
    g = dict(g, chains=dict(g['chains']), cov=dict(g['cov']))
    for c in list(ref['chains']):
        term = sum(ga * (float(np.max(np.abs(s_['chains'][c][1]))) if c in s_['chains'] and len(s_['chains'][c][1]) else 0.0) for s_, ga in zip(snaps, gabs))
        if c in g['chains'] and term > 0:
            rd, gd = ref['chains'][c][1], g['chains'][c][1]
            if len(rd) == len(gd) and np.max(np.abs(rd), initial=0.0) <= rtol * term and np.max(np.abs(gd), initial=0.0) <= rtol * term:
                ref['chains'][c] = (ref['chains'][c][0], np.zeros(len(rd)), ref['chains'][c][2])
                g['chains'][c] = (g['chains'][c][0], np.zeros(len(gd)), g['chains'][c][2])
    for n_ in list(ref['cov']):
        term = sum(ga * float(np.max(np.abs(s_['cov'][n_][1]))) for s_, ga in zip(snaps, gabs) if n_ in s_['cov'])
        if n_ in g['cov'] and term > 0:
            rg, gg = np.asarray(ref['cov'][n_], dtype=float), g['cov'][n_][1]
            if np.max(np.abs(rg), initial=0.0) <= rtol * term and np.max(np.abs(gg), initial=0.0) <= rtol * term:
                ref['cov'][n_] = np.zeros(np.shape(rg))
                g['cov'][n_] = (g['cov'][n_][0], np.zeros(np.shape(gg)))
    return g


def case_det(ctx, rng, n, entries, layout, ms=False):
    pe = PE
    chains, a = square_case(ctx, rng, n, entries, layout, 'spd' if ms else 'general', cov_prob=0.5, mean_symmetric=ms)
    desc = describe(a)
    mc = np.real(central(desc))
    cond = float(np.linalg.cond(mc))
    if not cond < COND['max']:
        raise Skip()
    what = 'det n=%d entries=%s layout=%s cond=%.1f' % (n, entries, layout, cond)
    ctx.cell('det', 'dim%d' % n, entries, layout)
    got = call(ctx, PE.linalg.det, a, 'det')
    ctx.ev()
    if not is_obs(got):
        ctx.violation('det:result-type', {'what': what, 'type': type(got).__name__})
        return
    tape = matid.Tape()
    A = matid.matrix_duals(tape, desc)
    d = matid.det_cofactor(A)
    d2 = matid.det_leibniz(A)
    if abs(d.v - d2.v) > 1e-12 * (1 + abs(d.v)):
        raise AssertionError('reference determinants disagree')

    def f(vals):
        return float(np.linalg.det(np.real(numeric([desc], vals)[0])))
    ref, scale, _, vscale = matid.propagate_part(tape, d, 're', f)
    ctx.count('identity_residuals_judged')
    # entries whose cofactor vanishes exactly (a zero entry opposite) have derivative 0 in the expansion and rounding residue of
    # the size eps * cond * |det| in det * inv^T: residue is measured against |det| x (size of the inputs on that chain / covariance input)
    gnat = [abs(d.v)] * len(tape.snaps)
    scale = max(scale, dense.delta_scale(tape.snaps, gnat))
    got = tidy_residue(got, ref, tape.snaps, gnat, 1e-12 * cond)
    compare_obs(ctx, got, ref, 'det:differs-from-cofactor-expansion', scale=scale, rtol=1e-12 * cond, vtol=1e-13 * cond, what=what,
                value_scale=max(vscale, abs(ref['value']), 1e-300), rv_tol=1e-12 * cond)
    nontrivial(ctx, tape, 'det', n, [mc], chains)


def gap_kappa(ev, norm):
    ev = np.sort(np.real(ev))
    gap = np.min(np.diff(ev)) if len(ev) > 1 else norm
    return float(max(1.0, norm / gap)), float(gap)


def case_eigh(ctx, rng, op, n, entries, layout):
    pe = PE
    chains, a = square_case(ctx, rng, n, entries, layout, 'sym', symmetric=True)
    ctx.cell(op, 'dim%d' % n, entries, layout)

    def judge(c, arrs):
        a, = arrs
        desc = describe(a)
        mc = np.real(central(desc))
        ev0 = np.linalg.eigvalsh(mc)
        norm = float(np.max(np.abs(ev0)))
        kappa, gap = gap_kappa(ev0, max(norm, 1.0))
        if n > 1 and gap < 0.4:
            raise Skip()
        what = '%s n=%d entries=%s layout=%s gap=%.2f' % (op, n, entries, layout, gap)
        if op == 'eigh':
            w, v = call(c, pe.linalg.eigh, a, op)
            c.ev()
            if not isinstance(w, np.ndarray) or w.shape != (n,) or not all(is_obs(x) for x in w):
                c.violation('eigh:eigenvalues-shape-or-type', {'what': what, 'shape': getattr(w, 'shape', None)})
                return
        else:
            v = call(c, pe.linalg.eigv, a, op)
            w = None
        if not require_array(c, v, (n, n), op + ':eigenvectors', what, want_cobs=False):
            return
        tape = matid.Tape()
        A = matid.matrix_duals(tape, desc)
        V = matid.matrix_duals(tape, describe(v))
        if w is not None:
            W = [matid.entry_dual(tape, e) for e in describe(w)]
            wv = [x.v for x in W]
            c.require(all(wv[i] <= wv[i + 1] for i in range(n - 1)), 'eigh:eigenvalues-not-ascending', {'what': what, 'values': wv})
        else:
            W = []                      # Rayleigh quotients of the returned vectors
            for k in range(n):
                col = [[V[i][k]] for i in range(n)]
                W.append(matid.mm(matid.transpose(col), matid.mm(A, col))[0][0])
        for k in range(n):
            col = [[V[i][k]] for i in range(n)]
            av = matid.mm(A, col)
            for i in range(n):
                judge_zero(c, tape, av[i][0] - W[k] * V[i][k], op, 'A-v-differs-from-lambda-v', what, kappa)
        judge_zero_matrix(c, tape, matid.sub(matid.mm(matid.transpose(V), V), matid.eye(n)), op, 'eigenvectors-not-orthonormal', what, kappa)
        if w is not None:
            judge_zero(c, tape, matid.total(W) - matid.trace(A), op, 'sum-of-eigenvalues-differs-from-trace', what, kappa)
            judge_zero(c, tape, matid.product(W) - matid.det_cofactor(A), op, 'product-of-eigenvalues-differs-from-determinant', what, kappa)
        nontrivial(c, tape, op, n, [mc], chains)
        if w is not None:
            c.sample({'op': op, 'n': n, 'entries': entries, 'layout': layout, 'central': mc, 'eigenvalues': [x.value for x in w]})
    run_with_diagnosis(ctx, [a], judge)
    if n >= 2 and type(a[0, 0]) is not int:
        history_check(ctx, rng, pe.linalg.eigh if op == 'eigh' else pe.linalg.eigv, [a], op, judge)


def case_eig(ctx, rng, n, entries, layout, ms=False):
    pe = PE
    chains, a = square_case(ctx, rng, n, entries, layout, 'sym' if ms else 'realspec', mean_symmetric=ms)
    ctx.cell('eig', 'dim%d' % n, entries, layout)

    def judge(c, arrs):
        a, = arrs
        desc = describe(a)
        mc = np.real(central(desc))
        ev0, vec0 = np.linalg.eig(mc)
        if np.any(np.abs(np.imag(ev0)) > 0):
            raise Skip()
        norm = float(max(1.0, np.max(np.abs(ev0))))
        kappa, gap = gap_kappa(ev0, norm)
        kappa *= float(np.linalg.cond(vec0))
        if n > 1 and (gap < 0.4 or np.linalg.cond(vec0) > 30):
            raise Skip()
        what = 'eig n=%d entries=%s layout=%s gap=%.2f' % (n, entries, layout, gap)
        w = call(c, pe.linalg.eig, a, 'eig')
        c.ev()
        if not isinstance(w, np.ndarray) or w.shape != (n,) or not all(is_obs(x) for x in w):
            c.violation('eig:eigenvalues-shape-or-type', {'what': what, 'shape': getattr(w, 'shape', None)})
            return
        tape = matid.Tape()
        A = matid.matrix_duals(tape, desc)
        W = [matid.entry_dual(tape, e) for e in describe(w)]
        for k in range(n):
            shifted = [[A[i][j] - (W[k] if i == j else 0.0) for j in range(n)] for i in range(n)]
            judge_zero(c, tape, matid.det_cofactor(shifted), 'eig', 'characteristic-polynomial-does-not-vanish', what, kappa * norm ** max(0, n - 2))
        judge_zero(c, tape, matid.total(W) - matid.trace(A), 'eig', 'sum-of-eigenvalues-differs-from-trace', what, kappa)
        judge_zero(c, tape, matid.product(W) - matid.det_cofactor(A), 'eig', 'product-of-eigenvalues-differs-from-determinant', what, kappa * norm ** max(0, n - 2))
        nontrivial(c, tape, 'eig', n, [mc], chains)
    run_with_diagnosis(ctx, [a], judge)


def rect_case(ctx, rng, n, m, entries, layout, ms=False):
    chains = Chains(rng, ctx.tier, layout)
    m0 = central_matrix(rng, 'spd' if (ms and n == m) else 'general', n, m)
    a = make_matrix(rng, chains, m0, entries)
    if ms and n == m:
        a = mean_symmetrise(ctx, rng, chains, a)
    return chains, a


def case_pinv(ctx, rng, n, m, entries, layout, ms=False):
    pe = PE
    chains, a = rect_case(ctx, rng, n, m, entries, layout, ms)
    ctx.cell('pinv', 'square%d' % n if n == m else 'rect%dx%d' % (n, m), entries, layout)

    def judge(c, arrs):
        a, = arrs
        desc = describe(a)
        mc = np.real(central(desc))
        s = np.linalg.svd(mc, compute_uv=False)
        if not (s[-1] > COND['smin'] and s[0] / s[-1] < COND['max']):
            raise Skip()
        cond = float(s[0] / s[-1])
        what = 'pinv %dx%d entries=%s layout=%s cond=%.1f' % (n, m, entries, layout, cond)
        got = call(c, pe.linalg.pinv, a, 'pinv')
        if not require_array(c, got, (m, n), 'pinv', what, want_cobs=False):
            return
        tape = matid.Tape()
        A = matid.matrix_duals(tape, desc)
        P = matid.matrix_duals(tape, describe(got))
        AP = matid.mm(A, P)
        PA = matid.mm(P, A)
        k2 = cond ** 2
        judge_zero_matrix(c, tape, matid.sub(matid.mm(AP, A), A), 'pinv', 'A-Aplus-A-differs-from-A', what, k2)
        judge_zero_matrix(c, tape, matid.sub(matid.mm(PA, P), P), 'pinv', 'Aplus-A-Aplus-differs-from-Aplus', what, k2)
        judge_zero_matrix(c, tape, matid.sub(matid.transpose(AP), AP), 'pinv', 'A-Aplus-not-symmetric', what, k2)
        judge_zero_matrix(c, tape, matid.sub(matid.transpose(PA), PA), 'pinv', 'Aplus-A-not-symmetric', what, k2)
        nontrivial(c, tape, 'pinv', (n, m), [mc], chains)
    run_with_diagnosis(ctx, [a], judge)


def case_svd(ctx, rng, n, m, entries, layout, ms=False):
    pe = PE
    chains, a = rect_case(ctx, rng, n, m, entries, layout, ms)
    k = min(n, m)
    ctx.cell('svd', 'square%d' % n if n == m else 'rect%dx%d' % (n, m), entries, layout)

    def judge(c, arrs):
        a, = arrs
        desc = describe(a)
        mc = np.real(central(desc))
        s = np.linalg.svd(mc, compute_uv=False)
        gaps = np.abs(np.diff(s)) if k > 1 else np.array([1.0])
        if not (s[-1] > COND['smin'] and s[0] / s[-1] < COND['max'] and np.min(gaps) > min(0.15, 0.5 * COND['smin'])):
            raise Skip()
        kappa = float(max(s[0] / s[-1], s[0] / np.min(gaps)))
        what = 'svd %dx%d entries=%s layout=%s kappa=%.1f' % (n, m, entries, layout, kappa)
        res = call(c, pe.linalg.svd, a, 'svd')
        c.ev()
        if not isinstance(res, tuple) or len(res) != 3:
            c.violation('svd:result-not-a-triple', {'what': what, 'type': type(res).__name__})
            return
        u, sv, vh = res
        if not (require_array(c, u, (n, k), 'svd:u', what, want_cobs=False) and require_array(c, vh, (k, m), 'svd:vh', what, want_cobs=False)):
            return
        c.ev()
        if not isinstance(sv, np.ndarray) or sv.shape != (k,) or not all(is_obs(x) for x in sv):
            c.violation('svd:singular-values-shape-or-type', {'what': what, 'shape': getattr(sv, 'shape', None)})
            return
        tape = matid.Tape()
        A = matid.matrix_duals(tape, desc)
        U = matid.matrix_duals(tape, describe(u))
        S = [matid.entry_dual(tape, e) for e in describe(sv)]
        VH = matid.matrix_duals(tape, describe(vh))
        svv = [x.v for x in S]
        c.require(all(svv[i] >= svv[i + 1] for i in range(k - 1)) and svv[-1] > 0, 'svd:singular-values-not-descending-positive', {'what': what, 'values': svv})
        judge_zero_matrix(c, tape, matid.sub(matid.mm(U, matid.mm(matid.diag(S), VH)), A), 'svd', 'U-S-Vh-differs-from-A', what, kappa)
        judge_zero_matrix(c, tape, matid.sub(matid.mm(matid.transpose(U), U), matid.eye(k)), 'svd', 'U-not-orthonormal', what, kappa)
        judge_zero_matrix(c, tape, matid.sub(matid.mm(VH, matid.transpose(VH)), matid.eye(k)), 'svd', 'Vh-not-orthonormal', what, kappa)
        nontrivial(c, tape, 'svd', (n, m), [mc], chains)
        c.sample({'op': 'svd', 'shape': (n, m), 'entries': entries, 'layout': layout, 'central': mc, 'singular_values': svv})
    run_with_diagnosis(ctx, [a], judge)


def case_refusals(ctx, rng, which):
    """documented rejections behind the property: Cholesky of CObs must be refused with its message; det of a nested list is either
    refused (TypeError) or right; a jackknife product of entries that live on two replica must be refused by the jackknife export."""
    pe = PE
    chains = Chains(rng, ctx.tier, 'regular')
    n = int(rng.integers(1, 4))
    ctx.cell('refusal', which, n)
    ctx.count('judged:refusal:' + which)
    ctx.ev()
    if which == 'cholesky_cobs':
        m0 = central_matrix(rng, 'spd', n).astype(complex)
        a = make_matrix(rng, chains, m0, str(rng.choice(['CObs', 'cmixed'])), symmetric=True)
        try:
            got = pe.linalg.cholesky(a)
        except Exception as e:
            ctx.require('not implemented for CObs' in str(e), 'cholesky:CObs-not-refused-with-the-documented-message', {'error': repr(e)[:200]})
            ctx.nontrivial.add(digest('refusal', which, central(describe(a))))
            return
        ctx.violation('cholesky:CObs-matrix-accepted', {'result_type': type(np.asarray(got, dtype=object).ravel()[0]).__name__})
    elif which == 'det_list':
        m0 = central_matrix(rng, 'general', n)
        a = make_matrix(rng, chains, m0, 'Obs')
        try:
            got = pe.linalg.det([list(r_) for r_ in a])
        except TypeError:
            ctx.count('det_of_nested_list_refused')
            ctx.nontrivial.add(digest('refusal', which, central(describe(a))))
            return
        tape = matid.Tape()
        dd = matid.det_cofactor(matid.matrix_duals(tape, describe(a)))
        ref, scale, _, vscale = matid.propagate_part(tape, dd, 're')
        compare_obs(ctx, got, ref, 'det:nested-list-differs-from-cofactor-expansion', scale=scale, rtol=1e-10, vtol=1e-11, what='det(list)', value_scale=max(vscale, abs(dd.v), 1e-300))


# ------------------------------------------------------------------------------------------
# I3 jackknife product and einsum
def jack_operands(rng, chains, shapes, entries, first_like_entries=True):
    """observable-valued operands (complex ones: CObs; a later operand may be a real-Obs matrix) or plain-number matrices."""
    cplx = entries == 'CObs'
    ops = []
    for k, shp in enumerate(shapes):
        chains.current = k
        shp2 = shp if len(shp) == 2 else (1, shp[0])
        m0 = rng.uniform(-1.5, 1.5, size=shp2) + (1j * rng.uniform(-1.5, 1.5, size=shp2) if cplx else 0)
        r = rng.random()
        if k > 0 and r < 0.2:
            o = np.real(m0).astype(float) if (not cplx or rng.random() < 0.5) else m0.astype(complex)
        elif cplx and r < 0.35 and (k > 0 or (not first_like_entries and len(shapes) > 1)):
            o = make_matrix(rng, chains, m0, 'Obs')
        else:
            o = make_matrix(rng, chains, m0, entries)
        ops.append(o if len(shp) == 2 else o[0])
    return ops


def judge_jack(ctx, got, samples, layout, op, what, nconf):
    """compare an array (or scalar) of library results with the reference samples (trailing sample axis)."""
    cplx = np.iscomplexobj(samples)
    gotarr = np.asarray(got, dtype=object)
    ctx.ev()
    if gotarr.shape != samples.shape[:-1]:
        ctx.violation(op + ':result-shape', {'what': what, 'got': gotarr.shape, 'expected': samples.shape[:-1]})
        return False
    for idx in np.ndindex(samples.shape[:-1]):
        x = gotarr[idx]
        ctx.ev()
        if (cplx and not is_cobs(x)) or (not cplx and not is_obs(x)):
            ctx.violation(op + ':result-entry-type', {'what': what, 'type': type(x).__name__, 'expected': 'CObs' if cplx else 'Obs'})
            return False
        for part in (('re', 'im') if cplx else ('re',)):
            g = part_of(x, part)
            ctx.ev()
            if not all(np.asarray(d).dtype.kind == 'f' for d in g.deltas.values()):
                ctx.violation(op + ':result-fluctuations-are-not-floats', {'what': what, 'dtypes': [str(np.asarray(d).dtype) for d in g.deltas.values()]})
                return False
            ref = jackmat.as_reference(samples[idx], layout, part)
            sc = nconf * float(np.max(np.abs(samples[idx]))) + 1e-300
            ctx.count('jackknife_entries_judged')
            compare_obs(ctx, g, ref, op + ':differs-from-exact-jackknife-computation', scale=sc, rtol=2e-12, vtol=1e-12, what=what,
                        value_scale=max(float(np.max(np.abs(samples[idx]))), 1e-300), rv_tol=2e-12 * nconf)
    return True


def real_obs_operand_in_complex_product(ops):
    kinds = []
    for o in ops:
        flat = np.asarray(o, dtype=object).ravel()
        kinds.append('CObs' if any(is_cobs(x) for x in flat) else ('Obs' if any(is_obs(x) for x in flat) else 'numbers'))
    return 'CObs' in kinds and 'Obs' in kinds, kinds


def chain_lists(descs):
    """{(chain, configuration list)} over all observable entries of the operands"""
    out = set()
    for d in descs:
        for row in (d if d and isinstance(d[0], list) else [d]):
            for e in row:
                for s_ in e[1:]:
                    if isinstance(s_, dict):
                        for c_, v_ in s_['chains'].items():
                            out.add((c_, tuple(int(i_) for i_ in v_[0])))
    return out


def judge_other_configs(ctx, op, got, descs, what):
    """entries on one chain but on different configurations (equal number): a jackknife routine combines samples index by index, so the
    only admissible outcome is a refusal"""
    cl = chain_lists(descs)
    if len(set(c_ for c_, _ in cl)) == 1 and len(cl) > 1:
        ctx.ev()
        ctx.count('judged:' + op + ':entries-on-different-configurations-of-equal-number-are-combined-index-by-index')
        ctx.violation(op + ':entries-on-different-configurations-of-equal-number-are-combined-index-by-index',
                      {'what': what, 'lists': [list(l_)[:6] for _, l_ in sorted(cl)][:3], 'lengths': sorted(set(len(l_) for _, l_ in cl))})
        return True
    return False


def case_jack(ctx, rng, nfac, entries, layout):
    pe = PE
    big = 4 if ctx.tier == 'thorough' or rng.random() < 0.25 else 3
    dims = [int(rng.integers(1, big + 1)) for _ in range(nfac + 1)]
    if rng.random() < 0.5:
        dims = [max(dims[0], 2)] * (nfac + 1)          # equal shapes: also compared with the linear product
    chains = Chains(rng, ctx.tier, layout)
    ops = jack_operands(rng, chains, [(dims[k], dims[k + 1]) for k in range(nfac)], entries)
    descs = [describe(o) for o in ops]
    what = 'jack_matmul %s entries=%s layout=%s' % ('x'.join(str(d) for d in dims), entries, layout)
    ctx.cell('jack_matmul%d' % nfac, 'dim%d' % max(dims), entries, layout)
    if layout not in ('jack', 'jack_irregular'):
        # entries on several chains: the jackknife export refuses observables that live on more than one chain; a product of
        # operands that live on *different* single chains has no jackknife representation either
        used = sorted(set(c for d in descs for row in d for e in row for s_ in e[1:] if isinstance(s_, dict) for c in s_['chains']))
        try:
            got = pe.linalg.jack_matmul(*[np.array(o, copy=True) for o in ops])
        except Exception as e:
            ctx.count('jack_on_several_chains_refused' if 'one ensemble and replicum' in str(e) else 'jack_on_several_chains_raised:' + type(e).__name__)
            if len(chain_lists(descs)) > 1 and len(set(c_ for c_, _ in chain_lists(descs))) == 1:
                ctx.ev()
                ctx.count('judged:jack_matmul:entries-on-different-configurations-of-equal-number-are-combined-index-by-index')
                ctx.nontrivial.add(digest('jack-other-configs', sorted(chain_lists(descs))))
                return
            raise Skip()
        ctx.count('jack_on_several_chains_returned')
        if judge_other_configs(ctx, 'jack_matmul', got, descs, what):
            return
        if len(used) > 1:
            x = np.asarray(got, dtype=object).ravel()[0]
            x = x.real if is_cobs(x) else x
            ctx.ev()
            if is_obs(x) and sorted(n for n in x.names if n not in x.covobs) != used:
                ctx.violation('jack_matmul:operands-on-different-chains-are-combined-sample-by-sample',
                              {'what': what, 'chains_of_the_operands': used, 'chains_of_the_result': list(x.names)})
            ctx.nontrivial.add(digest('jack-several-chains', used, [central(d) for d in descs]))
            return
        raise Skip()
    samples, lay = jackmat.product(descs)
    nconf = len(lay['idl'])
    mixed_real, kinds = real_obs_operand_in_complex_product(ops)
    got = pe.linalg.jack_matmul(*[np.array(o, copy=True) for o in ops])
    if mixed_real:
        t = ctx.trial()
        judge_jack(t, got, samples, lay, 'jack_matmul', what, nconf)
        if t.violations:
            ctx.ev()
            ctx.violation('jack_matmul:real-Obs-operand-in-a-complex-product-is-multiplied-as-if-it-were-plain-numbers',
                          {'what': what, 'operand_kinds': kinds, 'observed_as': t.violations[0]['mechanism'], 'detail': t.violations[0]['detail']})
            return
        ctx.absorb(t)
    elif not judge_jack(ctx, got, samples, lay, 'jack_matmul', what, nconf):
        return
    # agreement with the linear product (square factors only: matmul needs equal shapes): same value, fluctuations within C / N
    if len(set(dims)) == 1:
        lin = pe.linalg.matmul(*[np.array(o, copy=True) for o in ops])
        D = max([float(np.max(np.abs(v[1]))) for d in descs for row in d for e in row for s_ in e[1:] if isinstance(s_, dict) for v in s_['chains'].values()] + [0.0])
        M = max(float(np.max(np.abs(central(d)))) for d in descs) + D
        bound = 4.0 * nfac ** 2 * max(dims) ** (nfac - 1) * M ** max(0, nfac - 2) * D ** 2 / (nconf - 1)
        cplx = np.iscomplexobj(samples)
        ctx.count('jack_vs_linear_products')
        for idx in np.ndindex(samples.shape[:-1]):
            for part in (('re', 'im') if cplx else ('re',)):
                gj, gl = part_of(got[idx], part), part_of(lin[idx], part)
                if not (is_obs(gj) and is_obs(gl)):
                    continue
                sj, sl = sn(gj), sn(gl)
                ctx.close(sj['value'], sl['value'], 'jack_matmul:value-differs-from-linear-product', what, rtol=1e-12, scale=max(abs(sl['value']), M ** nfac))
                name = lay['name']
                if name in sl['chains']:
                    ctx.close(sj['chains'][name][1], sl['chains'][name][1], 'jack_matmul:fluctuations-not-within-C/N-of-linear-product', what,
                              rtol=0, atol=bound + 1e-13 * nconf * M ** nfac)
    tape = matid.Tape()
    [matid.matrix_duals(tape, d) for d in descs]
    nontrivial(ctx, tape, 'jack_matmul', dims, [central(d) for d in descs], chains)
    if True:
        history_check(ctx, rng, pe.linalg.jack_matmul, ops, 'jack_matmul', baseline=got)
    ctx.sample({'op': 'jack_matmul', 'dims': dims, 'entries': entries, 'layout': layout, 'N': nconf})


EINSUM_FORMS = {
    # name: (explicit subscripts, shapes as functions of (a, b, c))
    'matmul': ('ij,jk->ik', lambda a, b, c: [(a, b), (b, c)]),
    'matmul3': ('ij,jk,kl->il', lambda a, b, c: [(a, b), (b, c), (c, a)]),
    'hadamard': ('ij,ij->ij', lambda a, b, c: [(a, b), (a, b)]),
    'transpose': ('ij->ji', lambda a, b, c: [(a, b)]),
    'trace': ('ii->', lambda a, b, c: [(a, a)]),
    'matvec': ('ij,j->i', lambda a, b, c: [(a, b), (b,)]),
    'outer': ('i,j->ij', lambda a, b, c: [(a,), (b,)]),
    'full': ('ij,ij->', lambda a, b, c: [(a, b), (a, b)]),
    'batched': ('ij,kj->ik', lambda a, b, c: [(a, b), (c, b)]),
    # free labels that do NOT appear in alphabetical order (numpy's implicit rule sorts them: the result is the transpose of
    # what 'order of appearance' would give)
    'rev_matmul': ('kj,ji->ik', lambda a, b, c: [(a, b), (b, c)]),
    'rev_transpose': ('ji->ij', lambda a, b, c: [(a, b)]),
    'rev_letters': ('cb,ba->ac', lambda a, b, c: [(c, b), (b, a)]),
    'rev_three': ('jk,kl,li->ij', lambda a, b, c: [(a, b), (b, c), (c, a)]),
    'rev_hadamard': ('ji,ji->ij', lambda a, b, c: [(a, b), (a, b)]),
    'rev_matvec': ('ji,j->i', lambda a, b, c: [(a, b), (a,)]),
}


def case_einsum(ctx, rng, form, entries, layout, implicit):
    pe = PE
    sub, shp = EINSUM_FORMS[form]
    big = 4 if ctx.tier == 'thorough' or rng.random() < 0.25 else 3
    a, b, c = (int(rng.integers(2, big + 1)) for _ in range(3))
    shapes = shp(a, b, c)
    chains = Chains(rng, ctx.tier, layout)
    ops = jack_operands(rng, chains, shapes, entries, first_like_entries=False)
    if not any(is_obs(x) or is_cobs(x) for x in np.asarray(ops[0], dtype=object).ravel()):
        raise Skip()
    descs = [describe(o) for o in ops]
    lhs, out = sub.split('->')
    call_sub = sub
    if implicit:
        if jackmat.implicit_output(lhs) != out:
            raise Skip()      # numpy's implicit output would be a different one: not this form
        call_sub = lhs
    what = 'einsum %r shapes=%r entries=%s layout=%s' % (call_sub, shapes, entries, layout)
    ctx.cell('einsum', form, 'implicit' if implicit else 'explicit', entries, layout)
    if layout in ('jack_two_chains', 'jack_other_configs', 'jack_other_configs_within'):
        used = sorted(set(c for d in descs for row in (d if isinstance(d[0], list) else [d]) for e in row for s_ in e[1:] if isinstance(s_, dict) for c in s_['chains']))
        try:
            got = pe.linalg.einsum(call_sub, *[np.array(o, copy=True) for o in ops])
        except Exception as e:
            ctx.count('einsum_on_several_chains_raised:' + type(e).__name__)
            if len(chain_lists(descs)) > 1 and len(set(c_ for c_, _ in chain_lists(descs))) == 1:
                ctx.ev()
                ctx.count('judged:einsum:entries-on-different-configurations-of-equal-number-are-combined-index-by-index')
                ctx.nontrivial.add(digest('einsum-other-configs', sorted(chain_lists(descs))))
                return
            raise Skip()
        ctx.count('einsum_on_several_chains_returned')
        if judge_other_configs(ctx, 'einsum', got, descs, what):
            return
        if len(used) > 1:
            x = np.asarray(got, dtype=object).ravel()[0]
            x = x.real if is_cobs(x) else x
            ctx.ev()
            if is_obs(x) and sorted(n for n in x.names if n not in x.covobs) != used:
                ctx.violation('einsum:operands-on-different-chains-are-combined-sample-by-sample',
                              {'what': what, 'chains_of_the_operands': used, 'chains_of_the_result': list(x.names)})
            ctx.nontrivial.add(digest('einsum-several-chains', used, [central(d) for d in descs]))
            return
        raise Skip()
    # implicit mode: numpy's own einsum rule, applied sample by sample in the reference
    samples, lay = jackmat.contraction(call_sub, descs)
    if implicit:
        check, _ = jackmat.contraction(sub, descs)
        if check.shape != samples.shape or not np.array_equal(check, samples):
            raise AssertionError('explicit form %r is not numpy\'s reading of %r' % (sub, call_sub))
    nconf = len(lay['idl'])
    got = pe.linalg.einsum(call_sub, *[np.array(o, copy=True) for o in ops])
    gotarr = np.asarray(got, dtype=object)
    if implicit and gotarr.shape != samples.shape[:-1] and gotarr.ndim == len(samples.shape[:-1]) and gotarr.shape[0] == nconf + 1:
        ctx.ev()
        ctx.violation('einsum:implicit-output-subscripts-put-the-sample-axis-first',
                      {'what': what, 'got_shape': gotarr.shape, 'expected_shape': samples.shape[:-1], 'N': nconf})
        return
    if implicit:
        labels = lhs.replace(',', '')
        appearance = ''.join(l for l in labels if labels.count(l) == 1)
        t = ctx.trial()
        okj = judge_jack(t, got, samples, lay, 'einsum', what, nconf)
        if t.violations and appearance != out:
            alt, _ = jackmat.contraction(lhs + '->' + appearance, descs)
            t2 = ctx.trial()
            judge_jack(t2, got, alt, lay, 'einsum', what, nconf)
            if not t2.violations:
                ctx.ev()
                ctx.violation('einsum:implicit-output-labels-in-order-of-appearance-instead-of-alphabetical',
                              {'what': what, 'numpy_output': out, 'library_output': appearance})
                return
        ctx.absorb(t)
        if not okj:
            return
    elif not judge_jack(ctx, got, samples, lay, 'einsum', what, nconf):
        return
    tape = matid.Tape()
    [matid.matrix_duals(tape, d) if d and isinstance(d[0], list) else [matid.entry_dual(tape, e) for e in d] for d in descs]
    nontrivial(ctx, tape, 'einsum', (form, shapes), [central(d) for d in descs], chains)
    ctx.sample({'op': 'einsum', 'subscripts': call_sub, 'shapes': shapes, 'entries': entries, 'layout': layout, 'N': nconf})


def instrument(ctx):
    """count how often every judgement (mechanism) is evaluated: counters 'judged:<mechanism>' in the evidence; trial contexts
    are instrumented as well (their counters arrive when the trial is absorbed)."""
    if getattr(ctx, '_vmon_instrumented', False):
        return ctx
    ctx._vmon_instrumented = True
    close, equal, require, trial = ctx.close, ctx.equal, ctx.require, ctx.trial

    def c_close(got, exp, mechanism, *a, **k):
        ctx.count('judged:' + mechanism)
        return close(got, exp, mechanism, *a, **k)

    def c_equal(got, exp, mechanism, *a, **k):
        ctx.count('judged:' + mechanism)
        return equal(got, exp, mechanism, *a, **k)

    def c_require(cond, mechanism, *a, **k):
        ctx.count('judged:' + mechanism)
        return require(cond, mechanism, *a, **k)

    def c_trial():
        return instrument(trial())
    ctx.close, ctx.equal, ctx.require, ctx.trial = c_close, c_equal, c_require, c_trial
    return ctx


# ------------------------------------------------------------------------------------------
def setup(ctx):
    global PE, CTX
    import pyerrors as pe
    PE = pe
    CTX = instrument(ctx)
    for o in OPS:
        taps.tap_function(pe.linalg, o, CountMonitor())


def teardown(ctx):
    taps.report(ctx)
    taps.remove_all()


LAYOUTS = ['regular', 'irregular', 'two_ens']
REAL_ENTRIES = ['Obs', 'mixed']
ALL_ENTRIES = ['Obs', 'mixed', 'CObs', 'cmixed']


def plan(tier):
    m = 1 if tier == 'quick' else 25
    p = []
    for nfac in (2, 3, 4):
        for ent in ALL_ENTRIES:
            for lay in LAYOUTS:
                p.append(('matmul:%d:%s:%s' % (nfac, ent, lay), 4 * m))
    for n in (1, 2, 3, 4):
        w = {1: 1, 2: 4, 3: 4, 4: 2}[n]
        for lay in LAYOUTS:
            for ent in ALL_ENTRIES:
                p.append(('inv:%d:%s:%s' % (n, ent, lay), w * m))
            for ent in REAL_ENTRIES:
                for op in ('cholesky', 'det', 'eigh', 'eig', 'eigv'):
                    p.append(('%s:%d:%s:%s' % (op, n, ent, lay), w * m))
    shapes = [(1, 1), (2, 2), (3, 3), (4, 4), (2, 1), (1, 3), (3, 2), (2, 3), (4, 2), (2, 4), (4, 3), (3, 4)]
    for (n, k) in shapes:
        for lay in LAYOUTS:
            for ent in REAL_ENTRIES:
                p.append(('pinv:%d:%d:%s:%s' % (n, k, ent, lay), (2 if n == k and n > 1 else 1) * m))
                p.append(('svd:%d:%d:%s:%s' % (n, k, ent, lay), (2 if n == k and n > 1 else 1) * m))
    # matrices whose MEANS are symmetric while [i, j] and [j, i] are different things (equal elements)
    for n in (2, 3, 4):
        for lay in LAYOUTS:
            p.append(('ms:eig:%d:%s' % (n, lay), 6 * m))
            for op in ('inv', 'det', 'pinv', 'svd'):
                p.append(('ms:%s:%d:%s' % (op, n, lay), 2 * m))
    for nfac in (2, 3, 4):
        for ent in ('Obs', 'CObs'):
            for lay in ('jack', 'jack_irregular'):
                p.append(('jack:%d:%s:%s' % (nfac, ent, lay), 5 * m))
        p.append(('jack:%d:Obs:two_ens' % nfac, 1 * m))
        for lay in ('jack_other_configs', 'jack_other_configs_within'):
            p.append(('jack:%d:%s:%s' % (nfac, 'Obs' if nfac != 3 else 'CObs', lay), 10 * m))
        p.append(('jack:%d:%s:regular' % (nfac, 'Obs' if nfac != 4 else 'CObs'), 6 * m))
        p.append(('jack:%d:%s:jack_two_chains' % (nfac, 'Obs' if nfac != 3 else 'CObs'), 2 * m))
    for op in ('inv', 'det', 'cholesky', 'pinv', 'svd'):
        for n_ in (2, 3, 4):
            p.append(('illcond:%s:%d' % (op, n_), 4 * m))
    for which in ('cholesky_cobs', 'det_list'):
        p.append(('refuse:%s' % which, 26 * m))
    for form in EINSUM_FORMS:
        for ent in ('Obs', 'CObs'):
            for lay in ('jack', 'jack_irregular'):
                p.append(('einsum:%s:%s:%s:explicit' % (form, ent, lay), 2 * m))
        p.append(('einsum:%s:Obs:jack:implicit' % form, 2 * m))
        p.append(('einsum:%s:CObs:jack_irregular:implicit' % form, 1 * m))
    for form in ('matmul', 'hadamard', 'matvec'):
        p.append(('einsum:%s:Obs:jack_two_chains:explicit' % form, 2 * m))
        for lay in ('jack_other_configs', 'jack_other_configs_within'):
            p.append(('einsum:%s:%s:%s:explicit' % (form, 'Obs' if form != 'hadamard' else 'CObs', lay), 10 * m))
    return p


def run_case(ctx, kind, idx, rng):
    k = kind.split(':')
    SECOND_CALL[0] = bool(rng.random() < 0.9)
    if k[0] == 'illcond':
        # near singular but inside the quantifier: condition number 1e2 .. 1e3 (tolerances scale with it)
        try:
            COND.update(max=5000.0, smin=5e-4, lo=float(3.0 / 10 ** rng.uniform(2.0, 3.0)))
            ctx.count('ill_conditioned_cases')
            op, n_, lay = k[1], int(k[2]), str(rng.choice(LAYOUTS))
            ent = str(rng.choice(['Obs', 'Obs', 'mixed'] if op != 'inv' else ['Obs', 'mixed', 'CObs']))
            if op == 'inv':
                case_inv(ctx, rng, n_, ent, lay)
            elif op == 'det':
                case_det(ctx, rng, n_, ent, lay)
            elif op == 'cholesky':
                case_cholesky(ctx, rng, n_, ent, lay)
            elif op == 'pinv':
                case_pinv(ctx, rng, n_, int(rng.choice([n_, max(2, n_ - 1)])), ent, lay)
            else:
                case_svd(ctx, rng, n_, int(rng.choice([n_, max(2, n_ - 1)])), ent, lay)
        except np.linalg.LinAlgError:
            # the central matrix is inside the thresholds, the matrix of some replica means is not (not positive definite / singular): outside the quantifier
            ctx.count('ill_conditioned_case_singular_at_replica_means')
            raise Skip()
        finally:
            COND.update(max=30.0, smin=0.3, lo=None)
    elif k[0] == 'refuse':
        case_refusals(ctx, rng, k[1])
    elif k[0] == 'ms':
        op, n_, lay = k[1], int(k[2]), k[3]
        ent = str(rng.choice(['Obs', 'Obs', 'mixed']))
        if op == 'eig':
            case_eig(ctx, rng, n_, ent, lay, ms=True)
        elif op == 'inv':
            case_inv(ctx, rng, n_, ent, lay, ms=True)
        elif op == 'det':
            case_det(ctx, rng, n_, ent, lay, ms=True)
        elif op == 'pinv':
            case_pinv(ctx, rng, n_, n_, ent, lay, ms=True)
        else:
            case_svd(ctx, rng, n_, n_, ent, lay, ms=True)
    elif k[0] == 'matmul':
        case_matmul(ctx, rng, int(k[1]), k[2], k[3])
    elif k[0] == 'inv':
        case_inv(ctx, rng, int(k[1]), k[2], k[3])
    elif k[0] == 'cholesky':
        case_cholesky(ctx, rng, int(k[1]), k[2], k[3])
    elif k[0] == 'det':
        case_det(ctx, rng, int(k[1]), k[2], k[3])
    elif k[0] in ('eigh', 'eigv'):
        case_eigh(ctx, rng, k[0], int(k[1]), k[2], k[3])
    elif k[0] == 'eig':
        case_eig(ctx, rng, int(k[1]), k[2], k[3])
    elif k[0] == 'pinv':
        case_pinv(ctx, rng, int(k[1]), int(k[2]), k[3], k[4])
    elif k[0] == 'svd':
        case_svd(ctx, rng, int(k[1]), int(k[2]), k[3], k[4])
    elif k[0] == 'jack':
        case_jack(ctx, rng, int(k[1]), k[2], k[3])
    elif k[0] == 'einsum':
        case_einsum(ctx, rng, k[1], k[2], k[3], k[4] == 'implicit')
    else:
        raise ValueError(kind)
