"""C16 - GEVP and matrix pencil satisfy the eigen-equation and recover exact spectra.

Oracle: correlator matrices with an exactly known spectral decomposition (ref.gevp),
G_ij(t) = sum_n Z_in Z_jn F_n(t), built from Obs-valued energies and overlaps by exact linear
propagation.  For F_n(t) = exp(-E_n t) this is the matrix of N exact exponentials; a second model
adds a backward-propagating part to one or two states so that the *order* of the eigenvalues
changes with t while the generalised eigenvectors stay the time-independent dual vectors (this
makes sort="Eigenvector" a non-trivial operation).

Monitors
  M1  solver monitor tapped on correlators._GEVP_solver: every pencil solved anywhere in the workload
      (GEVP, Eigenvalue, prune; central values) is judged for the eigen-equation residual with the
      eigenvalue taken from the Rayleigh quotient of the returned vector, for descending order and
      against the pencil's eigenvalues obtained by an independent dense route.
  M2  exact-spectrum oracle on what Corr.GEVP / Eigenvalue / projected / prune return: state labels,
      dual vectors (value, and every fluctuation for vector_obs=True), eigh vs cholesky, time
      independence under eigenvector sorting, projected correlator = F_n(t)/F_n(t0) (value, and every
      fluctuation: of the exact observable for vector_obs=True, of v^T G(t) v at fixed v otherwise),
      None pattern for undefined slices, non-symmetric input = symmetrised input.
  M3  matrix pencil on exact k-exponential correlators returns the energies as observables.
Numerical judgement domain: a (t, state) entry is judged when the rounding error a Cholesky-reduced
pencil can deliver there (eps * cond G(t0) * lambda_max / lambda_n resp. / gap_n, calibrated bounds
of ref.gevp) stays below 1e-8; the tolerance is 20x (values) / 100x (fluctuations) that bound.
"""
import numpy as np

from .. import taps, gen
from ..ctx import Skip, digest
from ..snap import is_obs
from ..ref import gevp as R

ID = 'C16'
LEVEL = 'exploration'
DECIDING = ['mpm_mixed_sign_energies_judged', 'mpm_mixed_sign_square_pencil_k<p_energies_judged', 'tap:_GEVP_solver', 'tap:Corr.GEVP', 'tap:Corr.Eigenvalue', 'tap:Corr.projected', 'tap:Corr.prune',
            'tap:matrix_pencil_method', 'solver_calls_judged', 'vectors_judged', 'vector_fluctuations_judged',
            'projected_values_judged', 'projected_fluctuations_judged', 'sorting_nontrivial_slices_judged',
            'undefined_slices_judged', 'prune_cases_judged', 'mpm_energies_judged', 'history_repeats_judged', 'held_results_judged',
            'input_unchanged_judged', 'projected_variants_judged', 'rejections_judged', 'direct_solver_calls_judged', 'mpm_set_energies_judged']
RULE = ('cases: correlator matrices G(t) = Z F(t) Z^T from N = 2..5 Obs-valued energies (gaps >= 0.15) and generic overlaps '
        '(cond Z < 30), T = 8..24, t0 = 1..T/3, F = exact exponentials or exponentials with a backward part on 1-2 states '
        '(level crossings), symmetric or with an Obs-valued antisymmetric part added, with / without undefined slices, observables on '
        '1-2 ensembles x 1-2 replicas; each matrix goes through method eigh/cholesky x sort Eigenvalue/Eigenvector/None x '
        'vector_obs off (all combinations per case) or on (one combination per case), all states; prune to 1..N-1 states; '
        'matrix pencil with k = 1..3 on exact k-exponential correlators (T down to the limit 2k). Hardening classes: content as list / 3-d array / '
        '2-d array of Corr / Fortran-ordered / transposed views, numpy-integer t0 / ts / state / Ntrunc / k / p, vectors as list / array / same '
        'object in both slots; matrices times 1e-8..1e8 and operator normalisations spanning 4 orders; overlaps from a pool of shared Obs; prange / tag / '
        'gamma_method results / prior symmetrisation stored on the correlator; t0 = 0, ts = t0+1, ts = T-1; ensembles A / A1 / AB and replicas r2 / r10; '
        'histories A, B, A over different matrices of equal N, T, t0, names (GEVP, Eigenvalue, projected, prune interleaved) with held results and input '
        'digests re-checked; rejection rows; an extra matrix equal to an earlier one except for one undefined interior slice; spectator observables '
        '(derivative exactly 0, first / last parameter) and operators decoupled by exact zeros; default projection; every call repeated with the same '
        'argument objects somewhere; timeslices undefined only in part; overlaps / antisymmetric parts with central value exactly 0.0 and non-zero fluctuations; '
        'asymmetries below float32 resolution; a second matrix with exactly the central values of the first on other data; deprecated sorted_list, '
        'auto_gamma; the solver called directly without chol_inv; several correlators at once in the matrix pencil; matrix pencil stratified by case index over amplitude signs x parity of T x p in {default, T/2, k, interior, T-k}. non-trivial: at least one (t > t0, state) entry inside the '
        'numerical judgement domain was compared with the exact spectrum and the inputs fluctuate; '
        'distinct = digest of (energies, overlaps, T, t0, ts, options)')
ASSUMPTIONS = ['numerical judgement domain: entries whose expected rounding error eps*cond(G(t0))*lambda_max(t)/lambda_n(t) (eigenvalues) or '
               'eps*cond(G(t0))*lambda_max(t)/gap_n(t) (vectors) exceeds 1e-8 are counted, not judged, tolerance 20x the bound; fluctuations of vector_obs results: bound '
               'eps*cond*(lambda_max/gap_n)^2 (derivative of an eigenvector), judged below 1e-9, tolerance 100x; '
               'the bounds were calibrated on 3e5 exact pencils incl. level crossings (observed/bound <= 2.5 for values, <= 11 for fluctuations)',
               'matrix pencil: tolerance 200 (values) / 1e4 (fluctuations) * eps * s_1/s_k of the shifted Hankel matrix, judged when <= 1e-6',
               'entries of the returned lists at t <= t0 are not judged (the eigen-problem is degenerate there)',
               'the input matrices are produced by derived_observable with the analytic Jacobian (judged by C01); their fluctuations are read back from the Obs',
               'cond = condition number of the equilibrated matrix D^-1 G(t0) D^-1 + 10 (the algorithms are covariant under a rescaling of the operators; '
               'observed/bound <= 2.6 with operator scales spanning 1e4); cond <= 1e9 by construction (gaps are narrowed when N*t0 is large)',
               't0 = 0 is included as a boundary although the quantifier starts at t0 = 1 (the exact identities hold there as well)',
               'every judgement counts its events as monitor_events["j:<mechanism>"]; the quick tier is sized so that each has >= ~50 events',
               'an asymmetry the library\'s own symmetry test (float32 hash of value and fluctuations) does not see is not symmetrised; by the documented '
               'contract of the solver the lower triangle is used, so the oracle adds that backward error (100 * delta / eps) to the condition number: '
               'such cases are judged by the residual / solver monitor only (counted as tiny_asymmetry_seen_as_symmetric)',
               'non-finite (NaN) timeslices are outside the quantifier: the fallback branch of _GEVP_solver (except LinAlgError/TypeError/ValueError) is not judged',
               'replica means (r_values) of the results are compared with the model at the replica means as telemetry only: the statement names the energies and their fluctuations, not replica means; observed: mpm / linalg.eig can return the replica mean of another level (unsorted np.linalg.eig re-evaluated at the replica means), GEVP next to level crossings likewise',
               'rejection rows only demand that an exception is raised (N = 1, ts <= t0, missing ts, unknown sort, Ntrunc >= N, non-positive G(t0), undefined t0, mpm p / k limits)']
BUDGET = {'quick': 55, 'thorough': 400}

PE = None
CTX = None
EPS = R.EPS
THR = 1e-8          # judgement domain for the calibrated error bound
FV, FD = 20.0, 100.0      # observed / calibrated bound <= 2.8 (values), <= 11 (fluctuations) over > 1e6 judged entries


# ------------------------------------------------------------------------------------------
# small helpers
def vals(a):
    a = np.asarray(a, dtype=object)
    return np.array([x.value if is_obs(x) else float(x) for x in a.ravel()], dtype=float).reshape(a.shape)


def bound(ctx, val, tol, mech, **detail):
    """judge val <= tol (NaN fails)."""
    jc(ctx, mech)
    ctx.ev()
    if not (val <= tol):
        ctx.violation(mech, dict(detail, value=float(val), tol=float(tol)))
        return False
    return True


def jc(ctx, mech):
    """one event of the judgement that can emit `mech` (evidence: monitor_events['j:<mechanism>'])."""
    ctx.count('j:' + mech)


def jclose(ctx, got, exp, mech, *a, **k):
    jc(ctx, mech)
    return ctx.close(got, exp, mech, *a, **k)


def jrequire(ctx, cond, mech, detail=None):
    jc(ctx, mech)
    return ctx.require(cond, mech, detail)


def jequal(ctx, got, exp, mech, *a, **k):
    jc(ctx, mech)
    return ctx.equal(got, exp, mech, *a, **k)


def obs_deltas(o, chains):
    """{chain: deltas} of an Obs for the model's chains (zeros where the Obs does not live on a chain)."""
    out = {}
    for name, n in chains.items():
        d = o.deltas.get(name) if is_obs(o) else None
        out[name] = np.zeros(n) if d is None else np.asarray(d, dtype=float)
    return out


def obs_chain_names(o):
    return sorted(n for n in o.names if n not in o.covobs)


# ------------------------------------------------------------------------------------------
# M1: solver monitor
class SolverMonitor(taps.Monitor):
    def after(self, token, args, kwargs, result, exc):
        ctx = CTX
        if exc is not None:
            ctx.count('solver_calls_raised')
            return
        Gt = kwargs.get('Gt', args[0] if len(args) > 0 else None)
        G0 = kwargs.get('G0', args[1] if len(args) > 1 else None)
        if not isinstance(Gt, np.ndarray) or not isinstance(G0, np.ndarray):
            ctx.count('solver_calls_undefined_slice')
            return
        try:
            if any(r is None for r in result):
                ctx.count('solver_calls_returned_None')
                return
        except TypeError:
            ctx.count('solver_calls_returned_None')
            return
        A = vals(Gt)
        B = vals(G0)
        # a matrix that is not exactly symmetric (the library takes asymmetries below single precision for symmetric and does not
        # symmetrise them): eigh reads the lower triangles, the Cholesky path multiplies the full matrix - which symmetric matrix is
        # solved is only defined up to the asymmetry, which enters the bounds as a backward error
        # (measured in the metric in which the condition number is taken: entries scaled by the diagonal of G0, since one operator may
        # be normalised 1e6 times larger than the others and one ulp of its entries is large for the small ones)
        dsc = np.sqrt(np.abs(np.diag(B)))
        dsc[dsc == 0] = 1.0
        osc = np.outer(dsc, dsc)
        asym = float(max(np.max(np.abs(A - A.T) / osc) / max(np.max(np.abs(A) / osc), 1e-300), np.max(np.abs(B - B.T) / osc)))
        # documented contract: only the lower triangles are processed
        A = np.tril(A) + np.tril(A, -1).T
        B = np.tril(B) + np.tril(B, -1).T
        V = vals(np.asarray(result, dtype=object))
        N = A.shape[0]
        jc(ctx, 'solver:result-shape')
        if V.shape != (N, N):
            ctx.ev()
            ctx.violation('solver:result-shape', {'shape': V.shape, 'N': N})
            return
        kappa = R.cond_for_bounds(B)
        if not np.isfinite(kappa) or kappa > 1e10:
            ctx.count('solver_calls_ill_conditioned')
            return
        ctx.count('solver_calls_judged')
        method = kwargs.get('method', args[2] if len(args) > 2 else 'eigh')
        ray = np.array([R.rayleigh(V[n], A, B) for n in range(N)])
        worst = max(R.residual(V[n], ray[n], A, B) for n in range(N))
        bound(ctx, worst, 1e-14 + (10 * EPS + 4 * asym) * kappa, 'solver:eigen-equation-residual', method=method, N=N, cond=kappa, asymmetry=asym)
        tol = 1e-13 + (20 * EPS + 4 * asym) * kappa
        top = float(np.max(np.abs(ray)))
        bound(ctx, float(np.max(ray[1:] - ray[:-1])), tol * top, 'solver:order-not-descending', method=method, rayleigh=ray)
        a, b = R.pencil_eigenvalues(A, B)
        bound(ctx, float(np.max(np.abs(np.sort(ray)[::-1] - a))), tol * max(top, float(np.max(np.abs(a)))),
              'solver:rayleigh-quotients-are-not-the-pencil-spectrum', method=method, rayleigh=ray, spectrum=a)


# ------------------------------------------------------------------------------------------
# the exact model and its observables
class Model:
    pass


def rand_idl(rng, step=None):
    n = int(rng.integers(6, 13))
    s = int(rng.integers(1, 50))
    if step is not None:                                    # replicas of one ensemble: common spacing
        return range(s, s + n * step, step) if rng.random() < 0.5 else [s + step * i for i in range(n)]
    k = str(rng.choice(['contig', 'strided', 'list']))
    if k == 'contig':
        return range(s, s + n)
    if k == 'strided':
        st = int(rng.integers(2, 5))
        return range(s, s + n * st, st)
    return [s + 2 * i for i in range(n)]


def rand_chains(rng):
    """-> (layout, chains for energies, chains for overlaps): lists of (name, idl).  Name traps: ensembles sharing a
    prefix ('A', 'A1', 'AB') in one matrix, replicas r2 / r10, bare chain names."""
    layout = str(rng.choice(['one', 'one', 'replicas', 'two_ens', 'bare', 'prefix_ens', 'r2_r10']))
    idl = lambda: rand_idl(rng)
    ens = [str(x) for x in rng.choice(gen.ENS_POOL, size=2, replace=False)]
    if layout == 'bare':
        ce = [(ens[0], idl())]
        return layout, ce, ce
    if layout == 'one':
        ce = [('%s|%s' % (ens[0], str(rng.choice(gen.REP_POOL))), idl())]
        return layout, ce, ce
    if layout == 'replicas':
        reps = sorted(str(x) for x in rng.choice(gen.REP_POOL, size=2, replace=False))
        st = int(rng.integers(1, 4))
        ce = [('%s|%s' % (ens[0], r), rand_idl(rng, st)) for r in reps]
        return layout, ce, ce
    if layout == 'r2_r10':
        st = int(rng.integers(1, 4))
        ce = [('A|r10', rand_idl(rng, st)), ('A|r2', rand_idl(rng, st))]
        return layout, ce, ce
    if layout == 'prefix_ens':
        a, b = [('A', 'A1'), ('A1', 'A'), ('A', 'AB'), ('AB', 'A1')][int(rng.integers(0, 4))]
        if rng.random() < 0.5:
            return layout, [(a, idl())], [(b, idl())]
        return layout, [('%s|r1' % a, idl())], [('%s|r1' % b, idl())]
    ce = [('%s|r1' % ens[0], idl())]
    cz = [('%s|r1' % ens[1], idl())]
    return layout, ce, cz


def mk_obs(rng, mean, sigma, chains):
    return PE.Obs([mean + sigma * rng.normal(size=len(i)) for _, i in chains], [n for n, _ in chains], idl=[i for _, i in chains])


def rand_spectrum(rng, N, t0):
    gmax = float(np.clip(11.0 / max(1, (N - 1) * t0), 0.2, 0.6))
    E0 = float(rng.uniform(0.1, 0.5))
    gaps = rng.uniform(0.15, gmax, size=N - 1)
    return np.concatenate([[E0], E0 + np.cumsum(gaps)])


def rand_overlaps(rng, N, circulant=False):
    for _ in range(400):
        if circulant:
            c = rng.normal(size=N)
            Z = np.array([[c[(i - n) % N] for n in range(N)] for i in range(N)])
        else:
            Z = rng.normal(size=(N, N))
        if np.linalg.cond(Z) < 30 and np.min(np.abs(Z)) > 1e-3:
            return Z
    raise Skip()


def ni(rng, x):
    """an index / time argument as Python int or as a numpy integer."""
    if x is None:
        return None
    return [int, int, np.int64, np.int32, np.intp, np.uint8][int(rng.integers(0, 6))](x)


try:
    from .C14 import any_digest as fast_digest     # one hash object per call (same coverage as snap.any_digest)
except Exception:                                  # pragma: no cover
    from ..snap import any_digest as fast_digest

REPRS = ['list', 'array3d', 'corr2d', 'fortran', 'tview']
STATES = ['prange', 'tag', 'gm', 'presym']


def make_model(rng, N, T, t0, ts, kind='exp', nonsym=False, nonepat='no', min_defined=None, chains=None, scale=None,
               share=None, rep=None, state=None, spect=None, block=None, asym=None, like=None, neardeg=None):
    """kind: 'exp' | 'cross'.  nonepat: 'no' | 'pad' | 'int' | 'many'.
    scale: 'unit' | 'global' (matrix times c in 1e-8..1e8) | 'rows' (operator normalisations spanning 4 orders of magnitude).
    share: overlaps drawn from a pool of N Obs, each used at N matrix positions (circulant Z).
    rep: representation of the content handed to Corr.  state: things stored on the correlator before it is used.
    spect: 'none' | 'first' | 'last' - an observable on its own chain the matrix does not depend on (derivative exactly 0) in the
    parameter list.  block: operator 0 couples to state 0 only and no other operator does: 'zero' = exact zeros in every G(t) (Obs
    times 0), 'zero-mean' = the decoupling overlaps have central value exactly 0.0 but fluctuate (G_0j has mean 0, fluctuations not).
    asym (non-symmetric input): 'generic' | 'zero-mean' (the antisymmetric part has central value exactly 0: the MEANS are symmetric,
    [i,j] and [j,i] are different observables) | 'tiny' (relative asymmetry 1e-10..1e-8, below what a float32 hash resolves).
    like: another model whose central values (E, Z, backward parts) are taken over exactly, with fresh fluctuations."""
    m = Model()
    m.N, m.T, m.t0, m.ts, m.kind, m.nonsym, m.nonepat = N, T, t0, ts, kind, nonsym, nonepat
    layout, ce, cz = chains if chains is not None else rand_chains(rng)
    m.layout = layout
    m.chains = {n: len(i) for n, i in ce + cz}
    if share is None:
        share = bool(rng.random() < 0.15)
    if scale is None:
        scale = str(rng.choice(['unit', 'unit', 'global', 'rows', 'rows+global', 'onerow']))
    if neardeg is None:
        neardeg = bool(like is None and rng.random() < 0.1)
    m.neardeg = neardeg
    if share and ('rows' in scale or scale == 'onerow'):
        scale = 'global'
    if spect is None:
        spect = str(rng.choice(['none', 'none', 'none', 'first', 'last']))
    if block is None:
        block = False if share or rng.random() > 0.15 else str(rng.choice(['zero', 'zero-mean']))
    if like is not None:
        share, block, scale = False, False, like.scale
    if asym is None:
        asym = str(rng.choice(['generic', 'generic', 'zero-mean', 'tiny']))
    m.asym = asym if nonsym else None
    m.scale, m.share, m.spect, m.block = scale, share, spect, block
    c = 10.0 ** rng.uniform(-8, 8) if 'global' in scale else 1.0
    d = 10.0 ** rng.uniform(-2, 2, size=N) if 'rows' in scale else np.ones(N)
    if scale == 'onerow':                                   # tiny / huge normalisation in ONE slot only
        d[int(rng.integers(0, N))] = 10.0 ** float(rng.choice([-6, -5, 5, 6]))
    d = d * np.sqrt(c)
    if like is not None:
        d = like.d
    m.d = d
    sig = 10.0 ** rng.uniform(-4, -2)
    spec = rand_spectrum(rng, N, t0)
    sigE = sig
    if neardeg:
        # near, not at, a degeneracy: one gap of 1e-3 .. 3e-2 (still non-degenerate; the conditioning bounds decide what is judged)
        i = int(rng.integers(0, N - 1))
        gap = 10.0 ** rng.uniform(-3, -1.5)
        spec[i + 1:] -= (spec[i + 1] - spec[i]) - gap
        sigE = min(sig, gap / 50)
    Eo = [mk_obs(rng, x, sigE, ce) for x in spec]
    Z0 = rand_overlaps(rng, N, circulant=share)
    if block:
        Z0[0, 1:] = 0.0
        Z0[1:, 0] = 0.0
        if np.linalg.cond(Z0) > 30:
            raise Skip()
    Z0 = Z0 * d[:, None]
    if share:
        pool = [mk_obs(rng, Z0[i, 0], sig * (0.3 * d[i] + abs(Z0[i, 0])), cz) for i in range(N)]   # first column = the N distinct numbers
        Zo = [pool[(i - n) % N] for i in range(N) for n in range(N)]                              # the same objects again and again
    else:
        Zo = [mk_obs(rng, Z0[i, n], sig * (0.3 * d[i] + abs(Z0[i, n])), cz) for i in range(N) for n in range(N)]
        if block == 'zero':
            Zo = [o if Z0[i // N, i % N] != 0 else 0.0 * o for i, o in enumerate(Zo)]     # an observable multiplied by zero
        elif block == 'zero-mean':
            Zo = [o if Z0[i // N, i % N] != 0 else o - o.value for i, o in enumerate(Zo)]  # central value exactly 0.0, fluctuations not
    if like is not None:
        Eo = [o - o.value + float(x) for o, x in zip(Eo, like.E)]
        Zo = [o - o.value + float(x) for o, x in zip(Zo, like.Z.ravel())]
    m.E = np.array([o.value for o in Eo])
    m.Z = np.array([o.value for o in Zo]).reshape(N, N)
    if np.min(np.diff(m.E)) < (5e-4 if neardeg else 0.14) or np.linalg.cond(m.Z / d[:, None]) > 40:
        raise Skip()
    m.b = m.e = None
    if like is not None:
        m.b, m.e, m.kind = like.b, like.e, like.kind
    elif kind == 'cross':
        m.b = np.zeros(N)
        m.e = np.zeros(N)
        for n in rng.choice(N, size=int(rng.integers(1, min(N, 2) + 1)), replace=False):
            m.b[n] = float(rng.uniform(0.05, 1.0))
            m.e[n] = float(rng.uniform(0.1, 0.6))
    m.F = R.F_of(m.E, T, m.b, m.e)
    m.dF = R.dF_dE(m.E, T)
    G, J = R.matrices(m.E, m.Z, T, m.b, m.e)
    G = 0.5 * (G + G.transpose(0, 2, 1))                 # bitwise symmetric
    J = 0.5 * (J + J.transpose(0, 2, 1, 3))
    m.G = G
    data = Eo + Zo
    W = None
    if nonsym:
        qo = mk_obs(rng, float(rng.uniform(0.5, 1.5)), 0.05, ce)
        if asym == 'zero-mean':
            qo = qo - qo.value
        amp = 10.0 ** (rng.uniform(-10, -8) if asym == 'tiny' else rng.uniform(-2.5, -0.5))
        W = rng.normal(size=(T, N, N))
        sd = np.sqrt(np.einsum('tii->ti', G))
        W = (W - W.transpose(0, 2, 1)) * amp * sd[:, :, None] * sd[:, None, :]
        data = data + [qo]
        J = np.concatenate([J, W[..., None]], axis=3)
        m.q = qo.value
    m.W = W
    m.Gin = G if W is None else G + W * m.q
    b, e = m.b, m.e
    off = 0
    if spect != 'none':
        so = mk_obs(rng, float(rng.normal()), 0.3, [('spectator|r1', rand_idl(rng))])
        m.chains['spectator|r1'] = len(so.deltas['spectator|r1'])
        zero = np.zeros(J.shape[:3] + (1,))
        if spect == 'first':
            data, J, off = [so] + data, np.concatenate([zero, J], axis=3), 1
        else:
            data, J = data + [so], np.concatenate([J, zero], axis=3)

    def func(x, **kw):
        x = x[off:]
        g = R.matrices(x[:N], np.reshape(x[N:N + N * N], (N, N)), T, b, e, jac=False)
        g = 0.5 * (g + g.transpose(0, 2, 1))
        if W is not None:
            g = g + W * x[N + N * N]
        return g
    out = PE.derived_observable(func, data, man_grad=J)
    m.mirrored = False
    if not nonsym and rng.random() < 0.5:
        m.mirrored = True
        for t in range(T):
            for i in range(N):
                for j in range(i):
                    out[t, j, i] = out[t, i, j]
    # undefined slices
    protected = {t0, ts} | set(min_defined or ())
    undefined = set()
    if nonepat == 'pad':
        undefined |= {0}
        if rng.random() < 0.7:
            undefined |= set(range(T - int(rng.integers(1, 3)), T))
    elif nonepat == 'int':
        cand = [t for t in range(t0 + 1, T) if t not in protected]
        if cand:
            undefined |= set(int(x) for x in rng.choice(cand, size=min(len(cand), int(rng.integers(1, 3))), replace=False))
    elif nonepat == 'many':
        cand = [t for t in range(T) if t not in protected]
        undefined |= set(int(x) for x in rng.choice(cand, size=max(1, len(cand) // 2), replace=False))
    undefined -= protected
    m.defined = set(range(T)) - undefined
    m.Gobs = out
    # a timeslice may also be undefined only in part: some entries None (the library's own predicate _check_for_none calls that undefined)
    m.partial = {}
    if undefined and nonepat in ('int', 'many') and rng.random() < 0.4:
        for t in rng.choice(sorted(undefined), size=min(len(undefined), int(rng.integers(1, 3))), replace=False):
            i, j = int(rng.integers(0, N)), int(rng.integers(0, N))
            m.partial[int(t)] = {(i, j), (j, i)}

    def slice_(t, conv=np.array):
        if t in m.defined:
            return conv(out[t])
        if t in m.partial:
            a = np.array(out[t])
            for ij in m.partial[t]:
                a[ij] = None
            return conv(a)
        return None
    # representation of the content
    if rep is None:
        rep = str(rng.choice(REPRS))
    if rep == 'array3d' and undefined:
        rep = 'list'
    if rep == 'tview' and nonsym:
        rep = 'fortran'
    m.rep = rep
    if rep == 'array3d':
        corr = PE.Corr(np.array(out))
    elif rep == 'corr2d':
        arr = np.empty((N, N), dtype=object)
        for i in range(N):
            for j in range(N):
                arr[i, j] = PE.Corr([out[t, i, j] if t in m.defined or (t in m.partial and (i, j) not in m.partial[t]) else None for t in range(T)])
        corr = PE.Corr(arr)
    elif rep == 'fortran':
        corr = PE.Corr([slice_(t, np.asfortranarray) for t in range(T)])
    elif rep == 'tview':
        corr = PE.Corr([slice_(t, lambda a: np.array(a).T) for t in range(T)])                  # transposed views of symmetric matrices
    else:
        corr = PE.Corr([slice_(t) for t in range(T)])
    # state stored on the correlator before use
    if state is None:
        state = [x for x in STATES if rng.random() < 0.15]
    if m.partial:
        state = [x for x in state if x != 'gm']        # Corr.gamma_method itself does not accept partially undefined slices (C14)
    m.state = list(state)
    if 'presym' in state:
        corr = corr.matrix_symmetric()
    if 'gm' in state:
        corr.gamma_method()
    if 'prange' in state:
        corr.prange = [int(rng.integers(0, 3)), int(rng.integers(3, T))]
    if 'tag' in state:
        corr.tag = 'state %d of something else' % int(rng.integers(0, N))
    m.corr = corr
    m.dE = {c_: np.array([obs_deltas(o, m.chains)[c_] for o in Eo]) for c_ in m.chains}
    m.dZ = {c_: np.array([obs_deltas(o, m.chains)[c_] for o in Zo]).reshape(N, N, -1) for c_ in m.chains}
    # secondary output: replica means.  Every result carries r_values = the result evaluated at the replica means of the inputs
    # (an input that does not live on a chain enters with its central value); informative where an ensemble has several replicas.
    ens_count = {}
    for c_ in m.chains:
        ens_count[c_.split('|')[0]] = ens_count.get(c_.split('|')[0], 0) + 1
    m.rv = {}
    for c_ in m.chains:
        if ens_count[c_.split('|')[0]] > 1:
            Er = np.array([o.r_values.get(c_, o.value) for o in Eo])
            Zr = np.array([o.r_values.get(c_, o.value) for o in Zo]).reshape(N, N)
            Gr = R.matrices(Er, Zr, T, m.b, m.e, jac=False)
            Gr = 0.5 * (Gr + Gr.transpose(0, 2, 1))
            if W is not None:
                Gr = Gr + W * qo.r_values.get(c_, qo.value)
            m.rv[c_] = (R.F_of(Er, T, m.b, m.e), Gr)
    m._dG = None
    m.kappa = {}
    m.fluctuates = any(np.any(v != 0) for v in m.dE.values())
    m.key = digest('model', m.E, m.Z, T, t0, ts, kind, nonsym, sorted(undefined), repr(m.b), repr(m.e))
    m.digest0 = fast_digest(m.corr)
    # An asymmetry the library's own symmetry test (float32 hash) does not see is not symmetrised: by the documented contract of the
    # solver the lower triangle is then used, i.e. the exact problem is solved for a matrix that differs from the symmetrised one by
    # delta.  That backward error enters the error bounds (factor 100 for the fluctuations of the antisymmetric part).
    m.backward = 0.0
    if nonsym and asym == 'tiny' and corr.is_matrix_symmetric():
        sd = np.sqrt(np.einsum('tii->ti', G))
        m.backward = float(np.max(np.abs(W * m.q) / (sd[:, :, None] * sd[:, None, :])))
    return m


def judge_unchanged(ctx, m, what):
    """the input correlator (content, fluctuations, prange, tag) is what it was when it was built."""
    ctx.count('input_unchanged_judged')
    jrequire(ctx, fast_digest(m.corr) == m.digest0, 'mutation:input-correlator-changed', dict(what=what, N=m.N, T=m.T, rep=m.rep, stored=m.state))


def dG(m):
    """fluctuations of the input matrix as stored in the Obs: {chain: (T, N, N, ncfg)} (zeros at undefined t)."""
    if m._dG is None:
        m._dG = {}
        for c, n in m.chains.items():
            a = np.zeros((m.T, m.N, m.N, n))
            for t in m.defined:
                for i in range(m.N):
                    for j in range(m.N):
                        d = m.Gobs[t, i, j].deltas.get(c)
                        if d is not None:
                            a[t, i, j] = d
            m._dG[c] = a
    return m._dG


def kappa(m, t0):
    if t0 not in m.kappa:
        m.kappa[t0] = R.cond_for_bounds(m.G[t0]) + 100.0 * m.backward / EPS
    return m.kappa[t0]


def lam_at(m, t0, t):
    return m.F[t] / m.F[t0]


def label(m, t0, ts, sort, t, n):
    """state (column of Z) the n-th returned vector has to carry at time t."""
    if sort == 'Eigenvalue':
        return R.order_at(m.F, t0, t)[n]
    return R.order_at(m.F, t0, ts)[n]


def coeffs(m, t0, v):
    """expansion of v in the exact G(t0)-normalised dual vectors: exactly +-e_label for an exact solution."""
    return (m.Z.T @ np.asarray(v, dtype=float)) * np.sqrt(m.F[t0])


# ------------------------------------------------------------------------------------------
# M2: judgement of returned vectors
def judge_vectors_at(ctx, m, t0, ts, t, sort, method, vo, vs):
    """vs: vectors of all states at time t (float arrays, or Obs arrays for vector_obs). Returns the float vectors,
    sign-aligned to the exact dual vectors, or None where not judged."""
    N = m.N
    kap = kappa(m, t0)
    lam_t = lam_at(m, t0, t)
    Gt, G0 = m.G[t], m.G[t0]
    fv = [vals(v) for v in vs]
    what = dict(sort=sort, method=method, vector_obs=vo, N=N, t0=t0, t=t, model=m.kind)
    aligned = [None] * N
    jc(ctx, 'gevp:vector-shape')
    if any(v.shape != (N,) for v in fv):
        ctx.ev()
        ctx.violation('gevp:vector-shape', dict(what, shapes=[v.shape for v in fv]))
        return aligned
    jc(ctx, 'vector_obs:entries-not-Obs')
    if vo and not all(is_obs(x) for v in vs for x in v):
        ctx.ev()
        ctx.violation('vector_obs:entries-not-Obs', what)
    ray = [R.rayleigh(v, Gt, G0) for v in fv]
    # eigen-equation with the eigenvalue from the returned vector (always judged: backward stable)
    worst = max(R.residual(fv[n], ray[n], Gt, G0) for n in range(N))
    bound(ctx, worst, 1e-14 + 10 * EPS * kap, 'gevp:eigen-equation-residual', **what)
    # normalisation on its own: v^T G(t0) v = 1 for every state, whatever the gaps (backward stable)
    nrm = max(abs(float(v @ G0 @ v) - 1.0) for v in fv)
    ctx.count('judged:normalisation')
    bound(ctx, nrm, 1e-14 + 10 * EPS * kap, 'gevp:v^T-G(t0)-v-is-not-1', **what)
    if sort != 'Eigenvector':
        bound(ctx, float(np.max(np.diff(ray))), (1e-13 + 20 * EPS * kap) * max(abs(r) for r in ray), 'order:eigenvalues-not-descending',
              rayleigh=ray, **what)
    exp_lab = [label(m, t0, ts, sort, t, n) for n in range(N)]
    est_v = [R.err_vector(kap, lam_t, l) for l in exp_lab]
    est_l = [R.err_eigenvalue(kap, lam_t, l) for l in exp_lab]
    est_d = [R.err_vector_response(kap, lam_t, l) for l in exp_lab]
    cs = [coeffs(m, t0, v) for v in fv]
    got_lab = [int(np.argmax(np.abs(c))) for c in cs]
    ok_states = [n for n in range(N) if est_v[n] <= THR]
    ctx.count('vectors_ill_conditioned_not_judged', N - len(ok_states))
    if sort == 'Eigenvector' and t != ts and R.order_at(m.F, t0, t) != R.order_at(m.F, t0, ts) and len(ok_states) == N:
        ctx.count('sorting_nontrivial_slices_judged')
    jc(ctx, 'order|sort-eigenvector:state-labels')
    bad = [n for n in ok_states if got_lab[n] != exp_lab[n]]
    if bad:
        ctx.ev()
        mech = 'order:states-permuted'
        if sort == 'Eigenvector':
            eo, ro = R.order_at(m.F, t0, t), R.order_at(m.F, t0, ts)
            p = [ro.index(x) for x in eo]
            applied_forward = [eo[p[i]] for i in range(N)]
            if got_lab == applied_forward and got_lab != exp_lab:
                mech = 'sort-eigenvector:permutation-applied-instead-of-inverse'
            elif got_lab == eo:
                mech = 'sort-eigenvector:vectors-left-in-eigenvalue-order'
            else:
                mech = 'sort-eigenvector:state-not-followed'
        elif got_lab == exp_lab[::-1]:
            mech = 'order:ascending-instead-of-descending'
        ctx.violation(mech, dict(what, got_states=got_lab, expected_states=exp_lab))
    for n in ok_states:
        if got_lab[n] != exp_lab[n]:
            continue
        l = exp_lab[n]
        c = cs[n]
        s = 1.0 if c[l] >= 0 else -1.0
        ctx.count('vectors_judged')
        adm = float(np.max(np.abs(np.delete(c, l))) / abs(c[l])) if N > 1 else 0.0
        bound(ctx, adm, 1e-12 + FV * est_v[n], 'gevp:vector-is-not-the-dual-vector', state=n, **what)
        bound(ctx, abs(abs(c[l]) - 1.0), 1e-12 + FV * est_v[n], 'gevp:vector-not-G(t0)-normalised', state=n, norm=abs(c[l]), **what)
        if est_l[n] <= THR:
            bound(ctx, abs(ray[n] / lam_t[l] - 1.0), 1e-12 + FV * est_l[n], 'gevp:rayleigh-quotient-is-not-the-exact-eigenvalue',
                  state=n, got=ray[n], exp=lam_t[l], **what)
        aligned[n] = s * fv[n]
        if vo and est_d[n] <= 0.1 * THR:
            judge_vector_fluctuations(ctx, m, t0, vs[n], l, s, 1e-12 + FD * est_d[n], dict(what, state=n))
    if ok_states and m.fluctuates:
        ctx.nontrivial.add(digest(m.key, sort, method, vo))
    return aligned


def judge_vector_fluctuations(ctx, m, t0, v, l, s, rtol, what):
    for x in v:
        if not is_obs(x):
            return
    names = sorted(set(n for x in v for n in obs_chain_names(x)))
    jc(ctx, 'vector_obs:chain-names')
    if names != sorted(m.chains):
        ctx.ev()
        ctx.violation('vector_obs:chain-names', dict(what, got=names, exp=sorted(m.chains)))
        return
    ctx.count('vector_fluctuations_judged')
    # components are compared in units of 1/sqrt(G_ii(t0)) (invariant under a rescaling of the operators)
    u = np.sqrt(np.diag(m.G[t0]))[:, None]
    exp = {c: u * R.dual_vector_response(m.Z, m.F[t0], m.dF[t0], m.dE[c], m.dZ[c])[:, l, :] for c in m.chains}
    scale = max(max(float(np.max(np.abs(e))) for e in exp.values()), 1e-300)   # an exact zero on one chain is a cancellation
    for c in m.chains:
        got = u * np.array([obs_deltas(x, m.chains)[c] for x in v])
        jclose(ctx, s * got, exp[c], 'vector_obs:vector-fluctuations', 'chain ' + c, rtol=rtol, scale=scale, detail=what)


def judge_structure(ctx, m, t0, sort, vecs, what):
    """None pattern and shape of what GEVP returned; -> True when usable."""
    N, T = m.N, m.T
    jc(ctx, 'gevp:number-of-states')
    if len(vecs) != N:
        ctx.ev()
        ctx.violation('gevp:number-of-states', dict(what, got=len(vecs)))
        return False
    if sort is None:
        return True
    ok = True
    for n in range(N):
        jc(ctx, 'gevp:vector-list-length-is-not-T')
        if not isinstance(vecs[n], list) or len(vecs[n]) != T:
            ctx.ev()
            ctx.violation('gevp:vector-list-length-is-not-T', dict(what, got=len(vecs[n]) if hasattr(vecs[n], '__len__') else None, T=T))
            return False
    for t in range(t0 + 1, T):
        isnone = [vecs[n][t] is None for n in range(N)]
        if t in m.defined:
            ok &= jrequire(ctx, not any(isnone), 'gevp:defined-slice-without-vector', dict(what, t=t))
        else:
            ctx.count('undefined_slices_judged')
            ok &= jrequire(ctx, all(isnone), 'undefined-slice:vector-is-not-None', dict(what, t=t))
    ctx.count('entries_at_t<=t0_not_judged', N * (t0 + 1))
    return ok


def judge_projected(ctx, m, t0, ts, sort, n, corr, vo, fvec, what):
    """corr: the projected / Eigenvalue correlator of state n.  fvec: float vectors used (list over t, or one vector) for
    the fixed-vector fluctuation oracle (vector_obs=False)."""
    N, T = m.N, m.T
    what = dict(what, state=n)
    jc(ctx, 'projected:shape')
    if getattr(corr, 'N', None) != 1 or getattr(corr, 'T', None) != T:
        ctx.ev()
        ctx.violation('projected:shape', dict(what, N=getattr(corr, 'N', None), T=getattr(corr, 'T', None)))
        return
    kap = kappa(m, t0)
    for t in range(T):
        item = corr.content[t]
        if sort is not None and t <= t0:
            continue
        if t not in m.defined:
            ctx.count('undefined_slices_judged')
            jrequire(ctx, item is None, 'undefined-slice:projected-is-not-None', dict(what, t=t))
            continue
        if not jrequire(ctx, item is not None, 'projected:defined-slice-is-None', dict(what, t=t)):
            continue
        o = item[0]
        jc(ctx, 'projected:entry-not-Obs')
        if not is_obs(o):
            ctx.ev()
            ctx.violation('projected:entry-not-Obs', dict(what, t=t, type=type(o).__name__))
            continue
        lam_t = lam_at(m, t0, t)
        l = label(m, t0, ts, sort, t, n)
        est_l = R.err_eigenvalue(kap, lam_t, l)
        if sort is None:
            lam_s = lam_at(m, t0, ts)
            ev_s = R.err_vector(kap, lam_s, l)
            ratio = float(np.max(lam_t) / lam_t[l])
            est_l = est_l + R.err_eigenvalue(kap, lam_s, l) + ev_s ** 2 * ratio
            est_d = est_l + R.err_vector_response(kap, lam_s, l) * ratio
            sure = ev_s <= THR
        elif sort == 'Eigenvector':
            ev_t = R.err_vector(kap, lam_t, l)
            sure = ev_t <= THR and R.err_vector(kap, lam_at(m, t0, ts), l) <= THR
            est_d = max(est_l, R.err_vector_response(kap, lam_t, l))
        else:
            est_d = max(est_l, R.err_vector_response(kap, lam_t, l))
            sure = True
        if not sure or est_l > THR:
            ctx.count('projected_ill_conditioned_not_judged')
            continue
        ctx.count('projected_values_judged')
        jclose(ctx, o.value, lam_t[l], 'projected:value-is-not-F_n(t)/F_n(t0)', 't=%d' % t, rtol=1e-12 + FV * est_l, detail=what)
        for c, (Fr, Gr) in m.rv.items():
            if c not in o.r_values:
                continue
            ctx.count('observed:replica-means:projected')
            if vo:
                # the exact observable evaluated at the replica means of the energies; sorting is a discontinuous function, so next to
                # a level crossing the state of rank n at the replica means may be another one than at the central values: both admissible
                lr = label(m, t0, ts, sort, t, n) if sort is None else \
                    (R.order_at(Fr, t0, t)[n] if sort == 'Eigenvalue' else R.order_at(Fr, t0, ts)[n])
                cands = sorted({l, lr})
                best = min(cands, key=lambda x: abs(o.r_values[c] - Fr[t, x] / Fr[t0, x]))
                # telemetry only: the property does not name replica means (decision recorded in DESIGN.md)
                okr = abs(o.r_values[c] - Fr[t, best] / Fr[t0, best]) <= (1e-12 + 2 * FV * est_l) * abs(Fr[t, best] / Fr[t0, best])
                ctx.count('gevp_replica_means_agree' if okr else 'gevp_replica_means_in_another_state_order_or_differ')
            else:
                v_ = fvec[t] if isinstance(fvec, list) else fvec
                if v_ is not None:
                    okr = abs(o.r_values[c] - float(v_ @ Gr[t] @ v_)) <= 1e-13 * float(np.abs(v_) @ np.abs(Gr[t]) @ np.abs(v_))
                    ctx.count('gevp_replica_means_agree' if okr else 'gevp_replica_means_in_another_state_order_or_differ')
        if not vo:
            v = fvec[t] if isinstance(fvec, list) else fvec
            if v is None:
                continue
            names = obs_chain_names(o)
            jc(ctx, 'projected:chain-names')
            if names != sorted(m.chains):
                ctx.ev()
                ctx.violation('projected:chain-names', dict(what, t=t, got=names, exp=sorted(m.chains)))
                continue
            ctx.count('projected_fluctuations_judged')
            for c, arr in dG(m).items():
                exp = np.einsum('i,j,ijc->c', v, v, arr[t])
                scale = float(np.einsum('i,j,ij->', np.abs(v), np.abs(v), np.max(np.abs(arr[t]), axis=2)))
                jclose(ctx, obs_deltas(o, m.chains)[c], exp, 'projected:fluctuations-at-fixed-vector', 't=%d chain %s' % (t, c),
                          rtol=1e-13, scale=max(scale, 1e-300), detail=what)
        elif est_d <= 0.1 * THR:
            names = obs_chain_names(o)
            # the exact observable depends on E_label only
            exp_names = sorted(c for c in m.chains if np.any(m.dE[c] != 0))
            ctx.count('projected_fluctuations_judged')
            exp = {c: R.lambda_response(m.F, m.dF, t0, m.dE[c])[t, l] for c in m.chains}
            scale = max(max(float(np.max(np.abs(e))) for e in exp.values()),
                        float(lam_t[l]) * max(float(np.max(np.abs(m.dE[c][l]))) for c in m.chains), 1e-300)
            for c in m.chains:
                jclose(ctx, obs_deltas(o, m.chains)[c], exp[c], 'vector_obs:projected-fluctuations-are-not-those-of-F_n(t)/F_n(t0)',
                          't=%d chain %s' % (t, c), rtol=1e-10 + FD * est_d, scale=scale, detail=what)      # floor 1e-12 (fourth pass) was met 1.6 times over at thorough seed 2 (N=4, level crossing model): back to the calibrated 1e-10
            jc(ctx, 'vector_obs:projected-chain-names')
            if not set(exp_names) <= set(names):
                ctx.ev()
                ctx.violation('vector_obs:projected-chain-names', dict(what, t=t, got=names, exp=exp_names))
        if m.fluctuates:
            ctx.nontrivial.add(digest(m.key, 'proj', sort, vo, n))


def hold(m, what, obj):
    """keep a result together with its digest: it must still be the same when the case ends."""
    if not hasattr(m, 'held'):
        m.held = []
    m.held.append((what, obj, fast_digest(obj)))


def judge_held(ctx, m):
    for what, obj, d in getattr(m, 'held', []):
        ctx.count('held_results_judged')
        jrequire(ctx, fast_digest(obj) == d, 'aliasing:earlier-result-changed-by-later-call', dict(result=what, N=m.N, T=m.T))
    m.held = []


def judge_no_shared_memory(ctx, vecs, sort, what):
    """vectors of different (state, t) are different vectors: they must not live in overlapping memory."""
    arrs = []
    for n in range(len(vecs)):
        for v in ([vecs[n]] if sort is None else vecs[n]):
            if isinstance(v, np.ndarray) and v.dtype != object:
                arrs.append(v)
    ctx.ev()
    jc(ctx, 'aliasing:vectors-of-different-states-or-times-share-memory')
    for i in range(len(arrs)):
        for j in range(i):
            if np.may_share_memory(arrs[i], arrs[j]) and np.shares_memory(arrs[i], arrs[j]):
                ctx.violation('aliasing:vectors-of-different-states-or-times-share-memory', what)
                return


def run_gevp(ctx, m, sort, method, vo, rng=None):
    """One GEVP call with everything that is judged on it. -> sign-aligned float vectors [state][t] (None where unjudged)."""
    C = m.corr
    t0, ts, N, T = m.t0, m.ts, m.N, m.T
    kw = {}
    if method is not None:
        kw['method'] = method
    if vo:
        kw['vector_obs'] = True
    need_ts = sort in ('Eigenvector', None)
    ts_arg = ts if need_ts else None
    if sort == 'Eigenvalue' and rng is not None and rng.random() < 0.2:
        ts_arg = ts                                         # documented: no effect when sorting by eigenvalue
    what = dict(sort=sort, method=method, vector_obs=vo, N=N, T=T, t0=t0, ts=ts_arg, model=m.kind, nonsym=m.nonsym, none=m.nonepat,
                scale=m.scale, rep=m.rep, stored=m.state, shared_overlaps=m.share)
    ctx.cell('N%d' % N, method or 'default', str(sort), 'obs' if vo else 'float', 'nonsym' if m.nonsym else 'sym', m.nonepat)
    ctx.cell('input', m.scale, m.rep, 't0=0' if t0 == 0 else ('ts=t0+1' if ts == t0 + 1 else ('ts=T-1' if ts == T - 1 else 'ts')))
    for st in m.state:
        ctx.cell('state', st, str(sort))
    ctx.cell('spectator', m.spect, 'block-zeros' if m.block else 'generic', 'obs' if vo else 'float')
    ctx.cell('asym', str(m.asym), 'obs' if vo else 'float')
    if rng is not None and rng.random() < (0.4 if vo else 0.1):
        kw['auto_gamma'] = True                             # analyses the returned vectors (vector_obs only), changes no number
    if rng is not None and rng.random() < 0.1:
        ctx.count('deprecated_sorted_list_calls')
        vecs = C.GEVP(ni(rng, t0), ts=ni(rng, ts_arg), sorted_list=sort, **kw)      # deprecated spelling of sort
    elif rng is not None:
        vecs = C.GEVP(ni(rng, t0), ts=ni(rng, ts_arg), sort=sort, **kw)
    else:
        vecs = C.GEVP(t0, ts=ts_arg, sort=sort, **kw)
    if vo and kw.get('auto_gamma'):
        flat = [x for n in range(len(vecs)) for v in ([vecs[n]] if sort is None else vecs[n]) if v is not None for x in v]
        jrequire(ctx, all(is_obs(x) and hasattr(x, 'e_dvalue') and np.isfinite(x.dvalue) and x.dvalue >= 0 for x in flat),
                 'auto_gamma:returned-vectors-not-analysed', dict(what, n=len(flat)))
    if not judge_structure(ctx, m, t0, sort, vecs, what):
        return None, vecs
    hold(m, 'GEVP(sort=%s, method=%s, vector_obs=%s)' % (sort, method, vo), vecs)
    if not vo:
        judge_no_shared_memory(ctx, vecs, sort, what)
    aligned = [[None] * T for _ in range(N)]
    times = [ts] if sort is None else [t for t in range(t0 + 1, T) if t in m.defined]
    for t in times:
        vs = [vecs[n] if sort is None else vecs[n][t] for n in range(N)]
        if any(v is None for v in vs):
            continue
        al = judge_vectors_at(ctx, m, t0, ts, t, sort, method, vo, vs)
        for n in range(N):
            aligned[n][t] = al[n]
    if sort == 'Eigenvector':
        kap = kappa(m, t0)
        for n in range(N):
            ref = aligned[n][ts]
            if ref is None:
                continue
            l = label(m, t0, ts, sort, ts, n)
            e_s = R.err_vector(kap, lam_at(m, t0, ts), l)
            for t in times:
                v = aligned[n][t]
                if v is None or t == ts:
                    continue
                e_t = R.err_vector(kap, lam_at(m, t0, t), l)
                # for this model the generalised eigenvectors do not depend on t
                bound(ctx, float(np.max(np.abs(coeffs(m, t0, v - ref)))), 1e-12 + FV * (e_s + e_t),
                      'sort-eigenvector:vector-of-a-state-changes-with-time', state=n, t=t, **what)
    return aligned, vecs


def float_vectors(vecs, sort, n):
    if sort is None:
        return vals(vecs[n])
    return [None if v is None else vals(v) for v in vecs[n]]


def pick_times(rng, T):
    """t0 = 1..T/3 (and the boundary t0 = 0), ts between t0 + 1 (minimal) and the last timeslice."""
    t0 = 0 if rng.random() < 0.08 else int(rng.integers(1, T // 3 + 1))
    r = rng.random()
    if r < 0.2:
        ts = t0 + 1
    elif r < 0.3:
        ts = T - 1
    else:
        ts = int(rng.integers(t0 + 1, min(T - 1, t0 + 4) + 1))
    return t0, ts


def projected_variant(ctx, rng, m, sort, n, vecs, vo, what):
    """the same projection requested in another way: same object in both slots, list + array, contiguous copy."""
    C = m.corr
    vec = vecs[n]
    fv = None if vo else float_vectors(vecs, sort, n)
    before = fast_digest(vec)
    if sort is None:
        how = str(rng.choice(['same-object-twice', 'list+array', 'array+list', 'contiguous-copy']))
        if how == 'same-object-twice':
            pr = C.projected(vec, vec)
        elif how == 'list+array':
            pr = C.projected([vec] * m.T, vec)
        elif how == 'array+list':
            pr = C.projected(vec, [vec] * m.T)
        else:
            pr = C.projected(np.array(list(vec), dtype=np.asarray(vec).dtype))
    else:
        how = str(rng.choice(['same-object-twice', 'copied-list', 'explicit-right']))
        if how == 'same-object-twice':
            pr = C.projected(vec, vec)
        elif how == 'copied-list':
            pr = C.projected(list(vec))
        else:
            pr = C.projected(vec, vector_r=list(vec))
    ctx.cell('projected', how, 'obs' if vo else 'float')
    ctx.count('projected_variants_judged')
    judge_projected(ctx, m, m.t0, m.ts, sort, n, pr, vo, fv, dict(what, via='projected:' + how))
    jrequire(ctx, fast_digest(vec) == before, 'mutation:projected-changes-its-vector-argument', dict(what, how=how))
    # the same argument object once more: same result
    if not vo and rng.random() < 0.3:
        again = C.projected(vec)
        first = C.projected(vec)
        jrequire(ctx, fast_digest(again) == fast_digest(first), 'history:projected-twice-with-the-same-vector-differs', dict(what))


def judge_default_projection(ctx, m, what):
    """projected() without vectors = (1, 0, .., 0) on both sides: the entries of the vector that are exactly zero are
    spectators, the result is element (0, 0) of the matrix, value and every fluctuation."""
    pr = m.corr.projected()
    for t in range(m.T):
        item = pr.content[t]
        if t not in m.defined:
            jrequire(ctx, item is None, 'undefined-slice:projected-is-not-None', dict(what, t=t, via='projected()'))
            continue
        if not jrequire(ctx, item is not None, 'projected:defined-slice-is-None', dict(what, t=t, via='projected()')):
            continue
        o, ref = item[0], m.Gobs[t, 0, 0]
        jclose(ctx, o.value, ref.value, 'projected:default-vector-is-not-element-00', 't=%d value' % t, rtol=1e-15, detail=what)
        for c in m.chains:
            g, e = obs_deltas(o, m.chains)[c], obs_deltas(ref, m.chains)[c]
            jclose(ctx, g, e, 'projected:default-vector-is-not-element-00', 't=%d chain %s' % (t, c), rtol=1e-15,
                   scale=max(float(np.max(np.abs(e))), abs(ref.value) * 1e-6, 1e-300), detail=what)


def case_gevp_float(ctx, rng, N, nonsym, nonepat, kind):
    T = int(rng.integers(8, 25))
    t0, ts = pick_times(rng, T)
    m = make_model(rng, N, T, t0, ts, kind, nonsym, nonepat)
    if kappa(m, t0) > 1e9:
        raise Skip()
    C = m.corr
    if m.asym == 'tiny':
        ctx.count('tiny_asymmetry_seen_as_symmetric' if C.is_matrix_symmetric() else 'tiny_asymmetry_seen_as_non_symmetric')
    else:
        jequal(ctx, bool(C.is_matrix_symmetric()), (not nonsym) or 'presym' in m.state, 'input:is_matrix_symmetric',
               'symmetric input recognised / antisymmetric part seen', detail=dict(mirrored=m.mirrored, stored=m.state, scale=m.scale, asym=m.asym))
    res = {}
    for method in ('eigh', 'cholesky', None):
        for sort in ('Eigenvalue', 'Eigenvector', None):
            if method is None and rng.random() < 0.6:
                continue
            aligned, vecs = run_gevp(ctx, m, sort, method, False, rng)
            if aligned is None:
                continue
            res[(method, sort)] = aligned
            what = dict(sort=sort, method=method, vector_obs=False, N=N, T=T, t0=t0, ts=ts, model=m.kind, nonsym=nonsym, none=nonepat,
                        scale=m.scale, rep=m.rep, stored=m.state)
            kw = {} if method is None else {'method': method}
            ts_arg = ts if sort != 'Eigenvalue' else None
            states = list(range(N)) if ctx.tier != 'quick' or N <= 3 else sorted(int(x) for x in rng.choice(N, size=2, replace=False))
            for n in states:
                pr = C.projected(vecs[n])
                judge_projected(ctx, m, t0, ts, sort, n, pr, False, float_vectors(vecs, sort, n), dict(what, via='projected'))
            n = int(rng.integers(0, N))
            projected_variant(ctx, rng, m, sort, n, vecs, False, what)
            ev = C.Eigenvalue(ni(rng, t0), ts=ni(rng, ts_arg), state=ni(rng, n), sort=sort, **kw)
            judge_projected(ctx, m, t0, ts, sort, n, ev, False, float_vectors(vecs, sort, n), dict(what, via='Eigenvalue'))
            hold(m, 'Eigenvalue', ev)
            one = C.GEVP(t0, ts=ts_arg, sort=sort, state=ni(rng, n), **kw)
            same = np.array_equal(vals(one), vals(vecs[n])) if sort is None else \
                all((a is None and b is None) or (a is not None and b is not None and np.array_equal(a, b)) for a, b in zip(one, vecs[n]))
            jrequire(ctx, same, 'gevp:state-argument-selects-another-vector', dict(what, state=n))
    # eigh vs cholesky
    kap = kappa(m, t0)
    for sort in ('Eigenvalue', 'Eigenvector', None):
        a, b = res.get(('eigh', sort)), res.get(('cholesky', sort))
        if a is None or b is None:
            continue
        for n in range(N):
            for t in range(T):
                if a[n][t] is None or b[n][t] is None:
                    continue
                l = label(m, t0, ts, sort, t, n)
                e = R.err_vector(kap, lam_at(m, t0, t), l)
                bound(ctx, float(np.max(np.abs(coeffs(m, t0, a[n][t] - b[n][t])))), 1e-12 + 2 * FV * e,
                      'methods:eigh-and-cholesky-vectors-differ', sort=sort, state=n, t=t, N=N, t0=t0)
    judge_default_projection(ctx, m, dict(N=N, T=T, nonsym=nonsym, none=nonepat, scale=m.scale, rep=m.rep, stored=m.state))
    judge_held(ctx, m)
    judge_unchanged(ctx, m, 'GEVP / Eigenvalue / projected, vector_obs=False')
    ctx.sample({'N': N, 'T': T, 't0': t0, 'ts': ts, 'E': m.E, 'cond_G0': kap, 'model': kind, 'nonsym': nonsym, 'undefined': sorted(set(range(T)) - m.defined),
                'layout': m.layout, 'scale': m.scale, 'rep': m.rep, 'state': m.state})


def case_gevp_obs(ctx, rng, N, sort, nonsym, nonepat, idx):
    T = int(rng.integers(8, 25)) if N < 5 or ctx.tier != 'quick' else int(rng.integers(8, 17))
    t0, ts = pick_times(rng, T)
    kind = 'cross' if (sort == 'Eigenvector' and rng.random() < 0.7) or rng.random() < 0.25 else 'exp'
    m = make_model(rng, N, T, t0, ts, kind, nonsym, nonepat)
    if kappa(m, t0) > 1e9:
        raise Skip()
    method = [None, 'cholesky', 'eigh'][idx % 3]
    aligned, vecs = run_gevp(ctx, m, sort, method, True, rng)
    if aligned is None:
        return
    C = m.corr
    what = dict(sort=sort, method=method, vector_obs=True, N=N, T=T, t0=t0, ts=ts, model=m.kind, nonsym=nonsym, none=nonepat,
                scale=m.scale, rep=m.rep, stored=m.state)
    ts_arg = ts if sort != 'Eigenvalue' else None
    kw = {} if method is None else {'method': method}
    states = list(range(N)) if ctx.tier != 'quick' or N <= 3 else sorted(int(x) for x in rng.choice(N, size=3, replace=False))
    for n in states:
        pr = C.projected(vecs[n])
        judge_projected(ctx, m, t0, ts, sort, n, pr, True, None, dict(what, via='projected'))
    n = int(rng.integers(0, N))
    if idx % 2 == 0:
        projected_variant(ctx, rng, m, sort, n, vecs, True, what)
    ev = C.Eigenvalue(ni(rng, t0), ts=ni(rng, ts_arg), state=ni(rng, n), sort=sort, vector_obs=True, **kw)
    judge_projected(ctx, m, t0, ts, sort, n, ev, True, None, dict(what, via='Eigenvalue'))
    judge_held(ctx, m)
    judge_unchanged(ctx, m, 'GEVP / Eigenvalue / projected, vector_obs=True')
    ctx.sample({'N': N, 'T': T, 't0': t0, 'ts': ts, 'E': m.E, 'cond_G0': kappa(m, t0), 'model': kind, 'sort': sort, 'vector_obs': True,
                'chains': m.chains, 'scale': m.scale, 'rep': m.rep, 'state': m.state})


# ------------------------------------------------------------------------------------------
# prune
def case_prune(ctx, rng, N, nonepat, idx):
    T = int(rng.integers(8, 21))
    t0 = int(rng.integers(1, T // 3 + 1))
    ts = int(rng.integers(t0 + 1, min(T - 2, t0 + 3) + 1))
    kind = 'cross' if rng.random() < 0.2 else 'exp'
    nonsym = bool(rng.random() < 0.3)
    t0b = int(rng.integers(1, T // 3 + 1))                  # t0 of the GEVP on the pruned matrix
    m = make_model(rng, N, T, t0, ts, kind, nonsym, nonepat, min_defined={t0b}, state=[x for x in STATES[:3] if rng.random() < 0.15])
    if kappa(m, t0) > 1e9:
        raise Skip()
    do_prune(ctx, rng, m, int(rng.integers(1, N)), t0b, idx)
    judge_held(ctx, m)
    judge_unchanged(ctx, m, 'prune')


def do_prune(ctx, rng, m, Ntrunc, t0b, idx):
    N, T, t0, ts, kind, nonsym, nonepat = m.N, m.T, m.t0, m.ts, m.kind, m.nonsym, m.nonepat
    kap = kappa(m, t0)
    C = m.corr
    what = dict(N=N, Ntrunc=Ntrunc, T=T, t0proj=t0, tproj=ts, model=kind, nonsym=nonsym, none=nonepat, scale=m.scale, rep=m.rep, stored=m.state)
    ctx.cell('prune', 'N%d' % N, 'to%d' % Ntrunc, m.nonepat)
    kw = dict(tproj=ni(rng, ts), t0proj=ni(rng, t0))
    if idx % 4 == 3:
        kw['basematrix'] = C
    if len(m.defined) < T:
        jc(ctx, 'prune:undefined-slice-raises')
    try:
        P = C.prune(ni(rng, Ntrunc), **kw)
    except (ValueError, TypeError) as e:
        if len(m.defined) < T and ('matmul' in str(e) or 'NoneType' in str(e)):
            ctx.ev()
            ctx.violation('prune:partially-undefined-slice-raises' if m.partial else 'prune:undefined-slice-raises',
                          dict(what, error=repr(e)[:200], partially_undefined={t: sorted(v) for t, v in m.partial.items()}))
            return
        raise
    jc(ctx, 'prune:shape')
    if getattr(P, 'T', None) != T or getattr(P, 'N', None) != Ntrunc:
        ctx.ev()
        ctx.violation('prune:shape', dict(what, got_T=getattr(P, 'T', None), got_N=getattr(P, 'N', None)))
        return
    hold(m, 'prune', P)
    if idx % 2 == 1:
        jrequire(ctx, fast_digest(C.prune(Ntrunc, **kw)) == fast_digest(P), 'history:prune-twice-with-the-same-arguments-differs', what)
    lam_s = lam_at(m, t0, ts)
    kept = R.order_at(m.F, t0, ts)[:Ntrunc]                  # states with the largest eigenvalues at tproj = lowest energies
    ev_s = max(R.err_vector(kap, lam_s, l) for l in kept)
    if ev_s > THR:
        ctx.count('prune_ill_conditioned_not_judged')
        return
    ctx.count('prune_cases_judged')
    Vall = R.dual_vectors(m.Z, m.F[t0])                      # exact vectors of all states (sign +)
    # the signs of the vectors are those of the (deterministic) solution at (t0proj, tproj)
    own = C.GEVP(t0, ts, sort=None)
    signs = np.array([1.0 if coeffs(m, t0, vals(own[i]))[kept[i]] >= 0 else -1.0 for i in range(Ntrunc)])
    V = Vall[:, kept] * signs[None, :]
    tolv = 1e-12 + 2 * FV * ev_s
    dg = dG(m)
    for t in range(T):
        item = P.content[t]
        if t not in m.defined:
            ctx.count('undefined_slices_judged')
            jrequire(ctx, item is None, 'undefined-slice:pruned-is-not-None', dict(what, t=t))
            continue
        if not jrequire(ctx, item is not None, 'prune:defined-slice-is-None', dict(what, t=t)):
            continue
        got = vals(item).reshape(Ntrunc, Ntrunc)
        lam_t = lam_at(m, t0, t)
        # G'_ij = v_i^T G(t) v_j = delta_ij F_i(t)/F_i(t0proj) (+ the antisymmetric part of a non-symmetric target)
        exp = V.T @ m.Gin[t] @ V
        scale = float(np.max(np.abs(Vall).T @ np.abs(m.Gin[t]) @ np.abs(Vall))) if m.nonsym else float(np.max(lam_t))
        jclose(ctx, got, exp, 'prune:elements-are-not-v_i^T-G(t)-v_j', 't=%d' % t, rtol=tolv, scale=scale, detail=what)
        if not m.nonsym:
            jclose(ctx, np.diag(got), lam_t[kept], 'prune:diagonal-is-not-F_i(t)/F_i(t0proj)', 't=%d' % t, rtol=tolv, scale=float(np.max(lam_t)), detail=what)
        # fluctuations at fixed vectors: v_i^T dG(t) v_j
        for c, arr in dg.items():
            exp_d = np.einsum('ai,abc,bj->ijc', V, arr[t], V)
            got_d = np.array([[obs_deltas(item[i, j] if item.ndim == 2 else item[0], m.chains)[c] for j in range(Ntrunc)] for i in range(Ntrunc)])
            scale = float(np.einsum('ai,ab,bj->ij', np.abs(Vall), np.max(np.abs(arr[t]), axis=2), np.abs(Vall)).max())
            jclose(ctx, got_d, exp_d, 'prune:fluctuations-are-not-v_i^T-dG-v_j', 't=%d chain %s' % (t, c),
                      rtol=1e-13 + tolv, scale=max(scale, 1e-300), detail=what)
    if m.fluctuates:
        ctx.nontrivial.add(digest(m.key, 'prune', Ntrunc))
    # energies of the kept states are preserved: GEVP on the pruned matrix
    if Ntrunc < 2:
        return
    if t0b not in m.defined:
        # (histories prune models built for another t0: a GEVP normalised on an undefined timeslice is not a request of the quantifier)
        ctx.count('pruned_gevp_not_run_t0_undefined')
        return
    vo = bool(idx % 3 == 0)
    sortb = str(rng.choice(['Eigenvalue', 'Eigenvector']))
    tsb = t0b + 1
    if tsb not in m.defined:
        sortb = 'Eigenvalue'
    Fk = m.F[:, kept]
    Gp = np.array([np.diag(Fk[t] / Fk[t0]) for t in range(T)])   # exact pruned matrix (central values)
    kap_b = R.cond_for_bounds(Gp[t0b])
    mu = m.F / m.F[t0][None, :]
    for n in range(Ntrunc):
        evc = P.Eigenvalue(t0b, ts=tsb if sortb == 'Eigenvector' else None, state=n, sort=sortb, vector_obs=vo)
        for t in range(t0b + 1, T):
            item = evc.content[t]
            if t not in m.defined:
                jrequire(ctx, item is None, 'undefined-slice:projected-is-not-None', dict(what, t=t, pruned=True))
                continue
            if not jrequire(ctx, item is not None, 'projected:defined-slice-is-None', dict(what, t=t, pruned=True)):
                continue
            lam_b = Fk[t] / Fk[t0b]
            order = [int(i) for i in np.argsort(-(Fk[tsb] / Fk[t0b] if sortb == 'Eigenvector' else lam_b), kind='stable')]
            k = order[n]
            gap = float(np.min(np.abs(np.delete(lam_b, k) - lam_b[k])))
            lam_all = m.F[t] / m.F[t0b]
            # admixtures a <= FV * ev_s of the removed states in the projection vectors re-enter quadratically in the
            # eigenvalues of the pruned pencil and linearly in their fluctuations (P = Y F Y^T with columns Y_r = O(a))
            leak = float(np.max(lam_all)) / lam_b[k]
            # rounding in forming P(t) = U^T G(t) U carries the conditioning of the *original* G(t0proj):
            # |dP_ij(t)| <= eta(t) = eps * cond * max_n mu_n(t),  mu = F(t)/F(t0proj)
            eta_t, eta_0 = EPS * kap * float(np.max(mu[t])), EPS * kap * float(np.max(mu[t0b]))
            form_l = eta_t / mu[t, kept[k]] + eta_0 / mu[t0b, kept[k]]
            form_v = (eta_t + float(np.max(lam_b)) * eta_0) / float(np.min(mu[t0b, kept])) / gap
            est = EPS * kap_b * float(np.max(lam_b)) / lam_b[k] + (FV * ev_s) ** 2 * leak + form_l
            est_v = EPS * kap_b * float(np.max(lam_b)) / gap + FV * ev_s * float(np.max(lam_all)) / gap + form_v
            est_f = max(est, est_v * max(1.0, float(np.max(lam_b)) / gap), FV * ev_s * leak)
            if est > THR or est_v > THR:
                ctx.count('projected_ill_conditioned_not_judged')
                continue
            o = item[0]
            ctx.count('projected_values_judged')
            jclose(ctx, o.value, lam_b[k], 'prune:energies-of-kept-states-not-preserved', 'state %d t=%d' % (n, t), rtol=1e-12 + FV * est,
                      detail=dict(what, t0=t0b, sort=sortb, vector_obs=vo))
            if vo and est_f <= 0.1 * THR:
                ctx.count('projected_fluctuations_judged')
                exp = {c: R.lambda_response(m.F, m.dF, t0b, m.dE[c])[t, kept[k]] for c in m.chains}
                scale = max(max(float(np.max(np.abs(e))) for e in exp.values()),
                            float(lam_b[k]) * max(float(np.max(np.abs(m.dE[c][kept[k]]))) for c in m.chains), 1e-300)
                for c in m.chains:
                    jclose(ctx, obs_deltas(o, m.chains)[c], exp[c], 'prune:vector_obs-fluctuations-of-kept-energies-not-preserved',
                              'state %d t=%d chain %s' % (n, t, c), rtol=1e-12 + FD * est_f, scale=scale,
                              detail=dict(what, t0=t0b, sort=sortb))
    ctx.sample({'prune': what, 'kept_states': kept, 'E': m.E})


# ------------------------------------------------------------------------------------------
# histories: several *different* matrices that agree in everything a cheap cache key could look at
def case_history(ctx, rng, N, idx):
    T = int(rng.integers(8, 17))
    t0, ts = pick_times(rng, T)
    if ts > T - 2:
        ts = t0 + 1
    chains = rand_chains(rng)
    rep_ = str(rng.choice(REPRS))
    K = 2 if N > 3 or rng.random() < 0.6 else 3
    ms = []
    for j in range(K):
        # coincidence of central values: the second matrix may have exactly the means of the first, on other data
        like = ms[0] if j == 1 and rng.random() < 0.6 else None
        if like is not None:
            ctx.count('history_equal_means_models')
        m = make_model(rng, N, T, t0, ts, str(rng.choice(['exp', 'cross'])), bool(rng.random() < 0.3), 'no', chains=chains,
                       rep=rep_, state=[], scale=str(rng.choice(['unit', 'global'])), min_defined=set(range(T)), like=like)
        if kappa(m, t0) > 1e9:
            raise Skip()
        m.last = None
        m.is_like = like is not None
        ms.append(m)
    # equal summary, different member: the first matrix once more with one interior timeslice undefined
    # (same N, T, t0, names, same first / last slice, the very same Obs objects everywhere else)
    cand = [t for t in range(t0 + 1, T - 1) if t != ts]
    if cand and rng.random() < 0.7:
        import copy
        th = int(rng.choice(cand))
        h = copy.copy(ms[0])
        h.defined = ms[0].defined - {th}
        h.corr = PE.Corr([None if t == th else ms[0].corr.content[t] for t in range(T)])
        h.nonepat, h._dG, h.kappa, h.held, h.last = 'int', None, {}, [], None
        h.key = digest(ms[0].key, 'hole', th)
        h.digest0 = fast_digest(h.corr)
        ms.insert(1, h)
        K += 1
        ctx.count('history_equal_summary_models')
    ctx.cell('history', 'N%d' % N, 'K%d' % K)

    def op_gevp(m, sort, method, vo=False):
        aligned, vecs = run_gevp(ctx, m, sort, method, vo, rng)
        if aligned is not None:
            m.last = (sort, vecs, vo)
        return vecs

    def op_eigenvalue(m):
        sort = [None, 'Eigenvalue', 'Eigenvector'][int(rng.integers(0, 3))]
        n = int(rng.integers(0, N))
        ev = m.corr.Eigenvalue(ni(rng, t0), ts=ni(rng, ts if sort != 'Eigenvalue' else None), state=ni(rng, n), sort=sort)
        own = m.corr.GEVP(t0, ts=ts if sort != 'Eigenvalue' else None, sort=sort)
        judge_projected(ctx, m, t0, ts, sort, n, ev, False, float_vectors(own, sort, n), dict(via='Eigenvalue in a history', N=N, T=T, t0=t0, sort=sort))
        hold(m, 'Eigenvalue', ev)

    def op_projected(m):
        if m.last is None:
            op_gevp(m, 'Eigenvalue', 'eigh')
        if m.last is None:
            return
        sort, vecs, vo = m.last
        n = int(rng.integers(0, N))
        pr = m.corr.projected(vecs[n])
        judge_projected(ctx, m, t0, ts, sort, n, pr, vo, None if vo else float_vectors(vecs, sort, n),
                        dict(via='projected in a history', N=N, T=T, t0=t0, sort=sort))
        hold(m, 'projected', pr)

    def op_prune(m):
        do_prune(ctx, rng, m, int(rng.integers(1, N)), max(1, t0), int(rng.integers(0, 8)))

    # A, B, A with identical arguments (in both orders over the cases), then a random walk over the operations
    sort0 = [None, 'Eigenvalue', 'Eigenvector'][idx % 3]
    method0 = ['eigh', 'cholesky'][(idx // 3) % 2]
    first = ms[idx % 2]
    second = ms[1 - idx % 2]
    vo0 = bool(N <= 3 and any(getattr(m, 'is_like', False) for m in ms))     # equal means on other data: only the fluctuations differ
    r1 = op_gevp(first, sort0, method0, vo0)
    d1 = fast_digest(r1)
    op_gevp(second, sort0, method0, vo0)
    r3 = op_gevp(first, sort0, method0, vo0)
    ctx.count('history_repeats_judged')
    jrequire(ctx, fast_digest(r3) == d1, 'history:GEVP-result-depends-on-calls-made-in-between', dict(N=N, T=T, t0=t0, sort=sort0, method=method0))
    ops = [op_eigenvalue, op_projected, op_prune] if N >= 3 else [op_eigenvalue, op_projected]
    for step in range(int(rng.integers(4, 9))):
        m = ms[int(rng.integers(0, K))]
        r = rng.random()
        if r < 0.4:
            vo = bool(N <= 3 and rng.random() < 0.3)
            op_gevp(m, [None, 'Eigenvalue', 'Eigenvector'][int(rng.integers(0, 3))], [None, 'eigh', 'cholesky'][int(rng.integers(0, 3))], vo)
        else:
            ops[int(rng.integers(0, len(ops)))](m)
    r4 = op_gevp(first, sort0, method0, vo0)
    ctx.count('history_repeats_judged')
    jrequire(ctx, fast_digest(r4) == d1, 'history:GEVP-result-depends-on-calls-made-in-between', dict(N=N, T=T, t0=t0, sort=sort0, method=method0, at='end'))
    for m in ms:
        judge_held(ctx, m)
        judge_unchanged(ctx, m, 'history')
    ctx.sample({'history': dict(N=N, T=T, t0=t0, ts=ts, K=K, chains=ms[0].chains, rep=rep_), 'E': [m.E for m in ms]})


# ------------------------------------------------------------------------------------------
# the solver called directly (as the library's own tests do): Cholesky factor computed inside, fallback branch
def case_solver(ctx, rng, idx):
    N = int(rng.integers(2, 6))
    T = int(rng.integers(8, 17))
    t0, ts = pick_times(rng, T)
    m = make_model(rng, N, T, t0, ts, str(rng.choice(['exp', 'cross'])), False, 'no', state=[], rep='list')
    if kappa(m, t0) > 1e9:
        raise Skip()
    solver = PE.correlators._GEVP_solver
    vo = bool(idx % 3 == 0 and N <= 4)
    t = int(rng.integers(t0 + 1, T))
    G0 = m.corr[t0] if vo else m.G[t0]
    Gt = m.corr[t] if vo else m.G[t]
    ctx.cell('solver', 'obs' if vo else 'float', 'N%d' % N)
    what = dict(N=N, t0=t0, t=t, vector_obs=vo, via='_GEVP_solver called directly')
    res = {}
    for method, kw in (('cholesky', {}), ('cholesky', {'chol_inv': None}), ('eigh', {})):
        if vo and method == 'eigh':
            continue
        vs = solver(Gt, G0, method=method, **kw)             # no chol_inv: the factor is computed inside
        ctx.count('direct_solver_calls_judged')
        if not jrequire(ctx, len(vs) == N and all(v is not None for v in vs), 'solver:direct-call-returns-no-vectors', dict(what, method=method)):
            continue
        al = judge_vectors_at(ctx, m, t0, t, t, 'Eigenvalue', method, vo, [vs[n] for n in range(N)])
        res.setdefault(method, al)
    # with a precomputed inverse factor the result is the same
    L = np.linalg.cholesky(m.G[t0])
    if not vo:
        a = np.asarray(solver(Gt, G0, method='cholesky', chol_inv=np.linalg.inv(L)))
        b = np.asarray(solver(Gt, G0, method='cholesky'))
        jclose(ctx, a, b, 'solver:precomputed-and-internal-cholesky-factor-differ', 'vectors', rtol=1e-13 + FV * EPS * kappa(m, t0), detail=what)
    if m.fluctuates:
        ctx.nontrivial.add(digest(m.key, 'solver', t, vo))


# ------------------------------------------------------------------------------------------
# inputs outside the domain must be refused, not answered
def must_raise(ctx, row, fn, **detail):
    ctx.count('rejections_judged')
    jc(ctx, 'reject:%s:accepted' % row)
    ctx.ev()
    try:
        r = fn()
    except Exception as e:
        ctx.cell('reject', row, type(e).__name__)
        return
    ctx.violation('reject:%s:accepted' % row, dict(detail, returned=repr(r)[:200]))


def case_reject(ctx, rng, idx):
    N = int(rng.integers(2, 5))
    T = int(rng.integers(8, 13))
    t0, ts = int(rng.integers(1, 3)), int(rng.integers(3, 6))
    m = make_model(rng, N, T, t0, ts, 'exp', False, 'no', state=[], rep='list')
    C = m.corr
    single = C.item(0, 0)                                   # N = 1
    v = np.ones(N)
    rows = [
        ('N=1:GEVP', lambda: single.GEVP(t0)),
        ('N=1:Eigenvalue', lambda: single.Eigenvalue(t0)),
        ('N=1:prune', lambda: single.prune(1)),
        ('N=1:projected', lambda: single.projected(v)),
        ('ts=t0:sort-None', lambda: C.GEVP(ni(rng, t0), ts=ni(rng, t0), sort=None)),
        ('ts<t0:sort-Eigenvector', lambda: C.GEVP(ni(rng, ts), ts=ni(rng, t0), sort='Eigenvector')),
        ('ts=t0:Eigenvalue-sort-None', lambda: C.Eigenvalue(t0, ts=t0, sort=None)),
        ('ts-missing:sort-None', lambda: C.GEVP(t0, sort=None)),
        ('ts-missing:sort-Eigenvector', lambda: C.GEVP(t0, sort='Eigenvector')),
        ('unknown-sort', lambda: C.GEVP(t0, ts=ts, sort='eigenvalue')),
        ('prune:Ntrunc=N', lambda: C.prune(ni(rng, N), tproj=ts, t0proj=t0)),
        ('prune:Ntrunc>N', lambda: C.prune(N + 1, tproj=ts, t0proj=t0)),
        ('projected:vector-of-wrong-length', lambda: C.projected(np.ones(N + 1))),
        ('projected:vector-list-shorter-than-T', lambda: C.projected([v] * (T - 1), v)),
        ('projected:right-vector-list-longer-than-T', lambda: C.projected(v, [v] * (T + 1))),
        ('N=1:is_matrix_symmetric', lambda: single.is_matrix_symmetric()),
        ('N=1:matrix_symmetric', lambda: single.matrix_symmetric()),
        ('mpm:correlators-of-different-length', lambda: PE.mpm.matrix_pencil_method([[single[t] for t in range(T)], [single[t] for t in range(T - 1)]], k=1)),
        ('mpm:p>=number-of-points', lambda: PE.mpm.matrix_pencil_method([single[t] for t in range(T)], k=1, p=T)),
        ('mpm:k>p', lambda: PE.mpm.matrix_pencil_method([single[t] for t in range(T)], k=3, p=2)),
        ('mpm:k>N-p', lambda: PE.mpm.matrix_pencil_method([single[t] for t in range(T)], k=3, p=T - 2)),
    ]
    neg = PE.Corr([-1.0 * C.content[t] for t in range(T)])
    rows.append(('G(t0)-negative-definite', lambda: neg.GEVP(t0)))
    und = PE.Corr([C.content[t] if t != t0 else None for t in range(T)])
    rows.append(('t0-undefined:sort-None', lambda: und.GEVP(t0, ts=ts, sort=None)))
    for row, fn in rows:
        must_raise(ctx, row, fn, N=N, T=T, t0=t0, ts=ts)
    judge_unchanged(ctx, m, 'rejected calls')
    ctx.nontrivial.add(digest('reject', m.key))


# ------------------------------------------------------------------------------------------
# M3: matrix pencil
MPM_SIGNS = ['mixed', 'positive', 'mixed', 'negative']
MPM_PMODES = ['default', 'half', 'k', 'interior', 'max']


def case_mpm(ctx, rng, k, idx, j=0):
    """Stratified by the case index (not by independent draws): amplitude signs x parity of T x choice of p, so that every
    combination - in particular mixed signs with an even T and the square pencil p = T/2 > k - occurs in every 40 cases."""
    sign = MPM_SIGNS[idx % 4]
    even = (idx // 4) % 2 == 0
    pmode = MPM_PMODES[(idx // 8) % 5]
    amp = ['generic', 'scaled', 'spread', 'same-object', 'generic'][(idx // 40 + j) % 5]
    if rng.random() < 0.2:
        T = 2 * k if even else 2 * k + 1                   # the limit: k exponentials, 2k points (p = k, a k x k pencil)
    else:
        T = int(rng.integers(max(8, 2 * k), 24))
        if (T % 2 == 0) != even:
            T += 1
    p = {'default': None, 'half': T // 2, 'k': k, 'max': T - k, 'interior': int(rng.integers(k, T - k + 1))}[pmode]
    E = rand_spectrum(rng, k, 1)
    layout, ce, cz = rand_chains(rng)
    chains = {n: len(i) for n, i in ce + cz}
    sig = 10.0 ** rng.uniform(-4, -2)
    sg = np.ones(k)
    if sign == 'negative':
        sg[:] = -1.0
    elif sign == 'mixed':
        sg = np.array([(-1.0) ** (i + int(rng.integers(0, 2))) for i in range(k)])      # alternating: both signs occur for k >= 2
    if amp == 'same-object' and sign == 'mixed':
        amp = 'generic'
    c0 = 10.0 ** rng.uniform(-8, 8) if amp == 'scaled' else 1.0
    A = rng.uniform(0.3, 2.0, size=k) * sg * c0
    if amp == 'spread':
        A = A * 10.0 ** rng.uniform(-1.5, 1.5, size=k)
    Eo = [mk_obs(rng, x, sig, ce) for x in E]
    if amp == 'same-object':
        a1 = mk_obs(rng, A[0], sig * abs(A[0]), cz)
        Ao = [a1] * k                                       # exactly equal overlaps: the same Obs k times in the parameter list
    else:
        Ao = [mk_obs(rng, x, sig * abs(x), cz) for x in A]
    E = np.array([o.value for o in Eo])
    A = np.array([o.value for o in Ao])
    c, J = R.single_correlator(E, A, T)
    # spectator: an observable the correlator does not depend on (derivative exactly 0), first or last in the parameter list
    spect = str(rng.choice(['none', 'none', 'first', 'last']))
    pars = Eo + Ao
    off = 0
    if spect != 'none':
        so = mk_obs(rng, float(rng.normal()), 0.3, [('spectator|r1', rand_idl(rng))])
        chains['spectator|r1'] = len(so.deltas['spectator|r1'])
        zero = np.zeros((T, 1))
        if spect == 'first':
            pars, J, off = [so] + pars, np.concatenate([zero, J], axis=1), 1
        else:
            pars, J = pars + [so], np.concatenate([J, zero], axis=1)
    co = PE.derived_observable(lambda x, **kw: R.single_correlator(x[off:off + k], x[off + k:off + 2 * k], T)[0], pars, man_grad=J)
    how = ['list', 'ndarray', 'list-default-k', 'fortran-view'][(idx + j) % 4]
    if how == 'ndarray':
        data = np.array(co)
    elif how == 'fortran-view':
        big = np.empty((T, 2), dtype=object)
        big[:, 0] = co
        big[:, 1] = co[::-1]
        data = big[:, 0]                                    # strided view of a 2-d object array
    else:
        data = list(co)
    square = (p if p is not None else max(T // 2, k)) * 2 == T
    pe_ = p if p is not None else max(T // 2, k)
    ctx.cell('mpm', 'k%d' % k, sign, 'even' if even else 'odd', pmode)
    ctx.cell('mpm-input', how, amp, 'spectator-' + spect)
    ctx.cell('mpm-shape', 'T=2k' if T == 2 * k else ('T=2k+1' if T == 2 * k + 1 else 'T'), 'k=p' if pe_ == k else 'k<p', 'square' if square else 'rect')
    kw = dict(k=ni(rng, k))
    if p is not None:
        kw['p'] = ni(rng, p)
    if how == 'list-default-k' and k == 1 and p is None:
        kw = {}
    d0 = fast_digest(data)
    if idx % 3 == 2:
        # another correlator of the same length on the same chains in between: A, B, A with the same argument objects
        first = PE.mpm.matrix_pencil_method(data, **kw)
        E2 = rand_spectrum(rng, k, 1)
        other = [mk_obs(rng, float(np.sum(np.exp(-E2 * t))), sig, ce) for t in range(T)]
        try:
            PE.mpm.matrix_pencil_method(other, **kw)
        except Exception:
            pass
        en = PE.mpm.matrix_pencil_method(data, **kw)
        ctx.count('history_repeats_judged')
        jrequire(ctx, fast_digest(en) == fast_digest(first), 'history:mpm-result-depends-on-calls-made-in-between', dict(k=k, T=T, p=p))
    else:
        en = PE.mpm.matrix_pencil_method(data, **kw)
    ctx.count('input_unchanged_judged')
    jrequire(ctx, fast_digest(data) == d0, 'mutation:mpm-changes-its-input', dict(k=k, T=T, p=p, how=how))
    hostile = sign == 'mixed' and k >= 2
    what = dict(k=k, T=T, p=p, E=E, amplitudes=amp, signs=sign, input=how, spectator=spect)
    jc(ctx, 'mpm:result-shape')
    if len(en) != k or not all(is_obs(x) for x in en):
        ctx.ev()
        ctx.violation('mpm:result-shape', dict(what, got=len(en)))
        return
    ref, ratio, s = R.pencil_energies(c, k, p)
    what['s_k/s_1'] = ratio
    vtol = 1e-13 + 200 * EPS / ratio
    dtol = 1e-12 + 1e4 * EPS / ratio
    if vtol > 1e-6 or np.max(np.abs(ref - E) / E) > vtol:
        ctx.count('mpm_ill_conditioned_not_judged')
        return
    gv = np.array([x.value for x in en])
    jc(ctx, 'mpm:energies-not-sorted')
    if not np.all(np.diff(np.abs(gv)) >= 0):
        ctx.ev()
        ctx.violation('mpm:energies-not-sorted', dict(what, got=gv))
        return
    for n in range(k):
        ctx.count('mpm_energies_judged')
        for cn in chains:
            if cn in Eo[n].r_values and cn in en[n].r_values and len([x for x in chains if x.split('|')[0] == cn.split('|')[0]]) > 1:
                ctx.count('observed:replica-means:mpm')
                # telemetry only (the property names the energies, not their replica means): linalg.eig re-evaluates the unsorted
                # np.linalg.eig at the replica means, so a level may carry the replica mean of another level
                got_all = sorted(float(x.r_values[cn]) for x in en)
                exp_all = sorted(float(x.r_values[cn]) for x in Eo)
                if abs(en[n].r_values[cn] - Eo[n].r_values[cn]) <= 2 * vtol * abs(Eo[n].r_values[cn]):
                    ctx.count('mpm_replica_means_agree')
                elif np.allclose(got_all, exp_all, rtol=2 * vtol, atol=0):
                    ctx.count('mpm_replica_means_in_another_level_order')
                else:
                    ctx.count('mpm_replica_means_differ')
        if hostile:
            ctx.count('mpm_mixed_sign_energies_judged')
            if square and pe_ > k:
                ctx.count('mpm_mixed_sign_square_pencil_k<p_energies_judged')
        ctx.count('mpm_%s_T_energies_judged' % ('even' if even else 'odd'))
        ctx.count('mpm_p_%s_energies_judged' % pmode)
        ctx.count('mpm_%s_energies_judged' % ('k=p' if pe_ == k else 'k<p'))
        jclose(ctx, gv[n], E[n], 'mpm:energy-value', 'level %d' % n, rtol=vtol, detail=what)
        if dtol > 1e-6:
            continue
        got = obs_deltas(en[n], chains)
        exp = obs_deltas(Eo[n], chains)
        scale = max(max(float(np.max(np.abs(e))) for e in exp.values()), 1e-300)
        for cn in chains:
            jclose(ctx, got[cn], exp[cn], 'mpm:energy-fluctuations', 'level %d chain %s' % (n, cn), rtol=dtol, scale=scale, detail=what)
        extra = [x for x in obs_chain_names(en[n]) if x not in chains]
        jc(ctx, 'mpm:chain-names')
        if extra:
            ctx.ev()
            ctx.violation('mpm:chain-names', dict(what, extra=extra))
    ctx.nontrivial.add(digest('mpm', E, A, T, p))
    ctx.sample({'mpm': dict(k=k, T=T, p=p), 'E': E, 'got': gv, 's_k/s_1': ratio})


def case_mpm_set(ctx, rng, k, idx):
    """several correlators analysed at once (list of lists): all are sums of the same k exponentials with other amplitudes."""
    nset = 2 + idx % 2
    even = (idx // 2) % 2 == 0
    T = int(rng.integers(max(8, 2 * k), 24))
    if (T % 2 == 0) != even:
        T += 1
    pmode = MPM_PMODES[(idx // 4) % 5]
    p = {'default': None, 'half': T // 2, 'k': k, 'max': T - k, 'interior': int(rng.integers(k, T - k + 1))}[pmode]
    E = rand_spectrum(rng, k, 1)
    layout, ce, cz = rand_chains(rng)
    chains = {n: len(i) for n, i in ce + cz}
    sig = 10.0 ** rng.uniform(-4, -2)
    Eo = [mk_obs(rng, x, sig, ce) for x in E]
    E = np.array([o.value for o in Eo])
    cs, data, amps = [], [], []
    same = bool(idx % 7 == 3)                               # the same correlator object in every slot
    for j in range(nset):
        if same and j > 0:
            cs.append(cs[0]); data.append(data[0]); amps.append(amps[0])
            continue
        A = rng.uniform(0.3, 2.0, size=k) * np.array([(-1.0) ** (i * (idx % 3 == 0) + j * (idx % 3 == 1)) for i in range(k)])
        Ao = [mk_obs(rng, x, sig * abs(x), cz) for x in A]
        A = np.array([o.value for o in Ao])
        c, J = R.single_correlator(E, A, T)
        co = PE.derived_observable(lambda x, **kw: R.single_correlator(x[:k], x[k:], T)[0], Eo + Ao, man_grad=J)
        cs.append(c)
        amps.append(A)
        data.append(list(co) if (idx + j) % 2 == 0 else np.array(co))
    ctx.cell('mpm-set', 'k%d' % k, 'n%d' % nset, pmode, 'same-object' if same else 'different')
    kw = dict(k=ni(rng, k))
    if p is not None:
        kw['p'] = ni(rng, p)
    d0 = fast_digest(data)
    en = PE.mpm.matrix_pencil_method(data, **kw)
    jrequire(ctx, fast_digest(data) == d0, 'mutation:mpm-changes-its-input', dict(k=k, T=T, p=p, sets=nset))
    what = dict(k=k, T=T, p=p, E=E, sets=nset, same_object=same)
    jc(ctx, 'mpm:result-shape')
    if len(en) != k or not all(is_obs(x) for x in en):
        ctx.ev()
        ctx.violation('mpm:result-shape', dict(what, got=len(en)))
        return
    ref, ratio, sv = R.pencil_energies_set(cs, k, p)
    what['s_k/s_1'] = ratio
    vtol = 1e-13 + 200 * EPS / ratio
    dtol = 1e-12 + 1e4 * EPS / ratio
    if vtol > 1e-6 or np.max(np.abs(ref - E) / E) > vtol:
        ctx.count('mpm_ill_conditioned_not_judged')
        return
    gv = np.array([x.value for x in en])
    jc(ctx, 'mpm:energies-not-sorted')
    if not np.all(np.diff(np.abs(gv)) >= 0):
        ctx.ev()
        ctx.violation('mpm:energies-not-sorted', dict(what, got=gv))
        return
    for n in range(k):
        ctx.count('mpm_set_energies_judged')
        jclose(ctx, gv[n], E[n], 'mpm:several-correlators:energy-value', 'level %d' % n, rtol=vtol, detail=what)
        if dtol > 1e-6:
            continue
        got = obs_deltas(en[n], chains)
        exp = obs_deltas(Eo[n], chains)
        scale = max(max(float(np.max(np.abs(e))) for e in exp.values()), 1e-300)
        for cn in chains:
            jclose(ctx, got[cn], exp[cn], 'mpm:several-correlators:energy-fluctuations', 'level %d chain %s' % (n, cn), rtol=dtol, scale=scale, detail=what)
    ctx.nontrivial.add(digest('mpmset', E, T, p, nset))


# ------------------------------------------------------------------------------------------
def setup(ctx):
    global PE, CTX
    import pyerrors as pe
    PE = pe
    CTX = ctx
    taps.tap_function(pe.correlators, '_GEVP_solver', SolverMonitor())
    for name in ('GEVP', 'Eigenvalue', 'projected', 'prune'):
        taps.tap_method(pe.Corr, name, taps.Monitor())
    taps.tap_function(pe.mpm, 'matrix_pencil_method', taps.Monitor())


def teardown(ctx):
    taps.report(ctx)
    taps.remove_all()


NONE_PATS = ['no', 'pad', 'int']


def plan(tier):
    """cheap kinds first: the worker interleaves kinds in this order, so every deciding monitor has fired long before a
    time budget can cut the run short on a loaded machine."""
    q = tier == 'quick'
    p = []
    for j in range(3 if q else 6):              # several kinds per k: cheap cases get a larger share of a time-limited run
        for k in (1, 2, 3):
            p.append(('mpm:%d:%d' % (k, j), 40 if q else 200))           # 40 = one full round of the strata of case_mpm
    for N in (3, 4, 5):
        for npat in NONE_PATS:
            p.append(('prune:%d:%s' % (N, npat), 8 if q else 80))
    p.append(('reject', 50 if q else 200))
    p.append(('solver', 60 if q else 400))
    for k in (1, 2, 3):
        p.append(('mpmset:%d' % k, 25 if q else 200))
    for N in (2, 3, 4):
        p.append(('hist:%d' % N, 14 if q else 150))
    po, pf = [], []
    for N in (2, 3, 4, 5):
        for sort in ('Eigenvalue', 'Eigenvector', 'None'):
            for sym in ('sym', 'nonsym'):
                for npat in NONE_PATS:
                    po.append(('o:%d:%s:%s:%s' % (N, sort, sym, npat), (2 if N < 5 else 1) if q else 30))
    for N in (2, 3, 4, 5):
        for sym in ('sym', 'nonsym'):
            for npat in NONE_PATS + ['many']:
                for kind in ('exp', 'cross'):
                    pf.append(('f:%d:%s:%s:%s' % (N, sym, npat, kind), (2 if N < 3 else 1) if q else 40))
    # vector_obs and float kinds alternate, so that a run cut short by its time budget has seen both
    for i in range(max(len(po), len(pf))):
        p.extend(po[i:i + 1])
        p.extend(pf[i:i + 1])
    return p


def run_case(ctx, kind, idx, rng):
    k = kind.split(':')
    if k[0] == 'f':
        case_gevp_float(ctx, rng, int(k[1]), k[2] == 'nonsym', k[3], k[4])
    elif k[0] == 'o':
        case_gevp_obs(ctx, rng, int(k[1]), None if k[2] == 'None' else k[2], k[3] == 'nonsym', k[4], idx)
    elif k[0] == 'prune':
        case_prune(ctx, rng, int(k[1]), k[2], idx)
    elif k[0] == 'mpm':
        case_mpm(ctx, rng, int(k[1]), idx, int(k[2]) if len(k) > 2 else 0)
    elif k[0] == 'hist':
        case_history(ctx, rng, int(k[1]), idx)
    elif k[0] == 'reject':
        case_reject(ctx, rng, idx)
    elif k[0] == 'solver':
        case_solver(ctx, rng, idx)
    elif k[0] == 'mpmset':
        case_mpm_set(ctx, rng, int(k[1]), idx)
    else:
        raise ValueError(kind)
