"""C18 - truncated measurement files never produce wrong numbers (fault enumeration).

The harness writes small synthetic file sets (the writers of C17, vmon.ref.files, which also return the
record-boundary table of every file), cuts ONE file of the set at byte k (the file keeps bytes [0, k)),
calls the real reader and requires: an exception, or exactly the C17 expectation for the n(k) complete
records that precede the cut (same numbers at the same configuration numbers; all other files of the set
are complete).  Anything else is a violation tagged by format and mechanism.

thorough: EVERY offset 0..len-1 of every file of the generated sets; quick: all record / field boundaries
+-1 plus ~200 seeded random offsets per file.  Exported archives (json, dobs/pobs xml, csv; gz and plain)
cut anywhere must raise, or load content identical to the complete file.
"""
import os
import time
import tempfile

import numpy as np

from . import C17 as R
from ..ctx import digest
from ..snap import any_digest
from ..ref import files as F

ID = 'C18'
LEVEL = 'fault_enumeration'
DECIDING = ['offsets_enumerated', 'reads_raised', 'reads_returned_prefix', 'writer_selfcheck_ok', 'archive_offsets_enumerated',
            'cuts_exactly_at_a_record_boundary', 'cuts_in_a_later_file_after_complete_first_file', 'recovery_reads',
            'cuts_in_the_layout_discovery_file', 'cuts_inside_leading_blanks_of_a_data_line']
RULE = ('crash points: a file of a small synthetic file set (2 replicas, 6-9 configurations; rwms 1.4/1.6/2.0, pbp, ms.dat energy density / '
        'plaquette / Qtop, gfms Qtop Wilson+Zeuthen / GF coupling, ms5_xsf, sfcf o/c/a, Hadrons hdf5) or an exported archive (json, dobs, pobs, csv; '
        'gz and plain) is cut at byte k; thorough enumerates every k in 0..len-1 of every file of every generated set (counter '
        'offsets_enumerated; files_fully_enumerated counts the files), quick every record/field boundary +-1 and ~200 seeded random offsets per file; '
        'every file of a multi-file set is cut in turn (counter cuts_in_a_later_file_after_complete_first_file: state carried from the complete first file), every '
        'record boundary is cut exactly in both tiers (cuts_exactly_at_a_record_boundary), and after the cuts of a case the restored complete set must read back '
        'completely (recovery_reads: no state kept from truncated reads); '
        'every crash point is read with several documented option combinations (counters judged:<format>:<variant>); '
        'outcome must be an exception or exactly the expectation for the n(k) complete records before the cut; a crash point is non-trivial when '
        'the reader was actually run on the cut file and its outcome classified; distinct = (format, reader variant, file-set digest, file, offset)')
ASSUMPTIONS = ['writers and their boundary tables are validated byte-for-byte against the sample files (C17 self-check)',
               'record of the binary formats = the fixed-size record the program writes per configuration (number + all blocks)',
               'sfcf text output: the unit is the correlator block (the anchor of the property, the EOF test of the compact reader, works on blocks): '
               'a read that returns exactly the stored numbers of a textually complete block of a cut file is admissible; per-configuration files can '
               'only be read completely, dropped, or rejected',
               'archives: a cut that still loads content identical to the complete file (bytes the format does not need) is not a violation',
               'plain csv has no end marker: a cut at a row boundary cannot be detected by any reader; counted (csv-plain:*), not judged; the statement names csv.gz']
BUDGET = {'quick': 45, 'thorough': 480}
TMPROOT = '/var/tmp'
PARTS = 8           # a file set's crash points are dealt round-robin to PARTS cases

PE = None


def setup(ctx):
    global PE
    R.setup(ctx)
    PE = R.PE


def teardown(ctx):
    R.teardown(ctx)


# ------------------------------------------------------------------------------------------------
def matches(judge_fn, ctx, res, exp):
    if exp is None:
        return False
    t = ctx.trial()
    try:
        judge_fn(t, 'm', res, exp, {})
    except Exception:
        return False
    return not t.violations


def offsets_for(ctx, rng, size, marks):
    """thorough: all offsets; quick: marks +-1, first/last bytes, ~200 random ones."""
    if ctx.tier == 'thorough':
        return list(range(size))
    s = set()
    for m in list(marks) + [0, size]:
        for dlt in (-1, 0, 1):
            if 0 <= m + dlt < size:
                s.add(m + dlt)
    n = min(200, size)
    s.update(int(x) for x in rng.integers(0, size, size=n))
    return sorted(s)


def set_rng(ctx, kind, set_id):
    import zlib
    return np.random.default_rng([int(ctx.seed) & 0xFFFFFFFF, zlib.crc32(('C18set:' + kind).encode()), int(set_id)])


class Enum:
    """Bookkeeping of one case (a part of the crash points of one file set)."""

    def __init__(self, ctx, fmt):
        self.ctx, self.fmt = ctx, fmt

    def point(self, variant, setdig, rel, k):
        self.ctx.count('offsets_enumerated')
        self.ctx.nontrivial.add(digest(self.fmt, variant, setdig, rel, k))

    def raised(self, e, where):
        # an exception raised by the harness itself must not be taken for a rejection by the reader
        if self.ctx.classify_exception(e)[0] != 'library':
            raise e
        self.ctx.ev()
        self.ctx.count('reads_raised')
        self.ctx.cell(self.fmt, where, 'raised')

    def ok_prefix(self, where, n):
        self.ctx.ev()
        self.ctx.count('reads_returned_prefix')
        self.ctx.cell(self.fmt, where, 'prefix')


def where_binary(bounds, k):
    f = F.field_at(bounds, k)
    if f is None:
        return 'end'
    if f[3] < 0:
        return 'header'
    lab = f[2].split(':')[0]
    last = f[3] == len(bounds['records']) - 1
    edge = 'boundary' if k == f[0] else 'inside'
    return '%s-%s%s' % (edge, lab, '-lastrec' if last else '')


# ------------------------------------------------------------------------------------------------
# binary record formats
# ------------------------------------------------------------------------------------------------
def _win(S, rule):
    """r_start = second, r_stop = last but one configuration of every replica (None when a chain is too short)."""
    cm = {r: R.cfg_map(S.traj[r], rule) for r in S.reps}
    if any(len(c) < 7 or c[1] == 0 for c in cm.values()):
        return None
    return [cm[r][1] for r in S.reps], [cm[r][-2] for r in S.reps]


def variants_rwms(S, d, rng):
    """Every documented option of read_rwms together with the truncation (checklist 13)."""
    v = [('read_rwms', lambda: S.read(d), lambda nrec: S.expect(nrec=nrec), R.judge_list)]
    w = _win(S, 'rwms')
    if w:
        v.append(('r_start+r_stop', lambda: S.read(d, r_start=list(w[0]), r_stop=list(w[1])), lambda nrec: S.expect(nrec=nrec, r_start=w[0], r_stop=w[1]), R.judge_list))
        v.append(('r_start', lambda: S.read(d, r_start=list(w[0])), lambda nrec: S.expect(nrec=nrec, r_start=w[0]), R.judge_list))
    if all(len(S.traj[r]) >= 9 for r in S.reps):
        v.append(('r_step', lambda: S.read(d, r_step=2), lambda nrec: S.expect(nrec=nrec, r_step=2), R.judge_list))
    perm = list(S.reps)[::-1]
    nn = ['lbl|r%d' % r for r in perm]
    v.append(('files+names-reversed', lambda: S.read(d, files=[S.fname(r) for r in perm], names=list(nn)),
              lambda nrec: S.expect(nrec=nrec, reps=perm, names=nn), R.judge_list))
    v.append(('print_err', lambda: S.read(d, print_err=True), lambda nrec: S.expect(nrec=nrec), R.judge_list))
    return v


def variants_pbp(S, d, rng):
    """read_pbp numbers the measurements by position; r_stop = n keeps the first n of what is there."""
    v = [('read_pbp', lambda: S.read(d), lambda nrec: S.expect_positional(nrec=nrec), R.judge_list),
         ('print_err', lambda: S.read(d, print_err=True), lambda nrec: S.expect_positional(nrec=nrec), R.judge_list)]
    n = min(len(S.traj[r]) for r in S.reps)
    if n >= 7:
        def e_stop(nrec):
            nr = {r: min(n - 1, nrec.get(r) if nrec.get(r) is not None else len(S.traj[r])) for r in S.reps}
            return S.expect_positional(nrec=nr)
        v.append(('r_stop', lambda: S.read(d, r_stop=[n - 1] * len(S.reps)), e_stop, R.judge_list))
    return v


def variants_msdat(S, d, rng):
    oq = PE.input.openQCD
    xmin = 0
    c = S.c_for_index(int(rng.integers(0, S.nn + 1)))
    TAG = {'T': S.tmax - 1, 'L': S.L}

    def je(cx, tag, res, exp, w):
        return R.judge_edict(cx, tag, res, exp, S, w)

    def eq(**kw):
        def f(nrec):
            t = S.expect_qtop(c, nrec=nrec, **kw)
            return None if t is None else {'table': t, 'tag': TAG}
        return f
    v = [('energy', lambda: oq._extract_flowed_energy_density(d, S.prefix, 1, xmin, S.L), lambda nrec: S.expect_energy(xmin, nrec=nrec), je),
         ('energy-plaquette', lambda: oq._extract_flowed_energy_density(d, S.prefix, 1, xmin, S.L, plaquette=True),
          lambda nrec: S.expect_energy(xmin, plaquette=True, nrec=nrec), je),
         ('energy-no-thermalization', lambda: oq._extract_flowed_energy_density(d, S.prefix, 1, xmin, S.L, assume_thermalization=False),
          lambda nrec: S.expect_energy(xmin, assume_thermalization=False, nrec=nrec), je),
         ('qtop', lambda: oq.read_qtop(d, S.prefix, c, L=S.L), eq(), R.judge_qtop(S))]
    w = _win(S, 'energy')
    if w:
        v.append(('energy-plaquette-r_start+r_stop', lambda: oq._extract_flowed_energy_density(d, S.prefix, 1, xmin, S.L, plaquette=True, r_start=list(w[0]), r_stop=list(w[1])),
                  lambda nrec: S.expect_energy(xmin, plaquette=True, nrec=nrec, r_start=w[0], r_stop=w[1]), je))
        v.append(('energy-r_stop', lambda: oq._extract_flowed_energy_density(d, S.prefix, 1, xmin, S.L, r_stop=list(w[1])),
                  lambda nrec: S.expect_energy(xmin, nrec=nrec, r_stop=w[1]), je))
    if all(len(S.traj[r]) >= 9 for r in S.reps):
        v.append(('energy-r_step', lambda: oq._extract_flowed_energy_density(d, S.prefix, 1, xmin, S.L, r_step=2), lambda nrec: S.expect_energy(xmin, nrec=nrec, r_step=2), je))
    wq = _win(S, 'flow')
    if wq:
        v.append(('qtop-r_start+r_stop', lambda: oq.read_qtop(d, S.prefix, c, L=S.L, r_start=list(wq[0]), r_stop=list(wq[1])), eq(r_start=wq[0], r_stop=wq[1]), R.judge_qtop(S)))
    perm = list(S.reps)[::-1]
    nn = ['lbl|r%d' % r for r in perm]
    v.append(('qtop-files+names-reversed', lambda: oq.read_qtop(d, S.prefix, c, L=S.L, files=[S.fname(r) for r in perm], names=list(nn)), eq(reps=perm, names=nn), R.judge_qtop(S)))
    v.append(('energy-files+names-reversed', lambda: oq._extract_flowed_energy_density(d, S.prefix, 1, xmin, S.L, files=[S.fname(r) for r in perm], names=list(nn)),
              lambda nrec: S.expect_energy(xmin, nrec=nrec, reps=perm, names=nn), je))
    return v


def variants_gfms(S, d, rng):
    oq = PE.input.openQCD
    c = S.c_for_index(int(rng.integers(0, S.ncs + 1)))
    TAG = {'T': S.tmax - 1, 'L': S.L}

    def eq(z, **kw):
        def f(nrec):
            t = S.expect(c, zeuthen=z, nrec=nrec, **kw)
            return None if t is None else {'table': t, 'tag': TAG}
        return f
    v = [('qtop-wilson', lambda: oq.read_qtop(d, S.prefix, c, version='sfqcd'), eq(False), R.judge_qtop(S)),
         ('qtop-zeuthen', lambda: oq.read_qtop(d, S.prefix, c, version='sfqcd', Zeuthen_flow=True, L=S.L), eq(True), R.judge_qtop(S))]
    w = _win(S, 'flow')
    if w:
        v.append(('qtop-zeuthen-r_start+r_stop', lambda: oq.read_qtop(d, S.prefix, c, version='sfqcd', Zeuthen_flow=True, r_start=list(w[0]), r_stop=list(w[1])),
                  eq(True, r_start=w[0], r_stop=w[1]), R.judge_qtop(S)))
    perm = list(S.reps)[::-1]
    nn = ['lbl|r%d' % r for r in perm]
    v.append(('qtop-wilson-files+names-reversed', lambda: oq.read_qtop(d, S.prefix, c, version='sfqcd', files=[S.fname(r) for r in perm], names=list(nn)),
              eq(False, reps=perm, names=nn), R.judge_qtop(S)))
    if S.L in R.GF_NORM and S.tmax == S.L + 1 and S.cmax >= 0.3:
        v.append(('gf_coupling', lambda: oq.read_gf_coupling(d, S.prefix, 0.3), lambda nrec: S.expect_coupling(nrec=nrec),
                  lambda cx, tag, res, e, w_: R.compare_table(cx, tag, res, e, w_, rtol=R.RTOL_DERIVED)))
    return v


def variants_ms5(S, d, rng):
    oq = PE.input.openQCD
    bi = str(rng.choice(F.MS5_BI))
    bb = str(rng.choice(F.MS5_BB))
    lex = S.lex()
    idl = {r: S.cfgs[r][:-1] for r in S.reps}
    perm = list(S.reps)[::-1]
    nn = ['lbl|r%d' % r for r in S.reps]
    return [('bi', lambda: oq.read_ms5_xsf(d, S.prefix, S.qc, bi), lambda nrec: S.expect(bi, nrec=nrec), R.judge_ms5(S)),
            ('bb', lambda: oq.read_ms5_xsf(d, S.prefix, S.qc, bb), lambda nrec: S.expect(bb, nrec=nrec), R.judge_ms5(S)),
            ('bi-idl', lambda: oq.read_ms5_xsf(d, S.prefix, S.qc, bi, idl=[list(idl[r]) for r in lex]), lambda nrec: S.expect(bi, nrec=nrec, idl=idl), R.judge_ms5(S)),
            ('bb-names', lambda: oq.read_ms5_xsf(d, S.prefix, S.qc, bb, names=list(nn)), lambda nrec: S.expect(bb, nrec=nrec, names=nn), R.judge_ms5(S)),
            ('bi-files-reversed', lambda: oq.read_ms5_xsf(d, S.prefix, S.qc, bi, files=[S.fname(r) for r in perm]), lambda nrec: S.expect(bi, nrec=nrec, reps=perm), R.judge_ms5(S))]


def tag_of(kind, vname):
    """One tag per reader code path: plaquette and the selections share the loop of the energy-density reader; Wilson / Zeuthen
    Qtop and the GF coupling share the sfqcd loop of _read_flow_obs."""
    if kind == 'ms.dat':
        return 'ms.dat-energy' if vname.startswith('energy') else 'ms.dat-qtop'
    return kind


# Every second file set of a format (the first one in particular) has the MAXIMAL record structure: three quantities per
# record with two or three factors and sources each, so that a cut can fall behind the complete data of an earlier quantity /
# factor / source of the record being written (seed7: a partial record accepted for the first quantities only).
RICH = ([2, 1, 3], [2, 3, 1])       # nfct, nsrc per quantity


def _structure(set_id):
    return RICH if set_id % 2 == 0 else None


BINARY = {
    'rwms-1.4': (lambda rng, tier, sid: R.RwmsSet(rng, tier, small=True, version='1.4', structure=_structure(sid)), variants_rwms),
    'rwms-1.6': (lambda rng, tier, sid: R.RwmsSet(rng, tier, small=True, version='1.6', structure=_structure(sid)), variants_rwms),
    'rwms-2.0': (lambda rng, tier, sid: R.RwmsSet(rng, tier, small=True, version='2.0', structure=_structure(sid)), variants_rwms),
    'ms.dat': (lambda rng, tier, sid: R.MsdatSet(rng, tier, small=True), variants_msdat),          # 3 blocks x 3 flow times x 3 time slices
    'gfms': (lambda rng, tier, sid: R.GfmsSet(rng, tier, small=True, coupling=True), variants_gfms),   # 3 c values x 16 observables
    'ms5_xsf': (lambda rng, tier, sid: R.Ms5Set(rng, tier, small=True), variants_ms5),                # 10 + 2 correlators
    'pbp': (lambda rng, tier, sid: R.PbpSet(rng, tier, small=True, structure=_structure(sid)), variants_pbp),
}


def mixed_prefix(judge, ctx, res, e_n, e_n1):
    """Results that are lists of observables (one per quantity): True when every entry is the n-record or the (n+1)-record
    expectation and both occur - the partial record was taken for some quantities only."""
    if not isinstance(res, (list, tuple)) or e_n is None or e_n1 is None or len(res) != len(e_n):
        return False
    kinds = set()
    for i, o in enumerate(res):
        if matches(lambda c, t, r_, e, w: R.compare_table(c, t, r_, e, w), ctx, o, e_n[i]):
            kinds.add('n')
        elif matches(lambda c, t, r_, e, w: R.compare_table(c, t, r_, e, w), ctx, o, e_n1[i]):
            kinds.add('n+1')
        else:
            return False
    return kinds == {'n', 'n+1'}


def case_binary(ctx, kind, idx, rng):
    set_id, part = divmod(idx, PARTS)
    srng = set_rng(ctx, kind, set_id)
    make, variants_of = BINARY[kind]
    S = make(srng, ctx.tier, set_id)
    if hasattr(S, 'nrw'):
        ctx.cell(kind, 'structure', 'nrw=%d,max_nfct=%d,max_nsrc=%d' % (S.nrw, max(S.nfct), max(S.nsrc)))
    E = Enum(ctx, kind)
    with tempfile.TemporaryDirectory(prefix='vmon_C18_', dir=TMPROOT) as d:
        S.write(d, distractors=False)
        setdig = S.digest()
        variants = variants_of(S, d, srng)
        # all crash points of the set, dealt to the parts
        points = []
        for r in S.reps:
            b = S.bounds[r]
            marks = [f[0] for f in b['fields']] + [b['size']] + list(range(0, b['header_end'] + 1))     # every byte of the header
            for k in offsets_for(ctx, srng, b['size'], marks):
                points.append((r, k))
        mine = points[part::PARTS]
        if part == 0:
            ctx.count('file_sets')
            ctx.count('files_in_enumerated_sets', len(S.reps))
            if ctx.tier == 'thorough':
                ctx.count('files_fully_enumerated_if_all_parts_ran', len(S.reps))
            ctx.sample({'format': kind, 'files': {S.files[r]: S.bounds[r]['size'] for r in S.reps},
                        'records': {S.files[r]: [x['end'] for x in S.bounds[r]['records']] for r in S.reps},
                        'variants': [v[0] for v in variants], 'crash_points_of_set': len(points)})
        LIST = R.LIST
        LIST.mode = 'sorted'
        cache = {}
        cur = None
        for r, k in mine:
            path = os.path.join(d, S.files[r])
            if cur is not None and cur != r:
                with open(os.path.join(d, S.files[cur]), 'wb') as f:
                    f.write(S.bytes[cur])
            cur = r
            with open(path, 'wb') as f:
                f.write(S.bytes[r][:k])
            b = S.bounds[r]
            n = F.n_complete(b, k)
            ntot = len(b['records'])
            where = where_binary(b, k)
            if k == b['header_end'] or any(k == x['end'] for x in b['records']):
                ctx.count('cuts_exactly_at_a_record_boundary')
            # position of the cut file in the order in which the reader opens the files (state carried between files)
            ctx.cell(kind, 'file-%d-of-%d' % (sorted(S.reps, key=lambda x: F.natural_key(S.files[x])).index(r) + 1, len(S.reps)))
            if r != sorted(S.reps, key=lambda x: F.natural_key(S.files[x]))[0]:
                ctx.count('cuts_in_a_later_file_after_complete_first_file')
            for vname, call, expect, judge in variants:
                fmt = tag_of(kind, vname)
                ctx.count('judged:%s:%s' % (kind, vname))
                E.fmt = fmt
                E.point(vname, setdig, S.files[r], k)
                try:
                    res = call()
                except Exception as e:
                    E.raised(e, where)
                    continue

                def exp_n(m):
                    key = (vname, r, m)
                    if key not in cache:
                        cache[key] = expect({r: m})
                    return cache[key]
                if matches(judge, ctx, res, exp_n(n)):
                    E.ok_prefix(where, n)
                    continue
                ctx.ev()
                detail = {'file': S.files[r], 'cut_at': k, 'size': b['size'], 'complete_records': n, 'records_in_file': ntot, 'cut_in': where,
                          'record_ends': [x['end'] for x in b['records']], 'reader': vname}
                if n < ntot and matches(judge, ctx, res, exp_n(n + 1)):
                    mech = 'partial-record-accepted'
                elif n < ntot and judge is R.judge_list and mixed_prefix(judge, ctx, res, exp_n(n), exp_n(n + 1)):
                    mech = 'partial-record-accepted-for-some-quantities'
                elif any(matches(judge, ctx, res, exp_n(m)) for m in range(max(0, n - 3), n)):
                    mech = 'complete-record-dropped'
                elif exp_n(n) is None:
                    mech = 'returned-without-enough-records'
                else:
                    mech = 'wrong-numbers'
                    t = ctx.trial()
                    judge(t, fmt, res, exp_n(n), {})
                    detail['first_difference'] = t.violations[:1]
                ctx.violation('%s:%s' % (fmt, mech), detail)
                ctx.cell(fmt, where, mech)
        if cur is not None:
            with open(os.path.join(d, S.files[cur]), 'wb') as f:
                f.write(S.bytes[cur])
        # recovery: after all those failed / partial reads the complete set must read back completely (no state kept)
        for vname, call, expect, judge in variants:
            fmt = tag_of(kind, vname)
            ctx.ev()
            ctx.count('recovery_reads')
            try:
                res = call()
            except Exception as e:
                if ctx.classify_exception(e)[0] != 'library':
                    raise
                ctx.violation('%s:complete-set-unreadable-after-truncated-reads' % fmt, {'exception': repr(e)[:200]})
                continue
            if not matches(judge, ctx, res, expect({})):
                ctx.violation('%s:state-left-by-truncated-read' % fmt, {'reader': vname})


# ------------------------------------------------------------------------------------------------
# sfcf text layouts
# ------------------------------------------------------------------------------------------------
def sfcf_where(info, k, key, im):
    """Location class of a cut in one [run] chunk relative to the block of `key`."""
    if k < info['header_end']:
        return 'header', None
    for b in info['blocks']:
        if b['start'] <= k < b['end']:
            mine = b['key'] == key
            if k >= b['data_end']:
                return ('after-used-block-data' if mine else 'after-other-block-data'), b
            for sp in b['spans']:
                if sp[0] <= k < sp[5]:
                    lo, hi = (sp[3], sp[4]) if im else (sp[1], sp[2])
                    if mine and lo < k < hi:
                        return 'inside-used-number', b
                    if mine and k <= lo:
                        return 'before-used-number-in-line', b
                    if mine:
                        return 'after-used-number-in-line', b
                    return 'inside-other-block-line', b
            return ('inside-used-block-head' if mine else 'inside-other-block-head'), b
    return 'end', None


def case_sfcf(ctx, kind, idx, rng):
    layout = kind[-1]
    set_id, part = divmod(idx, PARTS)
    srng = set_rng(ctx, kind, set_id)
    S = R.SfcfSet(srng, ctx.tier, layout, small=True)
    fmt = 'sfcf-' + layout
    E = Enum(ctx, fmt)
    with tempfile.TemporaryDirectory(prefix='vmon_C18_', dir=TMPROOT) as d:
        S.write(d, distractors=False)
        setdig = S.digest()
        rels = sorted(S.info)
        content = {}
        for rel in rels:
            with open(os.path.join(d, rel), 'rb') as f:
                content[rel] = f.read()
        # reader variants per file: keys whose block lives in that file
        vkeys = {}
        for rel in rels:
            inf = S.info[rel]
            if layout == 'o':
                ks = S.order[inf['name']]
                pick = [ks[0], ks[-1]] if len(ks) > 1 else [ks[0]]
            elif layout == 'c':
                pick = [S.corder[0], S.corder[len(S.corder) // 2], S.corder[-1]]
            else:
                pick = [S.order[inf['name']][0]]
            # every reader variant carries one documented option (checklist 13): none / names / files with or without the cut file / replica
            opts = ['none', 'names'] if layout == 'a' else ['none', 'names', 'files-excluding-cut-file', 'files-including-cut-file', 'replica-excluding-cut-replica']
            o0 = rels.index(rel)
            vkeys[rel] = [(k_, bool(srng.integers(0, 2)), opts[(o0 + i_) % len(opts)]) for i_, k_ in enumerate(dict.fromkeys(pick))]
            if len(vkeys[rel]) == 1:
                vkeys[rel].append((vkeys[rel][0][0], not vkeys[rel][0][1], opts[(o0 + 1) % len(opts)]))
        # the files the reader uses to discover the layout (start line and T of every correlator): first configuration of the first replica.
        # They are ALWAYS enumerated (seed8: a cut inside them changes what is read from every other file).
        r_first = sorted(S.reps)[0]
        layout_files = [rel for rel in rels if S.info[rel]['rep'] == r_first and (layout == 'a' or S.info[rel]['cfg'] == S.cfgs[r_first][0])]
        targets = rels
        if ctx.tier == 'quick' and len(rels) > 8:
            rest = [x for x in rels if x not in layout_files]
            targets = sorted(set(layout_files) | set(rest[i] for i in srng.choice(len(rest), size=max(1, 8 - len(layout_files)), replace=False)))
        points = []
        for rel in targets:
            size = len(content[rel])
            marks = []
            if layout == 'a':
                for c, s0, e0, info in S.info[rel]['chunks']:
                    marks += [s0, s0 + info['header_end'], e0]
                    for b in info['blocks']:
                        marks += [s0 + b['start'], s0 + b['data_end'], s0 + b['end']] + [s0 + x for sp in b['spans'] for x in sp]
            else:
                info = S.info[rel]
                marks += [info['header_end']]
                for b in info['blocks']:
                    marks += [b['start'], b['data_end'], b['end']] + [x for sp in b['spans'] for x in sp]
                    # every byte of the leading blanks / time index of every data line (cuts inside the whitespace of a line)
                    marks += [x for sp in b['spans'] for x in range(sp[0], sp[1] + 1)]
            for k in offsets_for(ctx, srng, size, marks):
                points.append((rel, k))
        mine = points[part::PARTS]
        if part == 0:
            ctx.count('file_sets')
            ctx.count('files_in_enumerated_sets', len(targets))
            if ctx.tier == 'thorough':
                ctx.count('files_fully_enumerated_if_all_parts_ran', len(targets))
            ctx.sample({'format': fmt, 'files': {rel: len(content[rel]) for rel in rels[:6]}, 'n_files': len(rels), 'crash_points_of_set': len(points),
                        'replicas': S.reps, 'configurations': S.cfgs})
        R.LIST.mode = 'sorted'
        cache = {}
        cur = None
        for rel, k in mine:
            if cur is not None and cur != rel:
                with open(os.path.join(d, cur), 'wb') as f:
                    f.write(content[cur])
            cur = rel
            with open(os.path.join(d, rel), 'wb') as f:
                f.write(content[rel][:k])
            inf = S.info[rel]
            if layout == 'a':
                if any(k == e0 for c_, s0, e0, i_ in inf['chunks']):
                    ctx.count('cuts_exactly_at_a_record_boundary')
            elif any(k in (b_['start'], b_['data_end'], b_['end']) for b_ in inf['blocks']):
                ctx.count('cuts_exactly_at_a_record_boundary')
            if inf['rep'] != min(S.reps) or (layout != 'a' and inf['cfg'] != S.cfgs[inf['rep']][0]):
                ctx.count('cuts_in_a_later_file_after_complete_first_file')
            else:
                ctx.count('cuts_in_the_layout_discovery_file')
            if layout != 'a' and any(sp[0] < k <= sp[1] and content[rel][sp[0]:k].strip() == b'' for b_ in inf['blocks'] for sp in b_['spans']):
                ctx.count('cuts_inside_leading_blanks_of_a_data_line')
            variants_here = list(vkeys[rel])
            if layout != 'a' and rel in layout_files:
                # a cut inside a data line of the layout-discovery file: the correlator that line belongs to is read as well
                for b_ in inf['blocks']:
                    if any(sp[0] <= k < sp[5] for sp in b_['spans']) and not any(v_[0] == b_['key'] for v_ in variants_here):
                        variants_here.append((b_['key'], bool(k % 2), 'none'))
            for key, im, opt in variants_here:
                vname = '%s:%s:%s' % ('/'.join(str(x) for x in key), 'im' if im else 're', opt)
                E.point(vname, setdig, rel, k)
                ctx.count('judged:%s:%s' % (fmt, opt))
                judge = R.judge_sfcf(S, key, im)
                r = inf['rep']
                nn = ['lbl|r%d' % x for x in S.reps]
                kw = {'im': True} if im else {}
                ekw = {}
                if opt == 'names':
                    kw['names'] = list(nn)
                    ekw['names'] = nn
                elif opt == 'files-excluding-cut-file':
                    kw['files'] = [[S.cfile(rr, x) for x in S.cfgs[rr] if (rr, x) != (r, inf['cfg'])][::-1] for rr in S.reps]
                elif opt == 'files-including-cut-file':
                    kw['files'] = [[S.cfile(rr, x) for x in S.cfgs[rr]][::-1] for rr in S.reps]
                elif opt == 'replica-excluding-cut-replica':
                    others = [rr for rr in S.reps if rr != r]
                    if others:
                        kw['replica'] = [S.rdir(x) for x in others]
                        ekw['reps'] = others
                    else:
                        opt = 'none'
                if layout == 'a':
                    chunks = inf['chunks']
                    n = sum(1 for c, s0, e0, info in chunks if e0 <= k)
                    where = 'end'
                    for c, s0, e0, info in chunks:
                        if s0 <= k < e0:
                            where = sfcf_where(info, k - s0, key, im)[0]
                    if n == len(chunks) - 1 and where != 'end':
                        where += '-lastchunk'
                else:
                    where = sfcf_where(inf, k, key, im)[0]
                try:
                    res = S.read(d, key, **kw)
                except Exception as e:
                    E.raised(e, where)
                    continue
                ctx.ev()
                if layout == 'a':
                    cf = lambda m: {rr: (S.cfgs[rr] if rr != r else S.cfgs[r][:m]) for rr in S.reps}   # noqa: E731

                    def exp_n(m):
                        kk = (key, im, r, m, opt)
                        if kk not in cache:
                            cache[kk] = S.expect(key, im=im, cfgs=cf(m), **ekw)
                        return cache[kk]
                    ntot = len(chunks)
                    if matches(judge, ctx, res, exp_n(n)):
                        E.ok_prefix(where, n)
                        continue
                    if n < ntot and matches(judge, ctx, res, exp_n(n + 1)):
                        # exactly the stored numbers of a textually complete block in the chunk being written (see ASSUMPTIONS)
                        ctx.count('reads_returned_exact_from_complete_block')
                        ctx.cell(fmt, where, 'exact-complete-block')
                        continue
                    mech = 'wrong-numbers'
                    if where.startswith('inside-used-number'):
                        mech = 'number-cut-mid-digits'
                    elif any(matches(judge, ctx, res, exp_n(m)) for m in range(max(0, n - 3), n)):
                        mech = 'complete-record-dropped'
                    t = ctx.trial()
                    judge(t, fmt, res, exp_n(min(n + 1, ntot)) or exp_n(n), {'_ekw': {}})
                    ctx.violation('%s:%s' % (fmt, mech), {'file': rel, 'cut_at': k, 'size': len(content[rel]), 'complete_chunks': n, 'chunks': ntot,
                                                         'cut_in': where, 'key': list(key), 'im': im, 'first_difference': t.violations[:1]})
                    ctx.cell(fmt, where, mech)
                else:
                    c = inf['cfg']
                    if opt == 'replica-excluding-cut-replica':
                        full = cache.setdefault((key, im, 'others', r), S.expect(key, im=im, **ekw))
                        dropped = None
                    else:
                        full = cache.setdefault((key, im, 'full', opt), S.expect(key, im=im, **ekw))
                        dropped = cache.setdefault((key, im, 'drop', r, c, opt), S.expect(key, im=im, drop={(r, c)}, **ekw))
                        if opt == 'files-excluding-cut-file':
                            full = None          # the cut file is not selected: only the selection may come back
                    if matches(judge, ctx, res, full):
                        ctx.count('reads_returned_exact_from_complete_block')
                        ctx.count('reads_returned_prefix')
                        ctx.cell(fmt, where, 'exact-complete-block')
                        continue
                    if matches(judge, ctx, res, dropped):
                        E.ok_prefix(where, 0)
                        continue
                    mech = 'number-cut-mid-digits' if where == 'inside-used-number' else 'wrong-numbers'
                    if full is not None and isinstance(res, list) and 0 < len(res) < len(full) and matches(judge, ctx, res, full[:len(res)]):
                        mech = 'fewer-time-slices-than-written'      # the numbers kept are right, the correlator is shortened for every configuration
                    t = ctx.trial()
                    judge(t, fmt, res, full or dropped, {'_ekw': {}})
                    ctx.violation('%s:%s' % (fmt, mech), {'file': rel, 'cut_at': k, 'size': len(content[rel]), 'cut_in': where, 'key': list(key), 'im': im, 'option': opt,
                                                         'first_difference': t.violations[:1]})
                    ctx.cell(fmt, where, mech)
        if cur is not None:
            with open(os.path.join(d, cur), 'wb') as f:
                f.write(content[cur])
        done = set()
        for rel, _ in mine:
            for key, im, _o in vkeys[rel]:
                if (key, im) in done:
                    continue
                done.add((key, im))
                ctx.ev()
                ctx.count('recovery_reads')
                try:
                    res = S.read(d, key, **({'im': True} if im else {}))
                except Exception as e:
                    if ctx.classify_exception(e)[0] != 'library':
                        raise
                    ctx.violation('%s:complete-set-unreadable-after-truncated-reads' % fmt, {'exception': repr(e)[:200]})
                    continue
                if not matches(R.judge_sfcf(S, key, im), ctx, res, S.expect(key, im=im)):
                    ctx.violation('%s:state-left-by-truncated-read' % fmt, {'key': list(key)})


# ------------------------------------------------------------------------------------------------
# Hadrons hdf5 (one file per configuration)
# ------------------------------------------------------------------------------------------------
def case_hadrons(ctx, kind, idx, rng):
    set_id, part = divmod(idx, PARTS)
    srng = set_rng(ctx, kind, set_id)
    S = R.HadronsSet(srng, ctx.tier, small=True)
    if len(set(np.diff(S.cfgs))) != 1:
        S.cfgs = list(range(S.cfgs[0], S.cfgs[0] + len(S.cfgs)))
        vals = list(S.vals.values())
        S.vals = dict(zip(S.cfgs, vals))
    fmt = 'hadrons'
    E = Enum(ctx, fmt)
    hd = PE.input.hadrons
    with tempfile.TemporaryDirectory(prefix='vmon_C18_', dir=TMPROOT) as d:
        S.write(d, distractors=False)
        setdig = S.digest()
        # thorough: every offset of two files of the set (first and a middle one); quick: sampled offsets of those
        targets = [S.cfgs[0], S.cfgs[len(S.cfgs) // 2]]
        content = {}
        for c in targets:
            with open(os.path.join(d, S.files[c]), 'rb') as f:
                content[c] = f.read()
        points = []
        for c in targets:
            size = len(content[c])
            for k in offsets_for(ctx, srng, size, [8, 96, 512, 2048, size - 8]):
                points.append((c, k))
        mine = points[part::PARTS]
        if part == 0:
            ctx.count('file_sets')
            ctx.count('files_in_enumerated_sets', len(targets))
            ctx.sample({'format': fmt, 'files': {S.files[c]: len(content[c]) for c in targets}, 'crash_points_of_set': len(points)})
        k0 = int(srng.integers(0, S.K))
        part_ = str(srng.choice(['real', 'complex']))
        judge = R.judge_hadrons(S, k0, part_)
        R.LIST.mode = 'sorted'
        idl = list(S.cfgs)
        full = S.expect(k0, part_, idl=idl)
        cur = None
        for c, k in mine:
            if cur is not None and cur != c:
                with open(os.path.join(d, S.files[cur]), 'wb') as f:
                    f.write(content[cur])
            cur = c
            with open(os.path.join(d, S.files[c]), 'wb') as f:
                f.write(content[c][:k])
            E.point(part_, setdig, S.files[c], k)
            where = 'superblock' if k < 96 else ('inside' if k < len(content[c]) - 1 else 'last-byte')
            hopt = ['none', 'idl-excluding-cut-file', 'idl-including-cut-file'][(k + c) % 3]
            ctx.count('judged:hadrons:%s' % hopt)
            want = full
            sel = None
            if hopt == 'idl-excluding-cut-file':
                sel = [x for x in S.cfgs if x != c]
                want = S.expect(k0, part_, idl=sel)
                judge = R.judge_hadrons(S, k0, part_)
            elif hopt == 'idl-including-cut-file':
                sel = list(S.cfgs)
            try:
                res = hd.read_hd5(os.path.join(d, S.stem), S.ens, 'meson', attrs=k0, part=part_, **({'idl': sel} if sel else {}))
            except Exception as e:
                E.raised(e, where)
                continue
            ctx.ev()
            if sel is not None and hopt == 'idl-excluding-cut-file':
                t_ = ctx.trial()
                R.judge_hadrons(S, k0, part_)(t_, 'm', res, want, {'_idl': sel})
                if not t_.violations:
                    ctx.count('reads_returned_prefix')
                    ctx.cell(fmt, where, 'selection-without-cut-file')
                    continue
                ctx.violation('hadrons:wrong-numbers', {'file': S.files[c], 'cut_at': k, 'option': hopt, 'first_difference': t_.violations[:1]})
                continue
            if matches(judge, ctx, res, full):
                ctx.count('reads_returned_exact_from_complete_block')
                ctx.count('reads_returned_prefix')
                ctx.cell(fmt, where, 'exact')
                continue
            ctx.violation('hadrons:wrong-numbers', {'file': S.files[c], 'cut_at': k, 'size': len(content[c])})
        if cur is not None:
            with open(os.path.join(d, S.files[cur]), 'wb') as f:
                f.write(content[cur])
        ctx.ev()
        ctx.count('recovery_reads')
        try:
            res = hd.read_hd5(os.path.join(d, S.stem), S.ens, 'meson', attrs=k0, part=part_)
            if not matches(judge, ctx, res, full):
                ctx.violation('hadrons:state-left-by-truncated-read', {})
        except Exception as e:
            if ctx.classify_exception(e)[0] != 'library':
                raise
            ctx.violation('hadrons:complete-set-unreadable-after-truncated-reads', {'exception': repr(e)[:200]})


# ------------------------------------------------------------------------------------------------
# exported archives (C11 / C12)
# ------------------------------------------------------------------------------------------------
ARCHIVES = ['json.gz', 'json', 'dobs.gz', 'dobs', 'pobs.gz', 'pobs', 'csv.gz', 'csv']


def make_obs(rng, name, n=None, start=None):
    n = n or int(rng.integers(6, 14))
    start = start or int(rng.integers(1, 30))
    return PE.Obs([rng.normal(1.0, 0.3, n)], [name], idl=[range(start, start + n)])


def case_archive(ctx, kind, idx, rng):
    arch = kind[len('archive:'):]
    set_id, part = divmod(idx, PARTS)
    srng = set_rng(ctx, kind, set_id)
    fmt = 'archive-' + arch
    E = Enum(ctx, fmt)
    gz = arch.endswith('.gz')
    base = arch.split('.')[0]
    with tempfile.TemporaryDirectory(prefix='vmon_C18_', dir=TMPROOT) as d:
        if base == 'json':
            ol = [make_obs(srng, 'ensA|r1'), make_obs(srng, 'ensA|r1') * make_obs(srng, 'ensB')]
            if srng.random() < 0.5:
                ol.append(PE.Corr([make_obs(srng, 'ensA|r1', 8, 3) for _ in range(3)]))
            fn = os.path.join(d, 'full.json' + ('.gz' if gz else ''))
            PE.input.json.dump_to_json(ol, fn, description='C18', indent=int(srng.integers(0, 2)), gz=gz)
            load = lambda p: PE.input.json.load_json(p, verbose=False, gz=gz)   # noqa: E731
        elif base in ('dobs', 'pobs'):
            n = int(srng.integers(6, 12))
            ol = [make_obs(srng, 'ensA|r1', n, 2), make_obs(srng, 'ensA|r1', n, 2)]
            fn = os.path.join(d, 'full.xml' + ('.gz' if gz else ''))
            if base == 'dobs':
                PE.input.dobs.write_dobs(ol, fn, 'C18', gz=gz)
                load = lambda p: PE.input.dobs.read_dobs(p, gz=gz)   # noqa: E731
            else:
                PE.input.dobs.write_pobs(ol, fn, 'C18', gz=gz)
                load = lambda p: PE.input.dobs.read_pobs(p, gz=gz)   # noqa: E731
        else:
            import pandas as pd
            rows = int(srng.integers(3, 6))
            df = pd.DataFrame([{'idx': 100 + i, 'x': float(srng.normal()), 'O': make_obs(srng, 'ensA|r1', 7, 5)} for i in range(rows)])
            fn = os.path.join(d, 'full.csv' + ('.gz' if gz else ''))
            PE.input.pandas.dump_df(df, os.path.join(d, 'full'), gz=gz)
            load = lambda p: PE.input.pandas.load_df(p, gz=gz)   # noqa: E731

        def dig(x):
            if type(x).__name__ == 'DataFrame':
                return digest(list(x.columns), [[any_digest(v) for v in x[c]] for c in x.columns])
            return any_digest(x)
        with open(fn, 'rb') as f:
            raw = f.read()
        try:
            ref = dig(load(fn))
        except Exception as e:
            if ctx.classify_exception(e)[0] == 'harness':
                raise
            # the complete file cannot be read back at all (C12: plain xml): nothing to enumerate
            ctx.count('%s:complete-file-unreadable' % fmt)
            return
        size = len(raw)
        marks = [10, size - 8, size - 4, size - 1]
        if not gz:
            marks += [i + 1 for i, ch in enumerate(raw) if ch == 10][:40]
        points = offsets_for(ctx, srng, size, marks)
        mine = points[part::PARTS]
        if part == 0:
            ctx.count('archive_sets')
            ctx.sample({'format': fmt, 'size': size, 'crash_points_of_set': len(points)})
        cut = os.path.join(d, 'cut' + fn[fn.index('full') + 4:])
        for k in mine:
            with open(cut, 'wb') as f:
                f.write(raw[:k])
            ctx.count('archive_offsets_enumerated')
            E.point(arch, digest(raw[:64], size), 'file', k)
            where = 'head' if k < 10 else ('tail' if k >= size - 8 else 'body')
            try:
                got = dig(load(cut))
            except Exception as e:
                E.raised(e, where)
                continue
            ctx.ev()
            if got == ref:
                ctx.count('archive_identical_content_despite_cut')
                ctx.cell(fmt, where, 'identical')
                continue
            if arch == 'csv':
                ctx.count('csv-plain:partial-load(not judged)')
                ctx.cell(fmt, where, 'partial-unjudged')
                continue
            ctx.violation('%s:partial-load' % fmt, {'cut_at': k, 'size': size, 'tail_of_kept_bytes': repr(raw[max(0, k - 30):k]) if not gz else None})
            ctx.cell(fmt, where, 'partial-load')


# ------------------------------------------------------------------------------------------------
def plan(tier):
    if tier == 'quick':
        s = {'rwms-1.4': 2, 'rwms-1.6': 2, 'rwms-2.0': 2, 'ms.dat': 2, 'gfms': 1, 'ms5_xsf': 2, 'pbp': 1, 'sfcf_o': 1, 'sfcf_c': 1, 'sfcf_a': 1, 'hadrons': 1}
        a = 1
    else:
        s = {'rwms-1.4': 4, 'rwms-1.6': 4, 'rwms-2.0': 4, 'ms.dat': 5, 'gfms': 2, 'ms5_xsf': 3, 'pbp': 3, 'sfcf_o': 2, 'sfcf_c': 2, 'sfcf_a': 3, 'hadrons': 2}
        a = 3
    p = [(k, n * PARTS) for k, n in s.items()]
    p += [('archive:' + x, a * PARTS) for x in ARCHIVES]
    return p


def run_case(ctx, kind, idx, rng):
    t0 = time.time()
    try:
        _run_case(ctx, kind, idx, rng)
    finally:
        ctx.count('ms:' + kind, int(1000 * (time.time() - t0)))


def _run_case(ctx, kind, idx, rng):
    if kind in BINARY:
        case_binary(ctx, kind, idx, rng)
    elif kind.startswith('sfcf_'):
        case_sfcf(ctx, kind, idx, rng)
    elif kind == 'hadrons':
        case_hadrons(ctx, kind, idx, rng)
    elif kind.startswith('archive:'):
        case_archive(ctx, kind, idx, rng)
