"""C17 - file readers return exactly the stored numbers at the right configurations.

Technique: the harness WRITES synthetic file sets with known, pairwise distinct content
(vmon.ref.files, byte-exact writers validated against the repository's sample files in setup()),
calls the real reader with every documented selection, and compares names, configuration lists and
every per-configuration number (r_value + delta) with the expectation computed from the table.
Fault injection: the `os` module as seen from pyerrors.input.{openQCD,sfcf,hadrons,utils,misc} is
replaced by a proxy whose walk / listdir return seeded permutations of the directory listing; every
read is repeated under K listings and each must meet the same expectation.

The file-set classes below are also the workload of C18 (truncation enumeration).
"""
import os
import math
import zlib
import tempfile

import numpy as np

from ..ctx import digest
from ..snap import samples_of, any_digest
from ..ref import files as F
from ..ref import gamma as gref

ID = 'C17'
LEVEL = 'exploration'
DECIDING = ['listing:walk', 'listing:listdir', 'reads_judged', 'numbers_compared', 'writer_selfcheck_ok']
RULE = ('cases: synthetic file sets (rwms 1.4/1.6/2.0, ms.dat energy density + t0/w0 + Qtop, sfqcd gfms Qtop + GF coupling, ms5_xsf, '
        'sfcf o/c/a, Hadrons meson hdf5) with 1-3 replicas whose numbers differ in digit count (r1,r2,r10 ...), 5-40 configurations with '
        'arbitrary first configuration / spacing crossing digit counts (9,10,...,100), 1-3 factors / sources / flow times / time slices / '
        'correlators, pairwise distinct numbers; every documented selection (r_start/r_stop/r_step/idl/files/names/replica/version/postfix/'
        'flow time/real-imag ...) incl. ones that must raise; each read repeated under sorted, reversed and seeded random directory listings; '
        'hardening classes: twin file sets with identical file / directory names and different content read A,B,A,B in one process and the directory '
        'rewritten, earlier results re-digested and tested for shared memory, argument objects reused, path spellings (trailing slash, ./, relative), '
        'selections as tuple / ndarray / numpy ints (undocumented forms: an exception is telemetry, a result is judged), a prefix-sharing complete '
        'neighbour set in the same directory, postfix look-alikes, r_start == r_stop, r_step beyond the length, single-record files, files / names / '
        'configurations listed twice, all numbers scaled by 1e-300 ... 1e300 with signed zeros, reweighting exponents near overflow; '
        'second pass: an options kind forcing every option and rejection row onto three-replica long-chain sets, spectator numbers poisoned with nan / inf, '
        'equal-summary selections with other members, 12 replicas / > 255 configurations, counters judged:<format>:<selection> per judgement; '
        'third pass (line coverage): read_pbp (by position), extract_t0_hd5 against the closed-form fit, Npr_matrix g5H / product, file names without '
        'r<digits> (sort_names fallback) under five listings, openQCD 2.0 arrays of other element sizes / dimensions, gfms files with one flow, documented '
        'rejections that need damaged or inconsistent sets (missing measurement, differing headers, unparsable numbers, unequal chunks), sfcf version 1.0 / '
        'rep_string / silent=False / one files list for all replicas, ms5_xsf sep=\'\' and dotted names, check_idl; '
        'a file set is non-trivial when at least one read returned and every number of it was compared and the set has replicas or '
        'configurations with different digit counts; distinct = digest of (format, parameters, table)')
ASSUMPTIONS = ['writers are validated byte-for-byte against the sample files under tests/data (openQCD 1.4 derived from the 1.6 sample, '
               'Hadrons hdf5 has no sample: structure taken from the Hadrons meson module, read back with h5py)',
               'configuration number of trajectory-numbered formats = trajectory // spacing with the thermalisation offset the library documents '
               'by its warning (rwms: only if spacing > 1; ms.dat energy: unless assume_thermalization=False; flow observables: always)',
               'r_value + delta, replica means and central values reproduce the stored numbers to 16 ulp of the largest sample of the chain (measured: <= 2 ulp); 64 ulp for the GF coupling, four-quark sums and matrix products',
               't0 / w0 are compared with a closed-form weighted linear fit (weights from the reference Gamma method) at rtol 1e-7 (the library minimises iteratively; measured deviations <= 1e-8)',
               'per-replica lists (r_start, r_stop, idl of ms5_xsf, files of sfcf) are given in the order in which the reader lists the replicas',
               'little-endian host (the formats are written little-endian as documented; the readers use native byte order except for the sfqcd header)',
               'not judged, counted: in-place sorting of the caller\'s files / replica lists by the sfcf readers, read_hd5(idl=[]) returning all configurations, '
               'exceptions for selection types the documentation does not list']
BUDGET = {'quick': 70, 'thorough': 480}
TMPROOT = '/var/tmp'

PE = None
ULP = 2.220446049250313e-16
RTOL = 16 * ULP      # r_value + delta reproduces a sample to 1-2 ulp of the chain's scale; the documented reductions (source average,
                     # sums over <= 6 time slices, products of <= 3 factors) add a few more.  Measured on the unchanged tree: <= 2 ulp.
RTOL_DERIVED = 64 * ULP   # results of a few more floating-point operations on observables (GF coupling, four-quark sums, matrix products)
WORST = {}


# ------------------------------------------------------------------------------------------------
# fault injection: directory listings
# ------------------------------------------------------------------------------------------------
class Listing:
    def __init__(self):
        self.mode = 'sorted'
        self.seed = 0
        self.n_walk = 0
        self.n_listdir = 0
        self.real = os

    def order(self, names, where):
        names = sorted(names)
        if self.mode == 'sorted':
            return names
        if self.mode == 'reversed':
            return names[::-1]
        rng = np.random.default_rng([self.seed, zlib.crc32(where.encode())])
        return [names[i] for i in rng.permutation(len(names))]


LIST = Listing()


class OsProxy:
    """Stands in for the `os` module inside the reader modules."""

    def __init__(self, real):
        self.__dict__['_real'] = real

    def __getattr__(self, name):
        return getattr(self.__dict__['_real'], name)

    def walk(self, top, topdown=True, onerror=None, followlinks=False):
        LIST.n_walk += 1
        for dp, dn, fn in self.__dict__['_real'].walk(top, topdown, onerror, followlinks):
            dn[:] = LIST.order(dn, 'd:' + os.path.basename(os.path.normpath(dp)))
            yield dp, dn, LIST.order(fn, 'f:' + os.path.basename(os.path.normpath(dp)))

    def listdir(self, path='.'):
        LIST.n_listdir += 1
        return LIST.order(self.__dict__['_real'].listdir(path), 'l:' + os.path.basename(os.path.normpath(str(path))))


_patched = []


def install_listing(pe):
    import importlib
    proxy = OsProxy(os)
    for mname in ('openQCD', 'sfcf', 'hadrons', 'utils', 'misc'):
        m = importlib.import_module('pyerrors.input.' + mname)
        if getattr(m, 'os', None) is os:
            m.os = proxy
            _patched.append(m)
    return len(_patched)


def remove_listing():
    for m in _patched:
        m.os = os
    del _patched[:]


def listing_modes(rng, k=3):
    if k < 0:
        # exactly -k listings drawn from {sorted, reversed, seeded permutation} (expensive hdf5 readers)
        pool = [('sorted', 0), ('reversed', 0), ('perm', int(rng.integers(1, 2 ** 31)))]
        return [pool[i] for i in rng.permutation(3)[:-k]]
    modes = [('sorted', 0), ('reversed', 0)]
    for _ in range(max(1, k - 2)):
        modes.append(('perm', int(rng.integers(1, 2 ** 31))))
    return modes


def setup(ctx):
    global PE
    import pyerrors as pe
    import pyerrors.input.openQCD  # noqa: F401
    import pyerrors.input.sfcf  # noqa: F401
    import pyerrors.input.hadrons  # noqa: F401
    import pyerrors.input.misc  # noqa: F401
    PE = pe
    res = F.selfcheck(ctx.repo)
    bad = [r for r in res if not r[1]]
    if bad:
        raise RuntimeError('writer self-check failed (harness error, not a violation): %r' % (bad,))
    ctx.count('writer_selfcheck_ok', len(res))
    n = install_listing(pe)
    if n < 3:
        raise RuntimeError('could not interpose the directory listing in the reader modules (%d patched)' % n)


def teardown(ctx):
    remove_listing()
    ctx.count('listing:walk', LIST.n_walk)
    ctx.count('listing:listdir', LIST.n_listdir)


# ------------------------------------------------------------------------------------------------
# comparison
# ------------------------------------------------------------------------------------------------
def _arr(d):
    return np.array([d[k] for k in sorted(d)], dtype=float)


def _same(a, b, rtol=RTOL):
    a = np.asarray(a, dtype=float)
    b = np.asarray(b, dtype=float)
    if a.shape != b.shape:
        return False
    if a.size == 0:
        return True
    sc = max(float(np.max(np.abs(a))), float(np.max(np.abs(b))))
    # 8 quanta of the subnormal range as floor: below 2.2e-308 the spacing of doubles is absolute (4.9e-324), not relative
    return bool(np.all(np.abs(a - b) <= rtol * sc + 8 * 5e-324))


def secondary_outputs(ctx, tag, obs, exp, what, rtol):
    """Checklist 22: what the returned Obs carries besides the per-configuration numbers - replica means, the central value (the
    mean over ALL configurations, not the mean of the replica means: the replicas have different lengths) and the reweighted flag."""
    names = sorted(exp)
    sc = max(float(np.max(np.abs(_arr(exp[n])))) for n in names)
    tot, cnt = 0.0, 0
    for n in names:
        e = _arr(exp[n])
        ctx.ev()
        ctx.count('judged:secondary:replica-mean')
        if abs(float(obs.r_values[n]) - math.fsum(e) / len(e)) > rtol * sc + 8 * 5e-324:
            ctx.violation(tag + ':replica-mean', {'what': what, 'chain': n, 'got': float(obs.r_values[n]), 'exp': math.fsum(e) / len(e)})
        tot += math.fsum(e)
        cnt += len(e)
    ctx.ev()
    ctx.count('judged:secondary:central-value')
    if abs(float(obs.value) - tot / cnt) > rtol * sc + 8 * 5e-324:
        ctx.violation(tag + ':central-value', {'what': what, 'got': float(obs.value), 'exp': tot / cnt})
    ctx.ev()
    ctx.count('judged:secondary:reweighted-flag')
    if obs.reweighted is not False and obs.reweighted != False:   # noqa: E712
        ctx.violation(tag + ':reweighted-flag', {'what': what, 'got': repr(obs.reweighted)})


def compare_table(ctx, tag, obs, exp, what, rtol=RTOL, also=None):
    """obs: an Obs; exp: {replica name: {cfg: number}}.  Returns True when everything agrees.
    also: optional {label: table} of other tables of the same file set used to name the cause of a mismatch."""
    ctx.ev()
    names = sorted(exp)
    if list(obs.names) != names:
        ctx.violation(tag + ':names', {'what': what, 'got': list(obs.names), 'exp': names})
        return False
    got = {n: samples_of(obs, n) for n in names}
    ok = True
    for n in names:
        ctx.ev()
        ecfg = sorted(exp[n])
        gcfg = [int(c) for c in obs.idl[n]]
        if gcfg != ecfg:
            if len(gcfg) == len(ecfg) and len(set(np.subtract(gcfg, ecfg))) == 1:
                cause = 'configurations-shifted'
            elif set(gcfg) < set(ecfg) or set(ecfg) < set(gcfg):
                cause = 'configurations-selection'
            else:
                cause = 'configurations'
            ctx.violation('%s:%s' % (tag, cause), {'what': what, 'chain': n, 'got': gcfg[:12], 'exp': ecfg[:12],
                                                  'n_got': len(gcfg), 'n_exp': len(ecfg)})
            ok = False
            continue
        ctx.count('numbers_compared', len(ecfg))
        g = _arr(got[n])
        e = _arr(exp[n])
        if g.shape == e.shape and g.size:
            sc_ = max(float(np.max(np.abs(g))), float(np.max(np.abs(e))))
            if sc_ > 0:
                dev_ = float(np.max(np.abs(g - e))) / sc_ / ULP
                ctx.count('chains_compared:deviation-%s-ulp-of-scale' % ('0' if dev_ == 0 else ('le-2' if dev_ <= 2 else ('le-8' if dev_ <= 8 else 'gt-8'))))
        if _same(g, e, rtol):
            continue
        ok = False
        cause = 'numbers'
        for m in names:
            if m != n and len(exp[m]) == len(g) and _same(g, _arr(exp[m]), rtol):
                cause = 'data-of-other-replica'
        if cause == 'numbers' and _same(np.sort(g), np.sort(e), rtol):
            cause = 'numbers-at-other-configurations'
        if cause == 'numbers' and also:
            for lab, tab in (also() if callable(also) else also).items():
                if n in tab and len(tab[n]) == len(g) and _same(g, _arr(tab[n]), rtol):
                    cause = 'numbers-of:' + lab
                    break
        i = int(np.argmax(np.abs(g - e)))
        ctx.violation('%s:%s' % (tag, cause), {'what': what, 'chain': n, 'cfg': ecfg[i], 'got': float(g[i]), 'exp': float(e[i]),
                                              'rel': float(abs(g[i] - e[i]) / max(1e-300, np.max(np.abs(e))))})
    if ok:
        secondary_outputs(ctx, tag, obs, exp, what, 4 * rtol)
    return ok


def lib_exception(ctx, e, tag, what):
    """An exception where a result was required: library frames -> violation, harness frames -> re-raise."""
    origin, t = ctx.classify_exception(e)
    if origin != 'library':
        raise e
    ctx.ev()
    ctx.violation('%s:%s' % (tag, t), {'what': what, 'message': str(e)[:300]})


class Read:
    """One reader invocation repeated under K directory listings."""

    def __init__(self, ctx, rng, fmt, sel, k=3):
        self.ctx, self.fmt, self.sel = ctx, fmt, sel
        self.modes = listing_modes(rng, k)
        self.returned = 0

    def run(self, call, judge=None, must_raise=False, what=None):
        """call() -> result (fresh arguments each time); judge(result, mode) compares it.
        must_raise: the documented behaviour is an exception (any Exception subclass)."""
        ctx = self.ctx
        tag = self.fmt + ':' + self.sel
        for mode, seed in self.modes:
            LIST.mode, LIST.seed = mode, seed
            ctx.cell(self.fmt, self.sel, mode)
            ctx.count('judged:%s:%s' % (self.fmt, self.sel))
            try:
                res = call()
            except Exception as e:
                LIST.mode = 'sorted'
                args_unchanged(ctx, self.fmt, self.sel)
                ctx.count('reads_judged')
                if must_raise:
                    ctx.ev()
                    ctx.count('reads_raised_as_required')
                    # the exception has to come out of the library, not out of the harness
                    if ctx.classify_exception(e)[0] != 'library':
                        raise
                    continue
                lib_exception(ctx, e, tag, {'listing': mode, 'what': what})
                continue
            LIST.mode = 'sorted'
            args_unchanged(ctx, self.fmt, self.sel)
            ctx.count('reads_judged')
            if must_raise:
                ctx.ev()
                ctx.violation(tag + ':accepted', {'listing': mode, 'what': what})
                continue
            self.returned += 1
            if judge is not None:
                judge(res, mode)
        LIST.mode = 'sorted'


# ------------------------------------------------------------------------------------------------
# layouts
# ------------------------------------------------------------------------------------------------
REP_POOLS = {1: [[1], [0], [10], [3]],
             2: [[1, 10], [2, 10], [9, 10], [0, 10], [1, 2], [2, 11]],
             3: [[1, 2, 10], [0, 1, 10], [2, 10, 11], [9, 10, 100], [1, 2, 3], [2, 3, 10], [2, 10, 100]]}


FORCE = {'min_cfg': 0, 'nrep': None, 'all_bad': False}   # set by the 'options' kind: long chains, three replicas, every rejection row


def pick_bad(rng, rows):
    """The selections that must raise: one seeded row per case, every row in the 'options' kind."""
    one = str(rng.choice(rows))
    return list(rows) if FORCE['all_bad'] else [one]


def gen_reps(rng, nrep=None):
    if nrep is None and FORCE['nrep']:
        nrep = FORCE['nrep']
    if nrep is None:
        nrep = int(rng.choice([1, 2, 3], p=[0.15, 0.3, 0.55]))
    pool = REP_POOLS[nrep]
    return list(pool[int(rng.integers(len(pool)))])


def n_cfg(rng, tier, small=False):
    if small:
        return int(rng.integers(6, 10))
    if FORCE['min_cfg']:
        return FORCE['min_cfg'] + int(rng.integers(0, 8))
    if tier == 'quick':
        return int(rng.choice([5, 6, 7, 9, 12, 16, 24]))
    return int(rng.choice([5, 6, 8, 12, 20, 30, 40]))


def gen_trajectories(rng, n, spacing=None, first_mult=None):
    """Trajectory numbers first, first + s, ...: arbitrary first number and spacing, crossing a digit count."""
    s = int(rng.choice([1, 1, 2, 3, 4, 10])) if spacing is None else spacing
    kind = str(rng.choice(['one', 'spacing', 'multiple', 'arbitrary']))
    if first_mult:
        kind = 'multiple'
    if kind == 'one':
        first = 1
    elif kind == 'spacing':
        first = s
    elif kind == 'multiple':
        first = s * int(rng.choice([2, 3, 5, 9, 24, 33]))
    else:
        first = int(rng.choice([2, 3, 7, 8, 9, 95, 98])) if s > 1 else int(rng.choice([2, 5, 8, 9, 96, 99]))
    # make sure a power of ten is crossed when cheap
    if kind != 'one' and rng.random() < 0.5:
        target = 10 if first < 10 else (100 if first < 100 else 1000)
        k = (target - first) // s
        if 1 <= k and k >= n - 1:
            first = max(1, target - s * (n // 2))
            if first_mult:
                first = max(s, first - first % s)
    return [first + i * s for i in range(n)], s


def gen_cfgs(rng, n, kinds=('contig', 'strided', 'irregular')):
    kind = str(rng.choice(list(kinds)))
    first = int(rng.choice([1, 2, 7, 9, 95, 98]))
    if kind == 'contig':
        return list(range(first, first + n)), kind
    if kind == 'strided':
        s = int(rng.choice([2, 3, 5, 10]))
        first = int(rng.choice([1, 2, 8, 9, 10 - s if s < 10 else 90, 100 - 2 * s]))
        return list(range(first, first + n * s, s)), kind
    pool = list(range(first, first + 3 * n))
    pick = sorted(int(x) for x in rng.choice(pool, size=n, replace=False))
    if rng.random() < 0.5:
        pick[-1] = max(pick[-1], 100 + int(rng.integers(0, 20)))
    return pick, kind


def digits_differ(nums):
    return len(set(len(str(abs(int(x)))) for x in nums)) > 1


def cfg_map(trajs, rule, dtr_cnfg=1):
    """Configuration numbers the library documents for trajectory-numbered files (see ASSUMPTIONS)."""
    diff = trajs[-1] - trajs[-2]
    if rule == 'flow':
        c = [t // diff // dtr_cnfg for t in trajs]
        shift = c[0] > 1
    else:
        c = [t // diff for t in trajs]
        shift = c[0] > 1 and (diff > 1 if rule == 'rwms' else rule == 'energy')
    if shift:
        off = c[0] - 1
        c = [x - off for x in c]
    return c


def select(cfgs, r_start=None, r_stop=None, r_step=1):
    """Documented selection: configurations r_start, r_start + r_step, ... <= r_stop (both must exist)."""
    lo = cfgs[0] if r_start is None else r_start
    hi = cfgs[-1] if r_stop is None else r_stop
    if lo not in cfgs or hi not in cfgs:
        return None
    return [c for c in cfgs if lo <= c <= hi and (c - lo) % r_step == 0]


def pick_window(rng, cfgs, minlen=5, step=1):
    """r_start / r_stop inside cfgs leaving >= minlen selected configurations; None when impossible."""
    n = len(cfgs)
    need = (minlen - 1) * step + 1
    if n < need:
        return None
    i = int(rng.integers(0, n - need + 1))
    j = int(rng.integers(i + need - 1, n))
    return cfgs[i], cfgs[j]


ARGS_SEEN = []   # (argument name, object, digest before the call) of the most recent reader call


def fresh(kw):
    """Fresh copies of list arguments (each call gets its own objects) - registered so that Read.run can see whether the
    reader changed an argument of the caller (checklist item 7)."""
    out = {}
    del ARGS_SEEN[:]
    for a, b in kw.items():
        if isinstance(b, list):
            out[a] = [list(x) if isinstance(x, list) else x for x in b]
        else:
            out[a] = b
        if isinstance(out[a], (list, np.ndarray)):
            ARGS_SEEN.append((a, out[a], any_digest(out[a])))
    return out


def args_unchanged(ctx, fmt, sel):
    """Telemetry: did the reader modify a list the caller passed in?  (Neither property states that arguments are left
    untouched, so this is counted and reported, not judged; leaks INTO later calls are judged through their results.)"""
    for a, obj, dg in ARGS_SEEN:
        ctx.count('args_digested')
        if any_digest(obj) != dg:
            ctx.count('arg-modified-in-place:%s:%s' % (fmt.split('-')[0] if fmt.startswith('rwms') else fmt, a))
    del ARGS_SEEN[:]


def run_sel(ctx, rng, fmt, sel, call, exp, judge_fn, what, k=3, alt=None, alt_tag=None, must_raise=None):
    """Run one selection under k listings.  exp None <=> the call must raise.
    judge_fn(ctx, tag, result, expectation, what).  alt / alt_tag: a named hypothesis about the cause of a
    mismatch; when the result equals `alt` exactly the violation is recorded under the single stable tag alt_tag."""
    rd = Read(ctx, rng, fmt, sel, k)
    tag = fmt + ':' + sel

    def j(res, mode):
        w = dict(what, listing=mode)
        if alt is None:
            judge_fn(ctx, tag, res, exp, w)
            return
        t = ctx.trial()
        judge_fn(t, tag, res, exp, w)
        if not t.violations:
            ctx.absorb(t)
            return
        t2 = ctx.trial()
        judge_fn(t2, 'alt', res, alt, w)
        if not t2.violations:
            ctx.ev()
            ctx.violation(alt_tag, {'class': sel, 'first_difference': t.violations[0], 'what': w})
        else:
            ctx.absorb(t)
    mr = (exp is None) if must_raise is None else must_raise
    rd.run(call, judge=None if mr else j, must_raise=mr, what=what)
    return rd.returned


def natural(reps):
    return sorted(reps)


def permuted(rng, reps):
    perm = [reps[i] for i in rng.permutation(len(reps))]
    if perm == list(reps):
        perm = perm[::-1]
    return perm


def observe_names_permuted(ctx, fmt, call, positional, resorted, getobs=None):
    """Permuted user-supplied names where the documentation promises no pairing rule: record what the reader does."""
    LIST.mode = 'sorted'
    try:
        res = call()
    except Exception as e:
        if ctx.classify_exception(e)[0] != 'library':
            raise
        ctx.count('names-permuted:%s:raises' % fmt)
        return
    o = getobs(res) if getobs else res
    for lab, exp in (('positional', positional), ('names-resorted-not-data', resorted)):
        if exp is None:
            continue
        t = ctx.trial()
        compare_table(t, 'obs', o, exp, {})
        if not t.violations:
            ctx.count('names-permuted:%s:%s' % (fmt, lab))
            return
    ctx.count('names-permuted:%s:other' % fmt)


# ------------------------------------------------------------------------------------------------
# openQCD reweighting factors
# ------------------------------------------------------------------------------------------------
class RwmsSet:
    fmt = 'rwms'

    def __init__(self, rng, tier, small=False, version=None, data_rng=None, scale=1.0, structure=None):
        self.version = version or str(rng.choice(['1.4', '1.6', '2.0']))
        self.fmt = 'rwms-' + self.version
        self.nrw = int(rng.integers(1, 4)) if not small else int(rng.integers(1, 3))
        self.nfct = [1] * self.nrw if self.version == '1.4' else [int(rng.integers(1, 4)) for _ in range(self.nrw)]
        self.nsrc = [int(rng.integers(1, 4)) for _ in range(self.nrw)]
        if structure is not None:
            # fixed (maximal) structure: several quantities per record, several factors and sources per quantity
            self.nrw = len(structure[1])
            self.nfct = [1] * self.nrw if self.version == '1.4' else list(structure[0])
            self.nsrc = list(structure[1])
        self.reps = gen_reps(rng, 2 if small else None)
        self.prefix = str(rng.choice(['ensA', 'X_id2_', 'N200']))
        self.postfix = {'1.4': 'rwms', '1.6': 'rwms', '2.0': 'ms1'}[self.version]
        self.traj = {}
        self.rec = {}
        per = sum(2 * f * s * (2 if self.version == '2.0' else 1) for f, s in zip(self.nfct, self.nsrc))
        ntot = 0
        for r in self.reps:
            t, s = gen_trajectories(rng, n_cfg(rng, tier, small))
            self.traj[r] = t
            ntot += len(t)
        src = F.Distinct(data_rng or rng, ntot * per + 8, -1.5, 1.5)
        for r in self.reps:
            recs = []
            for nc in self.traj[r]:
                sqn = [src.block(f, s) + 1500.0 for f, s in zip(self.nfct, self.nsrc)]
                lnr = [src.block(f, s) * scale for f, s in zip(self.nfct, self.nsrc)]
                if self.version == '2.0':
                    recs.append((nc, sqn, lnr, [src.block(f, s) for f, s in zip(self.nfct, self.nsrc)],
                                 [src.block(f, s) for f, s in zip(self.nfct, self.nsrc)]))
                else:
                    recs.append((nc, sqn, lnr))
            self.rec[r] = recs
        self.files, self.bounds, self.bytes = {}, {}, {}

    def fname(self, r):
        return '%sr%d.%s.dat' % (self.prefix, r, self.postfix)

    def name(self, r):
        return '%s|r%d' % (self.prefix, r)

    def write(self, d, distractors=True):
        for r in self.reps:
            data, b = F.encode_rwms(self.version, self.nfct, self.nsrc, self.rec[r])
            self.files[r], self.bounds[r], self.bytes[r] = self.fname(r), b, data
            with open(os.path.join(d, self.fname(r)), 'wb') as f:
                f.write(data)
        if distractors:
            # files the documented pattern <prefix>*.<postfix>.dat must not pick up
            r0 = self.reps[0]
            with open(os.path.join(d, 'other' + self.fname(r0)[len(self.prefix):]), 'wb') as f:
                f.write(self.bytes[r0][: self.bounds[r0]['header_end']] + b'\0' * 7)
            with open(os.path.join(d, self.fname(r0) + '.bak'), 'wb') as f:
                f.write(b'junk')
            with open(os.path.join(d, '%sr%d.ms.dat' % (self.prefix, r0)), 'wb') as f:
                f.write(b'\1' * 31)

    def values(self, r, nrec=None):
        """[(trajectory, [reduced factor per rw])] of the first nrec records."""
        recs = self.rec[r] if nrec is None else self.rec[r][:nrec]
        return [(rec[0], [F.rwms_expect(rec[2][i]) for i in range(self.nrw)]) for rec in recs]

    def expect(self, reps=None, names=None, r_start=None, r_stop=None, r_step=1, nrec=None):
        """-> list over rw of {name: {cfg: number}}; None when the selection must raise."""
        reps = self.reps if reps is None else reps
        out = [dict() for _ in range(self.nrw)]
        for k, r in enumerate(reps):
            vals = self.values(r, None if nrec is None else nrec.get(r))
            if len(vals) < 2:
                return None
            cfgs = cfg_map([v[0] for v in vals], 'rwms')
            sel = select(cfgs, None if r_start is None else r_start[k], None if r_stop is None else r_stop[k], r_step)
            if sel is None or len(sel) < 5:
                return None
            nm = self.name(r) if names is None else names[k]
            for i in range(self.nrw):
                out[i][nm] = {c: v[1][i] for c, v in zip(cfgs, vals) if c in sel}
        return out

    def read(self, d, **kw):
        kw.setdefault('version', self.version)
        kw.setdefault('postfix', self.postfix)
        return PE.input.openQCD.read_rwms(d, self.prefix, **kw)

    def digest(self):
        return digest(self.fmt, self.nfct, self.nsrc, self.reps, [self.traj[r] for r in self.reps],
                      [self.bytes.get(r, b'')[:256] for r in self.reps])


def judge_list(ctx, tag, res, exp, what):
    ctx.ev()
    if not isinstance(res, (list, tuple)) or len(res) != len(exp):
        ctx.violation(tag + ':number-of-observables', {'what': what, 'got': len(res) if hasattr(res, '__len__') else repr(type(res)), 'exp': len(exp)})
        return False
    ok = True
    for i, (o, e) in enumerate(zip(res, exp)):
        also = {'observable-%d' % j: exp[j] for j in range(len(exp)) if j != i}
        ok &= compare_table(ctx, tag, o, e, {'what': what, 'observable': i}, also=also)
    return ok


def reject_rows_binary(ctx, rng, fmt, S, kind, read, judge):
    """Third pass (line coverage): documented rejections of the record readers that need a damaged or inconsistent file set.
    read(directory) -> result; each row gets its own copy of the set."""
    nrep = len(S.reps)
    rows = ['irregular-spacing', 'directory-missing']
    if nrep >= 2 and kind in ('rwms', 'energy'):
        # documented exceptions of read_rwms / the energy-density reader; the flow-observable reader takes every file by its own header
        rows.append('replica-headers-differ')
    if kind == 'gfms':
        rows.append('spatial-extents-differ')

    def encode(r, recs, **over):
        if kind == 'rwms':
            return F.encode_rwms(S.version, over.get('nfct', S.nfct), over.get('nsrc', S.nsrc), recs)[0]
        if kind in ('energy', 'qtop'):
            return F.encode_msdat(S.dn, S.nn, S.tmax, over.get('eps', S.eps), recs)[0]
        return F.encode_gfms(S.zthfl, S.ncs, S.tmax, over.get('L', (S.L,) * 3), S.tol, S.cmax, recs)[0]

    for row in pick_bad(rng, rows):
        with tempfile.TemporaryDirectory(prefix='vmon_C17_', dir=TMPROOT) as d2:
            S.write(d2, distractors=False)
            r = S.reps[-1]
            if row == 'irregular-spacing':
                recs = list(S.rec[r])
                del recs[len(recs) // 2]          # one measurement missing in the middle: the documented answer is an exception
                data = encode(r, recs)
            elif row == 'replica-headers-differ':
                if kind == 'rwms':
                    recs = [(x[0], list(x[1]) + [np.zeros((1, 1))], list(x[2]) + [np.ones((1, 1))]) + ((list(x[3]) + [np.zeros((1, 1))], list(x[4]) + [np.zeros((1, 1))]) if len(x) > 3 else ())
                            for x in S.rec[r]]
                    data = encode(r, recs, nfct=S.nfct + [1], nsrc=S.nsrc + [1])
                elif kind == 'gfms':
                    continue
                elif rng.random() < 0.5:
                    data = encode(r, S.rec[r], eps=S.eps * 2)
                else:
                    data = F.encode_msdat(S.dn + 1, S.nn, S.tmax, S.eps, S.rec[r])[0]
            elif row == 'spatial-extents-differ':
                data = encode(r, S.rec[r], L=(S.L, S.L, S.L + 2))
            else:
                data = None
            if data is not None:
                with open(os.path.join(d2, S.fname(r)), 'wb') as f:
                    f.write(data)
            target = os.path.join(d2, 'no_such_directory') if row == 'directory-missing' else d2
            run_sel(ctx, rng, fmt, row, lambda: read(target), None, judge, {'row': row, 'replica': r}, k=2)


def case_rwms(ctx, rng, version=None):
    S = RwmsSet(rng, ctx.tier, version=version)
    fmt = S.fmt
    with tempfile.TemporaryDirectory(prefix='vmon_C17_', dir=TMPROOT) as d:
        S.write(d)
        ctx.count('file_sets')
        ctx.cell('set', fmt, 'reps%d' % len(S.reps))
        nrep = len(S.reps)
        returned = 0
        cm = {r: cfg_map(S.traj[r], 'rwms') for r in S.reps}
        base_what = {'version': S.version, 'reps': S.reps, 'traj_first': {r: S.traj[r][:2] for r in S.reps}}

        def go(sel, kw, exp, k=3, alt=None):
            nonlocal returned
            returned += run_sel(ctx, rng, fmt, sel, lambda: S.read(d, **fresh(kw)), exp, judge_list, dict(base_what, kw=dict(kw)), k=k,
                                alt=alt, alt_tag='rwms:names-resorted-not-data')

        go('all', {}, S.expect())
        if rng.random() < 0.5 or FORCE['all_bad']:
            go('print_err', {'print_err': True}, S.expect(), k=2)
        win = {r: pick_window(rng, cm[r]) for r in S.reps}
        if all(w is not None and w[0] != 0 for w in win.values()):
            which = str(rng.choice(['both', 'start', 'stop']))
            kw = {}
            if which in ('both', 'start'):
                kw['r_start'] = [win[r][0] for r in S.reps]
            if which in ('both', 'stop'):
                kw['r_stop'] = [win[r][1] for r in S.reps]
            go('r_start_stop', kw, S.expect(r_start=kw.get('r_start'), r_stop=kw.get('r_stop')))
        step = int(rng.choice([2, 3]))
        winS = {r: pick_window(rng, cm[r], 5, step) for r in S.reps}
        if all(w is not None and w[0] != 0 for w in winS.values()):
            kw = {'r_step': step}
            if rng.random() < 0.7:
                kw['r_start'] = [winS[r][0] for r in S.reps]
                kw['r_stop'] = [winS[r][1] for r in S.reps]
            go('r_step', kw, S.expect(r_start=kw.get('r_start'), r_stop=kw.get('r_stop'), r_step=step))
        sub = list(S.reps) if nrep == 1 or rng.random() < 0.4 else sorted(rng.choice(S.reps, size=nrep - 1, replace=False).tolist())
        go('files', {'files': [S.fname(r) for r in sub]}, S.expect(reps=sub))
        nn = ['lbl|r%d' % r for r in S.reps]
        go('names', {'names': nn}, S.expect(names=nn))
        r0 = S.reps[0]
        for bad in pick_bad(rng, ['r_start-not-in-file', 'r_stop-not-in-file', 'r_start-length', 'version-unknown', 'file-missing', 'version-mismatch']):
            if bad == 'r_start-not-in-file':
                go(bad, {'r_start': [cm[r][-1] + 7 for r in S.reps]}, None, k=2)
            elif bad == 'r_stop-not-in-file':
                go(bad, {'r_stop': [cm[r][-1] + 3 for r in S.reps]}, None, k=2)
            elif bad == 'r_start-length':
                go(bad, {'r_start': [cm[r0][0]] * (nrep + 1)}, None, k=2)
            elif bad == 'version-unknown':
                go(bad, {'version': '1.2'}, None, k=2)
            elif bad == 'file-missing':
                go(bad, {'files': [S.fname(r0), 'nonexistent.dat']}, None, k=2)
            elif bad == 'version-mismatch' and S.version != '2.0':
                go(bad, {'version': '2.0'}, None, k=2)
        if nrep >= 2:
            perm = permuted(rng, S.reps)
            srt = natural(perm)
            # (1) files in another order; the replica names are stated in the file names
            go('files-permuted', {'files': [S.fname(r) for r in perm]}, S.expect(reps=perm),
               alt=S.expect(reps=perm, names=[S.name(r) for r in srt]))
            # (2) files and names permuted consistently: "names ... assigned to the data according to the order in the file list"
            nn = ['lbl|r%d' % r for r in perm]
            go('files+names-permuted', {'files': [S.fname(r) for r in perm], 'names': nn}, S.expect(reps=perm, names=nn),
               alt=S.expect(reps=perm, names=['lbl|r%d' % r for r in srt]))
            # (3) names permuted against the automatically sorted file list (same documented rule)
            go('names-permuted', {'names': nn}, S.expect(names=nn), alt=S.expect(names=['lbl|r%d' % r for r in srt]))
        go('r_stop-length', {'r_stop': [cm[r0][-1]] * (nrep + 1)}, None, k=2)
        reject_rows_binary(ctx, rng, fmt, S, 'rwms', lambda dd: S.read(dd), judge_list)
        if S.version == '2.0':
            # other encodings of the generic openQCD 2.0 array format: a result is judged, an exception is admissible for the
            # undocumented ones; an unknown element size and a three-dimensional array must be rejected
            for mode in pick_bad(rng, ['size16', 'int4', 'size2', 'dim3']):
                with tempfile.TemporaryDirectory(prefix='vmon_C17_', dir=TMPROOT) as d3:
                    recs = {r: S.rec[r] for r in S.reps}
                    if mode == 'int4':
                        recs = {r: [(x[0], x[1], [np.rint(3 * a) for a in x[2]], x[3], x[4]) for x in S.rec[r]] for r in S.reps}
                    for r in S.reps:
                        with open(os.path.join(d3, S.fname(r)), 'wb') as f:
                            f.write(F.encode_rwms('2.0', S.nfct, S.nsrc, recs[r], array=mode)[0])
                    if mode in ('size2', 'dim3'):
                        run_sel(ctx, rng, fmt, 'array-' + mode, lambda: S.read(d3), None, judge_list, {'array': mode}, k=2)
                    else:
                        keep = S.rec
                        S.rec = recs
                        e_ = S.expect()
                        S.rec = keep
                        LIST.mode = 'sorted'
                        ctx.count('judged:%s:array-%s' % (fmt, mode))
                        try:
                            res = S.read(d3)
                        except Exception as e:
                            if ctx.classify_exception(e)[0] != 'library':
                                raise
                            ctx.count('undocumented-representation-raises:%s:array-%s' % (fmt, mode))
                        else:
                            ctx.count('reads_judged')
                            judge_list(ctx, '%s:array-%s' % (fmt, mode), res, e_, {'array': mode})
        if returned and (digits_differ(S.reps) or any(digits_differ(c) for c in cm.values())):
            ctx.nontrivial.add(S.digest())
        ctx.sample({'format': fmt, 'nfct': S.nfct, 'nsrc': S.nsrc, 'replicas': S.reps,
                    'trajectories': {r: [S.traj[r][0], S.traj[r][1], '...', S.traj[r][-1]] for r in S.reps}, 'reads_returned': returned})


# ------------------------------------------------------------------------------------------------
# openQCD ms.dat: energy density (t0 / w0) and topological charge
# ------------------------------------------------------------------------------------------------
class MsdatSet:
    fmt = 'ms.dat'

    def __init__(self, rng, tier, small=False, flow_fit=False, dtr=None, data_rng=None, scale=1.0):
        self.dn = int(rng.choice([1, 2, 5]))
        self.nn = int(rng.integers(2, 5)) if not flow_fit else int(rng.integers(9, 14))
        if small:
            self.nn = 2
        self.tmax = int(rng.integers(3, 7)) if not small else 3
        self.eps = float(rng.choice([0.01, 0.02, 0.05]))
        self.L = int(rng.choice([2, 4, 6]))
        self.reps = gen_reps(rng, 2 if small else None)
        self.prefix = str(rng.choice(['ensA', 'X_id2_', 'N200']))
        self.traj = {}
        self.dtr_read = 1
        spacing = None
        if dtr:
            spacing = int(rng.choice([2, 3]))
            self.dtr_read = spacing
        elif FORCE['all_bad'] and rng.random() < 0.6:
            spacing = int(rng.choice([1, 2, 4]))     # all replicas with the same spacing: the `steps` option applies
        for r in self.reps:
            n = n_cfg(rng, tier, small)
            if flow_fit:
                n = max(n, 8)
            self.traj[r], _ = gen_trajectories(rng, n, spacing=spacing, first_mult=bool(dtr))
        m = (self.nn + 1) * self.tmax
        ntot = sum(len(t) for t in self.traj.values())
        src = F.Distinct(data_rng or rng, 3 * m * ntot + 8, -1.0, 1.0)
        self.flow_fit = flow_fit
        self.rec = {}
        ts = np.arange(self.nn + 1) * self.dn * self.eps
        self.t0_target = float(ts[self.nn // 2] + 0.37 * (ts[1] - ts[0])) if flow_fit else None
        for r in self.reps:
            recs = []
            for nc in self.traj[r]:
                W = src.block(self.nn + 1, self.tmax) * scale
                Y = src.block(self.nn + 1, self.tmax) * scale
                Q = src.block(self.nn + 1, self.tmax) * 3.0 * scale
                if flow_fit:
                    # t^2 <E> = 0.3 t / t0*  (crosses 0.3 from below at t0*), 5 % distinct noise
                    for blk in (W, Y):
                        for n in range(self.nn + 1):
                            e = 1.0 if n == 0 else 0.3 / (self.t0_target * ts[n])
                            blk[n] = self.L ** 3 * e * (1 + 0.05 * blk[n])
                recs.append((nc, W, Y, Q))
            self.rec[r] = recs
        self.files, self.bounds, self.bytes = {}, {}, {}

    def fname(self, r):
        return '%sr%d.ms.dat' % (self.prefix, r)

    def name(self, r):
        return '%s|r%d' % (self.prefix, r)

    def write(self, d, distractors=True):
        for r in self.reps:
            data, b = F.encode_msdat(self.dn, self.nn, self.tmax, self.eps, self.rec[r])
            self.files[r], self.bounds[r], self.bytes[r] = self.fname(r), b, data
            with open(os.path.join(d, self.fname(r)), 'wb') as f:
                f.write(data)
        if distractors:
            r0 = self.reps[0]
            with open(os.path.join(d, 'other' + self.fname(r0)[len(self.prefix):]), 'wb') as f:
                f.write(self.bytes[r0][:20] + b'\0' * 5)
            with open(os.path.join(d, '%sr%d.ms1.dat' % (self.prefix, r0)), 'wb') as f:
                f.write(b'\1' * 31)

    def flow_times(self):
        return [n * self.dn * self.eps for n in range(self.nn + 1)]

    def expect_energy(self, xmin, plaquette=False, assume_thermalization=True, reps=None, names=None,
                      r_start=None, r_stop=None, r_step=1, nrec=None):
        """-> {flow index n: {name: {cfg: E}}} or None (must raise)."""
        reps = self.reps if reps is None else reps
        out = {n: {} for n in range(self.nn + 1)}
        for k, r in enumerate(reps):
            recs = self.rec[r] if nrec is None or nrec.get(r) is None else self.rec[r][:nrec[r]]
            if len(recs) < 2:
                return None
            cfgs = cfg_map([x[0] for x in recs], 'energy' if assume_thermalization else 'energy_nt')
            sel = select(cfgs, None if r_start is None else r_start[k], None if r_stop is None else r_stop[k], r_step)
            if sel is None or len(sel) < 5:
                return None
            nm = self.name(r) if names is None else names[k]
            for n in range(self.nn + 1):
                out[n][nm] = {c: float(np.mean((x[1] if plaquette else x[2])[n][xmin:self.tmax - xmin])) / self.L ** 3
                              for c, x in zip(cfgs, recs) if c in sel}
        return out

    def flow_index(self, c):
        t_aim = (c * self.L) ** 2 / 8
        ts = self.flow_times()
        return int(np.argmin([abs(t - t_aim) for t in ts]))

    def c_for_index(self, k, frac=0.0):
        t = (k + frac) * self.dn * self.eps
        return math.sqrt(8 * t) / self.L

    def expect_qtop(self, c, reps=None, names=None, r_start=None, r_stop=None, integer=False, nrec=None):
        reps = self.reps if reps is None else reps
        k = self.flow_index(c)
        out = {}
        for j, r in enumerate(reps):
            recs = self.rec[r] if nrec is None or nrec.get(r) is None else self.rec[r][:nrec[r]]
            if len(recs) < 2:
                return None
            cfgs = cfg_map([x[0] for x in recs], 'flow')
            sel = select(cfgs, None if r_start is None else r_start[j], None if r_stop is None else r_stop[j], 1)
            if sel is None or len(sel) < 5:
                return None
            nm = self.name(r) if names is None else names[j]
            q = {cc: math.fsum(x[3][k]) for cc, x in zip(cfgs, recs) if cc in sel}
            if integer:
                q = {cc: float(round(v)) for cc, v in q.items()}
            out[nm] = q
        return out

    def digest(self):
        return digest(self.fmt, self.dn, self.nn, self.tmax, self.eps, self.reps, [self.traj[r] for r in self.reps],
                      [self.bytes.get(r, b'')[:256] for r in self.reps])


def judge_edict(ctx, tag, res, exp, S, what):
    ctx.ev()
    keys = sorted(res.keys())
    ts = S.flow_times()
    if len(keys) != len(ts) or not _same(keys, ts, 4 * ULP):
        ctx.violation(tag + ':flow-times', {'what': what, 'got': keys, 'exp': ts})
        return False
    ok = True
    for n, k in enumerate(keys):
        also = {'flow-time-%d' % j: exp[j] for j in range(len(ts)) if j != n}
        ok &= compare_table(ctx, tag, res[k], exp[n], dict(what, flow_index=n), also=also)
    return ok


def ref_root_fit(ts, tables, fit_range):
    """Reference of fit_t0: weighted straight-line fit y = a + b t through the 2*fit_range points around the first
    positive one (weights 1/dvalue^2, dvalue from the reference Gamma method with default parameters), root -a/b.
    tables: per flow time {name: {cfg: y}}.  Returns (value, {name: {cfg: fluctuation}}) or None if no crossing."""
    names = sorted(tables[0])
    N = sum(len(tables[0][n]) for n in names)
    means, deltas, dval = [], [], []
    for tab in tables:
        rm = {n: float(np.mean(_arr(tab[n]))) for n in names}
        mean = sum(len(tab[n]) * rm[n] for n in names) / N
        dl = {n: _arr(tab[n]) - rm[n] for n in names}
        means.append(mean)
        deltas.append(dl)
    pos = [m > 0.0 for m in means]
    if not any(pos):
        return None
    zc = pos.index(True)
    if zc == 0:
        return None
    lo = zc - fit_range
    if lo < 0:
        return 'negative-slice'
    idx = list(range(lo, min(zc + fit_range, len(ts))))
    for i in idx:
        snapshot = {'chains': {n: (sorted(tables[i][n]), deltas[i][n], 0.0) for n in names}, 'cov': {}}
        ens = names[0].split('|')[0]
        dval.append(gref.analyse(snapshot, {ens: (2.0, 0.0, 1.0)})['dvalue'])
    x = np.array([ts[i] for i in idx])
    y = np.array([means[i] for i in idx])
    w = 1.0 / np.array(dval) ** 2
    Sw, Sx, Sy, Sxx, Sxy = w.sum(), (w * x).sum(), (w * y).sum(), (w * x * x).sum(), (w * x * y).sum()
    D = Sw * Sxx - Sx ** 2
    a = (Sxx * Sy - Sx * Sxy) / D
    b = (Sw * Sxy - Sx * Sy) / D
    da = w * (Sxx - Sx * x) / D
    db = w * (Sw * x - Sx) / D
    g = -da / b + a / b ** 2 * db
    fl = {n: sum(g[j] * deltas[i][n] for j, i in enumerate(idx)) for n in names}
    return -a / b, {n: dict(zip(sorted(tables[0][n]), fl[n])) for n in names}, g, [means[i] for i in idx]


def compare_derived(ctx, tag, obs, ref, exp_cfgs, what, rtol=1e-7, sqrt=False):
    """value and fluctuations of a fitted root against the reference."""
    val, fl = ref[0], ref[1]
    if sqrt:
        fl = {n: {c: v / (2 * math.sqrt(val)) for c, v in d.items()} for n, d in fl.items()}
        val = math.sqrt(val)
    ctx.ev()
    names = sorted(fl)
    if list(obs.names) != names:
        ctx.violation(tag + ':names', {'what': what, 'got': list(obs.names), 'exp': names})
        return
    dv_ = abs(obs.value - val) / abs(val)
    ctx.count('fit-root-value:deviation-' + ('le-1e-12' if dv_ <= 1e-12 else ('le-1e-10' if dv_ <= 1e-10 else ('le-1e-8' if dv_ <= 1e-8 else 'gt-1e-8'))))
    if not abs(obs.value - val) <= rtol * abs(val):
        ctx.violation(tag + ':value', {'what': what, 'got': obs.value, 'exp': val})
    sc = max(float(np.max(np.abs(_arr(fl[n])))) for n in names)
    for n in names:
        ctx.ev()
        if [int(c) for c in obs.idl[n]] != sorted(fl[n]):
            ctx.violation(tag + ':configurations', {'what': what, 'chain': n, 'got': list(obs.idl[n])[:10], 'exp': sorted(fl[n])[:10]})
            continue
        g = np.asarray(obs.deltas[n], dtype=float)
        e = _arr(fl[n])
        ctx.count('numbers_compared', len(e))
        df_ = float(np.max(np.abs(g - e))) / sc
        ctx.count('fit-root-fluctuations:deviation-' + ('le-1e-12' if df_ <= 1e-12 else ('le-1e-10' if df_ <= 1e-10 else ('le-1e-8' if df_ <= 1e-8 else 'gt-1e-8'))))
        if not np.all(np.abs(g - e) <= rtol * sc):
            i = int(np.argmax(np.abs(g - e)))
            ctx.violation(tag + ':fluctuations', {'what': what, 'chain': n, 'cfg': sorted(fl[n])[i], 'got': float(g[i]), 'exp': float(e[i]), 'scale': sc})


def case_msdat_energy(ctx, rng):
    dtr = rng.random() < (0.5 if FORCE['all_bad'] else 0.25)
    S = MsdatSet(rng, ctx.tier, dtr=dtr)
    fmt = 'ms.dat-energy'
    oq = PE.input.openQCD
    with tempfile.TemporaryDirectory(prefix='vmon_C17_', dir=TMPROOT) as d:
        S.write(d)
        ctx.count('file_sets')
        ctx.cell('set', fmt, 'reps%d' % len(S.reps))
        nrep = len(S.reps)
        returned = 0
        xmin = int(rng.integers(0, (S.tmax - 1) // 2 + 1))
        if S.tmax - 2 * xmin < 1:
            xmin = 0
        base_what = {'reps': S.reps, 'xmin': xmin, 'dtr_read': S.dtr_read, 'traj_first': {r: S.traj[r][:2] for r in S.reps}}

        def jf(c, tag, res, exp, w):
            return judge_edict(c, tag, res, exp, S, w)

        def go(sel, kw, exp_kw, k=3, must_raise=False):
            nonlocal returned
            exp = None if must_raise else S.expect_energy(xmin, **exp_kw)
            returned += run_sel(ctx, rng, fmt, sel, lambda: oq._extract_flowed_energy_density(d, S.prefix, S.dtr_read, xmin, S.L, **fresh(kw)),
                                exp, jf, dict(base_what, kw=dict(kw)), k=k)

        go('all', {}, {})
        go('plaquette', {'plaquette': True}, {'plaquette': True}, k=2)
        go('no-thermalization', {'assume_thermalization': False}, {'assume_thermalization': False}, k=2)
        at = bool(rng.integers(0, 2))
        cm = {r: cfg_map(S.traj[r], 'energy' if at else 'energy_nt') for r in S.reps}
        base = {} if at else {'assume_thermalization': False}
        win = {r: pick_window(rng, cm[r]) for r in S.reps}
        if all(w is not None and w[0] != 0 for w in win.values()):
            kw = dict(base, r_start=[win[r][0] for r in S.reps], r_stop=[win[r][1] for r in S.reps])
            go('r_start_stop', kw, dict(base, r_start=kw['r_start'], r_stop=kw['r_stop']))
        step = int(rng.choice([2, 3]))
        winS = {r: pick_window(rng, cm[r], 5, step) for r in S.reps}
        if all(w is not None and w[0] != 0 for w in winS.values()):
            kw = dict(base, r_step=step, r_start=[winS[r][0] for r in S.reps], r_stop=[winS[r][1] for r in S.reps])
            go('r_step', kw, dict(base, r_step=step, r_start=kw['r_start'], r_stop=kw['r_stop']))
        sub = list(S.reps) if nrep == 1 or rng.random() < 0.4 else sorted(rng.choice(S.reps, size=nrep - 1, replace=False).tolist())
        go('files', {'files': [S.fname(r) for r in sub]}, {'reps': sub})
        nn = ['lbl|r%d' % r for r in S.reps]
        go('names', {'names': nn}, {'names': nn})
        for bad in pick_bad(rng, ['r_start-not-in-file', 'r_stop-length', 'file-missing']):
            if bad == 'r_start-not-in-file':
                go(bad, {'r_start': [cfg_map(S.traj[r], 'energy')[-1] + 4 for r in S.reps]}, {}, k=2, must_raise=True)
            elif bad == 'r_stop-length':
                go(bad, {'r_stop': [5] * (nrep + 1)}, {}, k=2, must_raise=True)
            else:
                go(bad, {'files': ['nonexistent.ms.dat']}, {}, k=2, must_raise=True)
        if nrep >= 2:
            # documented: "names ... assigned to the data according to the order in the file list"
            perm = permuted(rng, S.reps)
            go('files-permuted', {'files': [S.fname(r) for r in perm]}, {'reps': perm})
            nn = ['lbl|r%d' % r for r in perm]
            go('files+names-permuted', {'files': [S.fname(r) for r in perm], 'names': nn}, {'reps': perm, 'names': nn})
            go('names-permuted', {'names': nn}, {'names': nn})
        go('r_start-length', {'r_start': [1] * (nrep + 1)}, {}, k=2, must_raise=True)
        reject_rows_binary(ctx, rng, fmt, S, 'energy', lambda dd: oq._extract_flowed_energy_density(dd, S.prefix, S.dtr_read, xmin, S.L), jf)
        if returned and (digits_differ(S.reps) or any(digits_differ(c) for c in S.traj.values())):
            ctx.nontrivial.add(S.digest())
        ctx.sample({'format': fmt, 'dn,nn,tmax,eps,L': [S.dn, S.nn, S.tmax, S.eps, S.L], 'replicas': S.reps, 'xmin': xmin,
                    'trajectories': {r: [S.traj[r][0], S.traj[r][1], '...', S.traj[r][-1]] for r in S.reps}, 'reads_returned': returned})


def case_msdat_t0(ctx, rng):
    S = MsdatSet(rng, ctx.tier, flow_fit=True)
    fmt = 'ms.dat-t0'
    oq = PE.input.openQCD
    with tempfile.TemporaryDirectory(prefix='vmon_C17_', dir=TMPROOT) as d:
        S.write(d, distractors=False)
        ctx.count('file_sets')
        ctx.cell('set', fmt, 'reps%d' % len(S.reps))
        xmin = 0 if S.tmax < 3 else int(rng.integers(0, 2))
        fr = int(rng.choice([2, 3]))
        which = str(rng.choice(['t0', 'w0']))
        plaq = bool(rng.random() < 0.3)
        cm = {r: cfg_map(S.traj[r], 'energy') for r in S.reps}
        kw = {}
        if rng.random() < 0.5:
            win = {r: pick_window(rng, cm[r], 8) for r in S.reps}
            if all(w is not None for w in win.values()):
                kw = {'r_start': [win[r][0] for r in S.reps], 'r_stop': [win[r][1] for r in S.reps]}
        if plaq:
            kw['plaquette'] = True
        E = S.expect_energy(xmin, **kw)
        ts = S.flow_times()
        cc = 0.3
        names = sorted(E[0])
        t2E = [{n: {c: ts[k] ** 2 * v for c, v in E[k][n].items()} for n in names} for k in range(len(ts))]
        if which == 't0':
            tabs = [{n: {c: v - cc for c, v in t2E[k][n].items()} for n in names} for k in range(len(ts))]
        else:
            tabs = []
            for k in range(len(ts)):
                a, b = (k, k + 1) if k == 0 else ((k - 1, k) if k == len(ts) - 1 else (k - 1, k + 1))
                tabs.append({n: {c: ts[k] * (t2E[b][n][c] - t2E[a][n][c]) / (ts[b] - ts[a]) - cc for c in t2E[k][n]} for n in names})
        ref = ref_root_fit(ts, tabs, fr)
        if ref is None or ref == 'negative-slice':
            ctx.count('t0_sets_without_usable_crossing')
            return
        fn = oq.extract_t0 if which == 't0' else oq.extract_w0
        what = {'reps': S.reps, 'which': which, 'fit_range': fr, 'xmin': xmin, 'kw': dict(kw)}
        n = run_sel(ctx, rng, fmt, which, lambda: fn(d, S.prefix, 1, xmin, S.L, fit_range=fr, **fresh(kw)), ref,
                    lambda c, tag, res, exp, w: compare_derived(c, tag, res, exp, None, w, sqrt=(which == 'w0')), what, k=2)
        run_sel(ctx, rng, fmt, which + '-scale-not-reached', lambda: fn(d, S.prefix, 1, xmin, S.L, fit_range=fr, c=14.0), None, None, what, k=2)
        if n:
            ctx.nontrivial.add(S.digest())
        ctx.sample({'format': fmt, 'which': which, 'fit_range': fr, 'replicas': S.reps, 'reference_root': ref[0]})


def judge_qtop(S):
    def jf(c, tag, res, exp, w):
        ok = compare_table(c, tag, res, exp['table'], w, also=exp.get('also'))
        if exp.get('tag') is not None:
            c.ev()
            if res.tag != exp['tag']:
                c.violation(tag + ':tag', {'got': res.tag, 'exp': exp['tag']})
        return ok
    return jf


def case_msdat_qtop(ctx, rng):
    S = MsdatSet(rng, ctx.tier)
    fmt = 'ms.dat-qtop'
    oq = PE.input.openQCD
    with tempfile.TemporaryDirectory(prefix='vmon_C17_', dir=TMPROOT) as d:
        S.write(d)
        ctx.count('file_sets')
        ctx.cell('set', fmt, 'reps%d' % len(S.reps))
        nrep = len(S.reps)
        returned = 0
        cm = {r: cfg_map(S.traj[r], 'flow') for r in S.reps}
        base_what = {'reps': S.reps, 'traj_first': {r: S.traj[r][:2] for r in S.reps}}
        jf = judge_qtop(S)
        TAG = {'T': S.tmax - 1, 'L': S.L}

        def go(sel, c, kw, ekw, k=3, must_raise=False, reader=None, post=None, alt_ekw=None):
            nonlocal returned
            exp = None
            alt = None
            if not must_raise:
                t = S.expect_qtop(c, **ekw)
                if t is not None:
                    plain = not (ekw.get('integer') or post)
                    also = None
                    if plain:
                        e2 = {a: b for a, b in ekw.items()}
                        also = {'flow-index-%d' % j: S.expect_qtop(S.c_for_index(j), **e2) for j in range(S.nn + 1) if j != S.flow_index(c)}
                    exp = {'table': post(t) if post else t, 'also': also, 'tag': TAG if reader is None else None}
                    if alt_ekw is not None:
                        alt = {'table': S.expect_qtop(c, **alt_ekw), 'tag': None}
            fn = reader or oq.read_qtop
            returned += run_sel(ctx, rng, fmt, sel, lambda: fn(d, S.prefix, c, **dict({'L': S.L}, **fresh(kw))), exp, jf,
                                dict(base_what, c=c, flow_index=S.flow_index(c), kw=dict(kw)), k=k, alt=alt, alt_tag='flow-obs:names-resorted-not-data')

        kidx = int(rng.integers(0, S.nn + 1))
        frac = float(rng.choice([0.0, 0.0, 0.3, -0.3])) if 0 < kidx < S.nn else 0.0
        c = S.c_for_index(kidx, frac)
        go('all', c, {}, {})
        go('postfix', S.c_for_index(int(rng.integers(0, S.nn + 1))), {'postfix': 'ms'}, {}, k=2)
        # c one ulp below / above the value that lands exactly on a flow time (checklist 20: almost-integer index)
        cg = S.c_for_index(int(rng.integers(1, S.nn + 1)))
        go('c-one-ulp-below-grid', float(np.nextafter(cg, 0.0)), {}, {}, k=2)
        go('c-one-ulp-above-grid', float(np.nextafter(cg, 10.0)), {}, {}, k=2)
        win = {r: pick_window(rng, cm[r]) for r in S.reps}
        if all(w is not None and w[0] != 0 for w in win.values()):
            kw = {'r_start': [win[r][0] for r in S.reps], 'r_stop': [win[r][1] for r in S.reps]}
            if rng.random() < 0.3:
                del kw['r_stop']
            go('r_start_stop', c, kw, dict(kw))
        qs = S.expect_qtop(c)
        if all(abs(abs(v - math.floor(v)) - 0.5) > 1e-9 for t in qs.values() for v in t.values()):
            go('integer_charge', c, {'integer_charge': True}, {'integer': True}, k=2)
            tgt = int(rng.choice([0, 1, -1]))
            go('qtop_sector', c, {'target': tgt}, {'integer': True}, k=2, reader=oq.read_qtop_sector,
               post=lambda e: {n: {cc: (1.0 if v == tgt else 0.0) for cc, v in t.items()} for n, t in e.items()})
        sub = list(S.reps) if nrep == 1 or rng.random() < 0.4 else sorted(rng.choice(S.reps, size=nrep - 1, replace=False).tolist())
        go('files', c, {'files': [S.fname(r) for r in sub]}, {'reps': sub})
        nn = ['lbl|r%d' % r for r in S.reps]
        go('names', c, {'names': nn}, {'names': nn})
        stp = S.traj[S.reps[0]][1] - S.traj[S.reps[0]][0]
        if all(S.traj[r][1] - S.traj[r][0] == stp for r in S.reps):
            go('steps', c, {'steps': stp}, {}, k=2)
        for bad in pick_bad(rng, ['L-missing', 'zeuthen-openQCD', 'version-unknown', 'r_start-not-in-file', 'steps-mismatch']):
            if bad == 'L-missing':
                run_sel(ctx, rng, fmt, bad, lambda: oq.read_qtop(d, S.prefix, c), None, jf, {'c': c}, k=2)
            elif bad == 'zeuthen-openQCD':
                go(bad, c, {'Zeuthen_flow': True}, {}, k=2, must_raise=True)
            elif bad == 'version-unknown':
                go(bad, c, {'version': 'openQCD-2'}, {}, k=2, must_raise=True)
            elif bad == 'r_start-not-in-file':
                go(bad, c, {'r_start': [cm[r][-1] + 2 for r in S.reps]}, {}, k=2, must_raise=True)
            else:
                go(bad, c, {'steps': stp + 1}, {}, k=2, must_raise=True)
        if nrep >= 2:
            perm = permuted(rng, S.reps)
            srt = natural(perm)
            go('files-permuted', c, {'files': [S.fname(r) for r in perm]}, {'reps': perm},
               alt_ekw={'reps': perm, 'names': [S.name(r) for r in srt]})
            nn = ['lbl|r%d' % r for r in perm]
            go('files+names-permuted', c, {'files': [S.fname(r) for r in perm], 'names': nn}, {'reps': perm, 'names': nn},
               alt_ekw={'reps': perm, 'names': ['lbl|r%d' % r for r in srt]})
            # names permuted against the automatically sorted file list: the documentation of read_qtop promises no pairing
            # rule ("Alternative labeling for replicas") -> observed, not judged
            observe_names_permuted(ctx, fmt, lambda: oq.read_qtop(d, S.prefix, c, L=S.L, names=list(nn)),
                                   S.expect_qtop(c, names=nn), S.expect_qtop(c, names=['lbl|r%d' % r for r in srt]))
        go('r_stop-length', c, {'r_stop': [cm[S.reps[0]][-1]] * (nrep + 1)}, {}, k=2, must_raise=True)
        go('r_start-length', c, {'r_start': [1] * (nrep + 1)}, {}, k=2, must_raise=True)
        go('qtop_sector-target-not-integer', c, {'target': 0.5}, {}, k=2, must_raise=True, reader=oq.read_qtop_sector)
        reject_rows_binary(ctx, rng, fmt, S, 'qtop', lambda dd: oq.read_qtop(dd, S.prefix, c, L=S.L), jf)
        if returned and (digits_differ(S.reps) or any(digits_differ(x) for x in S.traj.values())):
            ctx.nontrivial.add(S.digest())
        ctx.sample({'format': fmt, 'dn,nn,tmax,eps,L': [S.dn, S.nn, S.tmax, S.eps, S.L], 'c': c, 'flow_index': S.flow_index(c), 'replicas': S.reps,
                    'trajectories': {r: [S.traj[r][0], S.traj[r][1], '...', S.traj[r][-1]] for r in S.reps}, 'reads_returned': returned})


# ------------------------------------------------------------------------------------------------
# ms5_xsf
# ------------------------------------------------------------------------------------------------
class Ms5Set:
    fmt = 'ms5_xsf'

    def __init__(self, rng, tier, small=False, data_rng=None, scale=1.0):
        self.tmax = int(rng.integers(2, 6)) if not small else 2
        self.qc = str(rng.choice(['dd', 'ud', 'du', 'uu']))
        self.prefix = str(rng.choice(['ms5_xsf_T24L16', 'ensA', 'N200', 'v1.2x']))      # 'v1.2x': a dot inside the ensemble name
        self.reps = gen_reps(rng, 2 if small else None)
        self.hdr = (float(rng.choice([0.125, 0.1345])), 1.0 + float(rng.random()), 0.5, 1.0)
        self.bnd = int(rng.integers(0, 3))
        self.cfgs = {}
        self.kind = {}
        for r in self.reps:
            self.cfgs[r], self.kind[r] = gen_cfgs(rng, n_cfg(rng, tier, small))
        per = 10 * self.tmax * 2 + 4
        src = F.Distinct(data_rng or rng, per * sum(len(c) for c in self.cfgs.values()) + 8, -5.0, 5.0)
        self.rec = {r: [(c, src.block(10, self.tmax, 2) * scale, src.block(2, 2) * scale) for c in self.cfgs[r]] for r in self.reps}
        self.files, self.bounds, self.bytes = {}, {}, {}

    def fname(self, r, qc=None):
        return '%sr%d.ms5_xsf_%s.dat' % (self.prefix, r, qc or self.qc)

    def name(self, r):
        return '%s|r%d' % (self.prefix, r)

    def lex(self, reps=None):
        """Order in which read_ms5_xsf lists the replicas (sorted file names)."""
        reps = self.reps if reps is None else reps
        return sorted(reps, key=lambda r: self.fname(r))

    def write(self, d, distractors=True):
        for r in self.reps:
            data, b = F.encode_ms5xsf(self.hdr[0], self.hdr[1], self.hdr[2], self.hdr[3], self.tmax, self.bnd, self.rec[r])
            self.files[r], self.bounds[r], self.bytes[r] = self.fname(r), b, data
            with open(os.path.join(d, self.fname(r)), 'wb') as f:
                f.write(data)
        if distractors:
            r0 = self.reps[0]
            other = [q for q in ('dd', 'ud', 'du', 'uu') if q != self.qc][0]
            with open(os.path.join(d, self.fname(r0, other)), 'wb') as f:
                f.write(self.bytes[r0][:40] + b'\0' * 9)
            with open(os.path.join(d, 'other' + self.fname(r0)[len(self.prefix):]), 'wb') as f:
                f.write(b'\1' * 31)

    def expect(self, corr, reps=None, names=None, idl=None, nrec=None):
        """-> list over time slices of (real table, imag table); idl: {rep: iterable of configurations}."""
        reps = self.reps if reps is None else reps
        bi = corr in F.MS5_BI
        nt = self.tmax if bi else 1
        out = [({}, {}) for _ in range(nt)]
        for k, r in enumerate(reps):
            recs = self.rec[r] if nrec is None or nrec.get(r) is None else self.rec[r][:nrec[r]]
            if idl is not None:
                recs = [x for x in recs if x[0] in set(idl[r])]
            if len(recs) < 5:
                return None
            nm = self.name(r) if names is None else names[k]
            for t in range(nt):
                for part in (0, 1):
                    out[t][part][nm] = {x[0]: float(x[1][F.MS5_BI.index(corr)][t][part] if bi else x[2][F.MS5_BB.index(corr)][part]) for x in recs}
        return out

    def digest(self):
        return digest(self.fmt, self.tmax, self.qc, self.reps, [self.cfgs[r] for r in self.reps], [self.bytes.get(r, b'')[:256] for r in self.reps])


def ms5_parts(res):
    """CObs per time slice of the returned object (Corr of CObs or a single CObs)."""
    if type(res).__name__ == 'Corr':
        return [c[0] for c in res.content]
    return [res]


def judge_ms5(S):
    def jf(c, tag, res, exp, w):
        parts = ms5_parts(res)
        c.ev()
        if len(parts) != len(exp):
            c.violation(tag + ':time-extent', {'got': len(parts), 'exp': len(exp), 'what': w})
            return False
        ok = True
        for t, (co, (re_, im_)) in enumerate(zip(parts, exp)):
            also_r = {'imaginary-part': im_}
            also_i = {'real-part': re_}
            for u in range(len(exp)):
                if u != t:
                    also_r['time-slice-%d' % u] = exp[u][0]
                    also_i['time-slice-%d' % u] = exp[u][1]
            ok &= compare_table(c, tag, co.real, re_, dict(w, t=t, part='real'), also=also_r)
            ok &= compare_table(c, tag, co.imag, im_, dict(w, t=t, part='imag'), also=also_i)
        return ok
    return jf


def case_ms5(ctx, rng):
    S = Ms5Set(rng, ctx.tier)
    fmt = 'ms5_xsf'
    oq = PE.input.openQCD
    with tempfile.TemporaryDirectory(prefix='vmon_C17_', dir=TMPROOT) as d:
        S.write(d)
        ctx.count('file_sets')
        ctx.cell('set', fmt, 'reps%d' % len(S.reps))
        nrep = len(S.reps)
        returned = 0
        base_what = {'reps': S.reps, 'tmax': S.tmax, 'qc': S.qc, 'cfgs_first': {r: S.cfgs[r][:3] for r in S.reps}}
        jf = judge_ms5(S)
        lex = S.lex()

        def go(sel, corr, kw, ekw, k=3, must_raise=False, qc=None):
            nonlocal returned
            exp = None if must_raise else S.expect(corr, **ekw)
            returned += run_sel(ctx, rng, fmt, sel, lambda: oq.read_ms5_xsf(d, S.prefix, qc or S.qc, corr, **fresh(kw)), exp, jf,
                                dict(base_what, corr=corr, kw={a: (b if a != 'idl' else [list(x)[:6] for x in b]) for a, b in kw.items()}), k=k,
                                must_raise=must_raise or exp is None)

        corr = str(rng.choice(F.MS5_BI))
        go('bi', corr, {}, {})
        go('bb', str(rng.choice(F.MS5_BB)), {}, {}, k=2)
        # idl per replica, in the order in which the reader lists the replicas (sorted file names)
        idl = {}
        for r in S.reps:
            c = S.cfgs[r]
            how = str(rng.choice(['prefix', 'stride', 'random', 'superset']))
            if how == 'prefix' and len(c) > 5:
                idl[r] = c[:int(rng.integers(5, len(c)))]
            elif how == 'stride' and len(c) >= 10:
                idl[r] = c[int(rng.integers(0, 2))::2]
            elif how == 'random' and len(c) > 6:
                idl[r] = sorted(int(x) for x in rng.choice(c, size=int(rng.integers(5, len(c))), replace=False))
            else:
                idl[r] = list(c) + [c[-1] + 1000]
        as_range = rng.random() < 0.3
        lst = [idl[r] for r in lex]
        if as_range:
            idl = {r: list(range(S.cfgs[r][0], S.cfgs[r][-1] + 1)) for r in S.reps}
            lst = [range(S.cfgs[r][0], S.cfgs[r][-1] + 1) for r in lex]
        go('idl', corr, {'idl': lst}, {'idl': idl})
        sub = list(S.reps) if nrep == 1 or rng.random() < 0.4 else sorted(rng.choice(S.reps, size=nrep - 1, replace=False).tolist())
        go('files', corr, {'files': [S.fname(r) for r in sub]}, {'reps': sub})
        nn = ['lbl|r%d' % r for r in S.reps]
        go('names', corr, {'names': nn}, {'names': nn})
        # sep='': no replica part in the name, the single file is labelled with the prefix
        r1 = S.reps[int(rng.integers(nrep))]
        returned += run_sel(ctx, rng, fmt, 'sep-empty', lambda: oq.read_ms5_xsf(d, S.prefix, S.qc, corr, sep='', files=[S.fname(r1)]),
                            S.expect(corr, reps=[r1], names=[S.prefix]), jf, dict(base_what, corr=corr, file=S.fname(r1)), k=2)
        for bad in pick_bad(rng, ['qc-unknown', 'corr-unknown', 'idl-none-found', 'file-missing']):
            if bad == 'qc-unknown':
                go(bad, corr, {}, {}, k=2, must_raise=True, qc='rq')
            elif bad == 'corr-unknown':
                go(bad, 'gX', {}, {}, k=2, must_raise=True)
            elif bad == 'idl-none-found':
                go(bad, corr, {'idl': [[100000 + i for i in range(6)] for _ in S.reps]}, {}, k=2, must_raise=True)
            else:
                go(bad, corr, {'files': ['nonexistent.dat']}, {}, k=2, must_raise=True)
        if nrep >= 2:
            perm = permuted(rng, S.reps)
            # files in another order: names are stated in the file names
            go('files-permuted', corr, {'files': [S.fname(r) for r in perm]}, {'reps': perm})
            # undocumented pairing rules: observed, not judged
            nnp = ['lbl|r%d' % r for r in perm]
            part0 = lambda res: ms5_parts(res)[0].real  # noqa: E731
            e_pos = S.expect(corr, reps=natural(S.reps), names=nnp)
            e_srt = S.expect(corr, reps=lex, names=sorted(nnp))
            observe_names_permuted(ctx, fmt, lambda: oq.read_ms5_xsf(d, S.prefix, S.qc, corr, names=list(nnp)),
                                   e_pos[0][0] if e_pos else None, e_srt[0][0] if e_srt else None, getobs=part0)
            if lex != natural(S.reps):
                ctx.count('ms5_xsf:replica-order-lexicographic-differs-from-numeric')
        if returned and (digits_differ(S.reps) or any(digits_differ(x) for x in S.cfgs.values())):
            ctx.nontrivial.add(S.digest())
        ctx.sample({'format': fmt, 'tmax': S.tmax, 'qc': S.qc, 'corr': corr, 'replicas': S.reps,
                    'configurations': {r: S.cfgs[r][:3] + ['...', S.cfgs[r][-1]] for r in S.reps}, 'reads_returned': returned})


# ------------------------------------------------------------------------------------------------
# sfcf (layouts o, c, a)
# ------------------------------------------------------------------------------------------------
SFCF_TYPES = {'f_A': 'bi', 'f_1': 'bb', 'F_V0': 'bib'}


class SfcfSet:
    def __init__(self, rng, tier, layout, small=False, data_rng=None, scale=1.0, rep_sep='r', same_cfgs=False):
        self.layout = layout
        self.rsep = rep_sep
        self.fmt = 'sfcf-' + layout
        self.version = '2.0' + {'o': '', 'c': 'c', 'a': 'a'}[layout]
        self.prefix = str(rng.choice(['data', 'ens_x', 'N200']))
        self.reps = gen_reps(rng, 2 if small else None)
        self.T = int(rng.integers(2, 5)) if not small else 3
        nwf = int(rng.integers(1, 4)) if not small else 2
        self.wfs = list(range(nwf))
        self.offsets = [0] if small or rng.random() < 0.6 else [0, 1]
        self.quarks = ['lquark lquark'] if small or rng.random() < 0.7 else ['lquark lquark', 'lquark squark']
        self.names = ['f_A', 'f_1', 'F_V0']
        self.cfgs = {}
        for r in self.reps:
            n = n_cfg(rng, tier, small)
            if layout == 'o' and not small:
                n = min(n, 12)
            self.cfgs[r], _ = gen_cfgs(rng, n)
        if same_cfgs:
            for r in self.reps:
                self.cfgs[r] = list(self.cfgs[self.reps[0]])
        # block keys per name, in a per-set random order (all files of a set share the structure)
        self.order = {}
        for nm in self.names:
            keys = []
            for q in self.quarks:
                for off in self.offsets:
                    for w in self.wfs:
                        if SFCF_TYPES[nm] == 'bi':
                            keys.append((nm, q, off, w, None))
                        else:
                            for w2 in self.wfs:
                                keys.append((nm, q, off, w, w2))
            self.order[nm] = [keys[i] for i in (data_rng or rng).permutation(len(keys))]
        allkeys = [k for nm in self.names for k in self.order[nm]]
        self.corder = [allkeys[i] for i in (data_rng or rng).permutation(len(allkeys))]   # block order in compact files
        ncf = sum(len(c) for c in self.cfgs.values())
        per = sum((1 if SFCF_TYPES[k[0]] == 'bb' else self.T) * 2 for k in allkeys)
        src = F.Distinct(data_rng or rng, per * ncf + 8, -700.0, 700.0)
        self.vals = {}
        for r in self.reps:
            for c in self.cfgs[r]:
                self.vals[(r, c)] = {k: src.block(1 if SFCF_TYPES[k[0]] == 'bb' else self.T, 2) * scale for k in allkeys}
        self.info = {}

    def block(self, r, c, key):
        nm, q, off, w, w2 = key
        v = self.vals[(r, c)][key]
        return {'name': nm, 'quarks': q, 'offset': off, 'wf': w, 'wf2': w2, 'kind': 'corr' if SFCF_TYPES[nm] == 'bb' else 'corr_t',
                'vals': [(float(a), float(b)) for a, b in v]}

    def blocks_of(self, r, c, nm):
        if self.layout == 'c':
            return [self.block(r, c, k) for k in self.corder if k[0] == nm]
        return [self.block(r, c, k) for k in self.order[nm]]

    def write(self, d, distractors=True):
        if self.layout == 'c':
            # compact files hold all names in the set's block order: hand the writer one pseudo name
            def bo(r, c, nm):
                return [self.block(r, c, k) for k in self.corder]
            self.info = F.write_sfcf_set(d, 'c', self.prefix, self.cfgs, bo, ['all'], rep_sep=self.rsep)
        else:
            self.info = F.write_sfcf_set(d, self.layout, self.prefix, self.cfgs, self.blocks_of, self.names, rep_sep=self.rsep)
        if distractors:
            if self.layout == 'a':
                with open(os.path.join(d, 'other_r1.f_A'), 'w') as f:
                    f.write('[run]\n\njunk\n')
            else:
                os.makedirs(os.path.join(d, 'other_r1'))
                r0 = self.reps[0]
                rd = os.path.join(d, self.rdir(r0))
                if self.layout == 'o':
                    os.makedirs(os.path.join(rd, 'tmp'))
                else:
                    with open(os.path.join(rd, 'README'), 'w') as f:
                        f.write('not a measurement\n')

    def rdir(self, r):
        return '%s_%s%d' % (self.prefix, self.rsep, r)

    def name(self, r, ens=None):
        return '%s|%s%d' % (ens if ens else self.prefix + '_', self.rsep, r)

    def cfile(self, r, c):
        return 'cfg%d' % c if self.layout == 'o' else '%s_n%d' % (self.rdir(r), c)

    def expect(self, key, im=False, reps=None, names=None, ens=None, cfgs=None, drop=None):
        """-> list over time slices of {name: {cfg: number}}; cfgs: {rep: subset}; drop: set of (rep, cfg) left out."""
        reps = self.reps if reps is None else reps
        nt = 1 if SFCF_TYPES[key[0]] == 'bb' else self.T
        out = [dict() for _ in range(nt)]
        for k, r in enumerate(reps):
            cl = self.cfgs[r] if cfgs is None else sorted(cfgs[r])
            if drop:
                cl = [c for c in cl if (r, c) not in drop]
            if len(cl) < 5:
                return None
            nm = self.name(r, ens) if names is None else names[k]
            for t in range(nt):
                out[t][nm] = {c: float(self.vals[(r, c)][key][t][1 if im else 0]) for c in cl}
        return out

    def read(self, d, key, **kw):
        nm, q, off, w, w2 = key
        kw = dict(kw)
        version = kw.pop('version', self.version)
        silent = kw.pop('silent', True)
        if self.rsep != 'r' and not kw.pop('_no_rep_string', False):
            kw.setdefault('rep_string', self.rsep)
        kw.pop('_no_rep_string', None)
        return PE.input.sfcf.read_sfcf(d, self.prefix, nm, quarks=q, corr_type=SFCF_TYPES[nm], noffset=off, wf=w, wf2=0 if w2 is None else w2,
                                       version=version, silent=silent, **kw)

    def digest(self):
        k0 = sorted(self.vals)[0]
        return digest(self.fmt, self.T, self.wfs, self.offsets, self.quarks, self.reps, [self.cfgs[r] for r in self.reps],
                      [self.vals[k0][k] for k in self.corder[:3]])


def judge_sfcf(S, key, im):
    def jf(c, tag, res, exp, w):
        c.ev()
        if not isinstance(res, list) or len(res) != len(exp):
            c.violation(tag + ':time-extent', {'got': len(res) if hasattr(res, '__len__') else repr(type(res)), 'exp': len(exp), 'what': w})
            return False
        ok = True
        kw = {a: w['_ekw'][a] for a in ('reps', 'names', 'ens', 'cfgs') if a in w.get('_ekw', {})}
        for t, (o, e) in enumerate(zip(res, exp)):
            also = {}
            oth = S.expect(key, im=not im, **kw)
            if oth:
                also['other-part(real/imag)'] = oth[t]
            for u in range(len(exp)):
                if u != t:
                    also['time-slice-%d' % u] = exp[u]
            for k2 in S.order[key[0]]:
                if k2 != key:
                    e2 = S.expect(k2, im=im, **kw)
                    if e2 and len(e2) > t:
                        also['block-%s' % (k2[1:],)] = e2[t]
            ok &= compare_table(c, tag, o, e, {a: b for a, b in dict(w, t=t).items() if a != '_ekw'}, also=also)
        return ok
    return jf


def judge_ens_name(S, ens, inner):
    """ens_name replaces the ensemble part of the replica name: expected name = ens_name + '|' + replica part of the
    directory / file name (e.g. 'ens|r0').  A wrong replica name gets its own mechanism tag."""
    def jf(c, tag, res, exp, w):
        fmt = tag.split(':')[0]
        first = res[0] if isinstance(res, list) and res else res
        got = list(getattr(first, 'names', []))
        want = sorted(exp[0]) if exp else []
        c.ev()
        if got != want:
            if len(got) == len(want) and all(g != e and g.startswith(e + '.') for g, e in zip(sorted(got), sorted(want))):
                mech = 'ens_name-replica-name-keeps-file-suffix'
            else:
                mech = 'ens_name-replica-name'
            c.violation('%s:%s' % (fmt, mech), {'got': got, 'exp': want, 'ens_name': ens,
                                               'what': {a: b for a, b in w.items() if a != '_ekw'}})
            return False
        return inner(c, tag, res, exp, w)
    return jf


def sfcf_extra_rows(ctx, rng, S, d, key, im, go, readable):
    """Third pass (line coverage): options and rejections of the sfcf reader no case reached."""
    fmt = S.fmt
    layout = S.layout
    nrep = len(S.reps)
    # the other version strings take the same path as 2.0 (the 1.0 output has the same layout); progress output switched on
    go('version-1.0', key, {'version': '1.0' + S.version[3:]}, {}, im=im, k=2)
    go('silent-false', key, {'silent': False}, {}, im=im, k=2)
    if S.rsep != 'r':
        # replica separator other than 'r': rep_string is required (and the directory names carry no r<digits>)
        go('rep_string', key, {}, {}, im=im, k=3)
        go('rep_string-missing', key, {'_no_rep_string': True}, {}, k=2, must_raise=True)
    if layout == 'o' and all(S.cfgs[r] == S.cfgs[S.reps[0]] for r in S.reps):
        c0 = S.cfgs[S.reps[0]]
        pick = c0 if len(c0) <= 5 else sorted(int(x) for x in rng.choice(c0, size=int(rng.integers(5, len(c0) + 1)), replace=False))
        names_ = ['cfg%d' % x for x in pick]
        go('files-one-list-for-all-replicas', key, {'files': [names_[i] for i in rng.permutation(len(names_))]}, {'cfgs': {r: pick for r in S.reps}}, im=im)
    rows = ['no-replica-directories']
    if layout != 'a':
        rows += ['files-mixed-types', 'files-not-a-list', 'configuration-number-unparsable', 'replica-directory-empty', 'correlator-empty']
    else:
        rows += ['chunks-of-unequal-length', 'gauge-name-unparsable']
    for row in pick_bad(rng, rows):
        if row == 'files-mixed-types':
            go(row, key, {'files': [['cfg1'], 'cfg2'][:max(2, nrep)] if nrep <= 2 else [['cfg1'], 'cfg2', ['cfg3']]}, {}, k=2, must_raise=True)
            continue
        if row == 'files-not-a-list':
            go(row, key, {'files': tuple(['cfg1', 'cfg2'])}, {}, k=2, must_raise=True)
            continue
        with tempfile.TemporaryDirectory(prefix='vmon_C17_', dir=TMPROOT) as d2:
            if row == 'no-replica-directories':
                with open(os.path.join(d2, 'readme'), 'w') as f:
                    f.write('x')
            else:
                keep = S.info
                S.write(d2, distractors=False)
                S.info = keep
                r0 = S.reps[0]
                if row == 'configuration-number-unparsable':
                    if layout == 'o':
                        os.makedirs(os.path.join(d2, S.rdir(r0), 'cfgX'))
                    else:
                        with open(os.path.join(d2, S.rdir(r0), S.rdir(r0) + '_nX'), 'w') as f:
                            f.write('junk\n')
                elif row == 'replica-directory-empty':
                    os.makedirs(os.path.join(d2, '%s_%s%d' % (S.prefix, S.rsep, 77)))
                elif row == 'correlator-empty':
                    # the file the reader inspects for the structure (first configuration of the first replica): the wanted block has no data lines
                    rfirst = sorted(S.reps)[0]
                    c0 = S.cfgs[rfirst][0]
                    rel = os.path.join(S.rdir(rfirst), 'cfg%d' % c0, key[0]) if layout == 'o' else os.path.join(S.rdir(rfirst), S.cfile(rfirst, c0))
                    inf = S.info[rel]
                    b_ = [x for x in inf['blocks'] if x['key'] == key][0]
                    txt = open(os.path.join(d2, rel)).read()
                    txt = txt[:b_['spans'][0][0]] + txt[b_['data_end']:]
                    open(os.path.join(d2, rel), 'w').write(txt)
                elif row == 'chunks-of-unequal-length':
                    p = os.path.join(d2, '%s.%s' % (S.rdir(r0), key[0]))
                    txt = open(p).read()
                    i = txt.index('[run]', 10)          # second chunk: one more header line
                    txt = txt[:i] + txt[i:].replace('user        ', 'comment     extra line\nuser        ', 1)
                    open(p, 'w').write(txt)
                elif row == 'gauge-name-unparsable':
                    p = os.path.join(d2, '%s.%s' % (S.rdir(r0), key[0]))
                    txt = open(p).read()
                    c1 = S.cfgs[r0][1]
                    txt = txt.replace('gauge_name  /%s_n%d\n' % (S.rdir(r0), c1), 'gauge_name  /%s_nX\n' % S.rdir(r0), 1)
                    open(p, 'w').write(txt)
            run_sel(ctx, rng, fmt, row, lambda: S.read(d2, key), None, None, {'row': row}, k=2)


def case_sfcf(ctx, rng, layout):
    S = SfcfSet(rng, ctx.tier, layout, rep_sep='q' if rng.random() < 0.3 else 'r', same_cfgs=bool(layout == 'o' and rng.random() < 0.4))
    fmt = S.fmt
    sf = PE.input.sfcf
    with tempfile.TemporaryDirectory(prefix='vmon_C17_', dir=TMPROOT) as d:
        S.write(d)
        ctx.count('file_sets')
        ctx.cell('set', fmt, 'reps%d' % len(S.reps))
        nrep = len(S.reps)
        returned = 0
        base_what = {'layout': layout, 'reps': S.reps, 'T': S.T, 'wfs': S.wfs, 'offsets': S.offsets, 'cfgs_first': {r: S.cfgs[r][:3] for r in S.reps}}

        def readable(nm):
            # appended layout: only the first correlator block of a file can be addressed (observation D13)
            return S.order[nm][:1] if layout == 'a' else S.order[nm]

        def go(sel, key, kw, ekw, k=3, must_raise=False, im=False, wrap=None):
            nonlocal returned
            exp = None if must_raise else S.expect(key, im=im, **ekw)
            kk = dict(kw)
            if im:
                kk['im'] = True
            jf = judge_sfcf(S, key, im)
            if wrap is not None:
                jf = wrap(jf)
            returned += run_sel(ctx, rng, fmt, sel, lambda: S.read(d, key, **fresh(kk)), exp, jf,
                                dict(base_what, key=list(key), im=im, kw={a: (b if a != 'files' else '...') for a, b in kw.items()}, _ekw=ekw), k=k,
                                must_raise=must_raise or exp is None)

        # every correlator type, real and imaginary part
        for nm in S.names:
            keys = readable(nm)
            key = keys[int(rng.integers(len(keys)))]
            go('read:' + SFCF_TYPES[nm], key, {}, {}, im=bool(rng.integers(0, 2)), k=3 if nm == 'f_A' else 2)
        nm = str(rng.choice(S.names))
        keys = readable(nm)
        key = keys[int(rng.integers(len(keys)))]
        im = bool(rng.integers(0, 2))
        if layout == 'a':
            # D13 (observation): a block that is not the first of its file
            if len(S.order[nm]) > 1:
                k2 = S.order[nm][1]
                LIST.mode = 'sorted'
                try:
                    r2 = S.read(d, k2)
                    t = ctx.trial()
                    judge_sfcf(S, k2, False)(t, fmt + ':non-first-block', r2, S.expect(k2), dict(base_what, key=list(k2), _ekw={}))
                    ctx.absorb(t)
                    ctx.count('sfcf-a:non-first-block-read')
                except ValueError as e:
                    if 'Did not find pattern' not in str(e):
                        raise
                    ctx.count('sfcf-a:non-first-block-unreadable(D13)')
        # names in natural order; ens_name
        nn = ['lbl|r%d' % r for r in S.reps]
        go('names', key, {'names': nn}, {'names': nn}, im=im)
        # ens_name (all layouts): expected replica name = ens_name + '|' + replica part of the directory / file name
        ens = str(rng.choice(['ensQ', 'ens', 'B451']))
        go('ens_name', key, {'ens_name': ens}, {'ens': ens}, im=im, k=2, wrap=lambda inner: judge_ens_name(S, ens, inner))
        if layout != 'a':
            # replica selection
            if nrep >= 2:
                sub = sorted(rng.choice(S.reps, size=nrep - 1, replace=False).tolist())
                lst = [S.rdir(r) for r in sub]
                if rng.random() < 0.5:
                    lst = lst[::-1]
                go('replica', key, {'replica': lst}, {'reps': sub}, im=im)
            # files per replica (subset, handed over in arbitrary order)
            cf = {}
            fl = []
            for r in S.reps:
                c = S.cfgs[r]
                pick = c if len(c) <= 5 else sorted(int(x) for x in rng.choice(c, size=int(rng.integers(5, len(c) + 1)), replace=False))
                cf[r] = pick
                names_ = [S.cfile(r, x) for x in pick]
                fl.append([names_[i] for i in rng.permutation(len(names_))])
            go('files', key, {'files': fl}, {'cfgs': cf}, im=im)
        else:
            allf = ['%s.%s' % (S.rdir(r), key[0]) for r in S.reps]
            go('files', key, {'files': allf}, {}, im=im, k=2)
            if nrep >= 2:
                go('files-permuted', key, {'files': [allf[i] for i in rng.permutation(nrep)]}, {}, im=im, k=2)
        # several correlators at once
        multi_names, multi_types = [], []
        for nm2 in S.names:
            if rng.random() < 0.7 or not multi_names:
                multi_names.append(nm2)
                multi_types.append(SFCF_TYPES[nm2])
        q = S.quarks[0]
        off = S.offsets[0]
        if layout == 'a':
            firsts = [S.order[n2][0] for n2 in multi_names]
            if len(set((k[1], k[2], k[3]) for k in firsts)) == 1 and len(set(k[4] for k in firsts if k[4] is not None)) <= 1:
                q, off = firsts[0][1], firsts[0][2]
                wl = [firsts[0][3]]
                w2l = [next((k[4] for k in firsts if k[4] is not None), 0)]
            else:
                multi_names = []
        else:
            wl = sorted(int(x) for x in rng.choice(S.wfs, size=int(rng.integers(1, len(S.wfs) + 1)), replace=False))
            w2l = sorted(int(x) for x in rng.choice(S.wfs, size=int(rng.integers(1, len(S.wfs) + 1)), replace=False))
        if multi_names:
            keyed = bool(rng.integers(0, 2))
            mim = bool(rng.integers(0, 2))

            for mens in (None, ens):
                def call_multi(mens=mens):
                    kw = {'im': True} if mim else {}
                    if mens:
                        kw['ens_name'] = mens
                    if S.rsep != 'r':
                        kw['rep_string'] = S.rsep
                    return sf.read_sfcf_multi(d, S.prefix, list(multi_names), quarks_list=[q], corr_type_list=list(multi_types), noffset_list=[off],
                                              wf_list=list(wl), wf2_list=list(w2l), version=S.version, silent=True, keyed_out=keyed, **kw)

                def jm(c, tag, res, exp, w, mens=mens):
                    ok = True
                    ekw = {'ens': mens} if mens else {}
                    for n2, ty in zip(multi_names, multi_types):
                        for w1 in wl:
                            for w2 in (w2l if ty != 'bi' else [None]):
                                k2 = (n2, q, off, w1, w2)
                                try:
                                    got = res['/'.join([n2, q, str(off), str(w1), str(w2 or 0)])] if keyed else res[n2][q][str(off)][str(w1)][str(w2 or 0)]
                                except KeyError:
                                    c.ev()
                                    c.violation(tag + ':missing-entry', {'key': list(k2), 'keyed_out': keyed})
                                    ok = False
                                    continue
                                jf = judge_sfcf(S, k2, mim)
                                if mens:
                                    jf = judge_ens_name(S, mens, jf)
                                ok &= jf(c, tag, got, S.expect(k2, im=mim, **ekw), dict(w, key=list(k2), _ekw=ekw))
                    return ok
                returned += run_sel(ctx, rng, fmt, 'multi-ens_name' if mens else 'multi', call_multi, True, jm,
                                    dict(base_what, names=multi_names, wf=wl, wf2=w2l, keyed=keyed, im=mim, ens_name=mens), k=2)
        for bad in pick_bad(rng, ['names-length', 'names-not-unique', 'version-unknown', 'correlator-absent', 'files-type']):
            if bad == 'names-length':
                go(bad, key, {'names': nn + ['lbl|r99']}, {}, k=2, must_raise=True)
            elif bad == 'names-not-unique' and nrep >= 2:
                go(bad, key, {'names': [nn[0]] * nrep}, {}, k=2, must_raise=True)
            elif bad == 'version-unknown':
                run_sel(ctx, rng, fmt, bad, lambda: sf.read_sfcf(d, S.prefix, key[0], quarks=key[1], corr_type=SFCF_TYPES[key[0]], version='3.0'), None, None, {}, k=2)
            elif bad == 'correlator-absent':
                go(bad, (key[0], key[1], key[2], 7, key[4]), {}, {}, k=2, must_raise=True)
            elif bad == 'files-type':
                go(bad, key, {'files': [[range(1, 11, 2)] for _ in S.reps]}, {}, k=2, must_raise=True)
        sfcf_extra_rows(ctx, rng, S, d, key, im, go, readable)
        if nrep >= 2:
            # permuted names: the documentation promises no pairing rule -> observed
            perm = permuted(rng, S.reps)
            nnp = ['lbl|r%d' % r for r in perm]
            e_pos = S.expect(key, names=nnp)
            e_srt = S.expect(key, names=['lbl|r%d' % r for r in natural(perm)])
            observe_names_permuted(ctx, fmt, lambda: S.read(d, key, names=list(nnp)), e_pos[0], e_srt[0], getobs=lambda r_: r_[0])
        if returned and (digits_differ(S.reps) or any(digits_differ(x) for x in S.cfgs.values())):
            ctx.nontrivial.add(S.digest())
        ctx.sample({'format': fmt, 'T': S.T, 'wfs': S.wfs, 'offsets': S.offsets, 'quarks': S.quarks, 'replicas': S.reps,
                    'configurations': {r: S.cfgs[r][:3] + ['...', S.cfgs[r][-1]] for r in S.reps}, 'reads_returned': returned})


# ------------------------------------------------------------------------------------------------
# Hadrons meson hdf5
# ------------------------------------------------------------------------------------------------
GAMMAS = ['Gamma5', 'GammaT', 'GammaX', 'GammaTGamma5', 'Identity']


class HadronsSet:
    fmt = 'hadrons'

    def __init__(self, rng, tier, small=False, data_rng=None, scale=1.0):
        self.stem = str(rng.choice(['meson_prop', 'pt_ll', 'run7.meson']))
        self.ens = str(rng.choice(['ensH', 'ensH|r1', 'A654']))
        self.T = int(rng.integers(2, 6)) if not small else 2
        self.K = int(rng.integers(2, 4)) if not small else 2
        n = n_cfg(rng, tier, small)
        self.cfgs, self.kind = gen_cfgs(rng, n)
        # entries: distinct (gamma_snk, gamma_src) pairs plus a shared attribute
        pairs = []
        while len(pairs) < self.K:
            p = (str(rng.choice(GAMMAS)), str(rng.choice(GAMMAS)))
            if p not in pairs:
                pairs.append(p)
        self.attrs = [{'gamma_snk': a, 'gamma_src': b, 'quark': 'l'} for a, b in pairs]
        src = F.Distinct(data_rng or rng, 2 * self.T * self.K * n + 8, -9.0, 9.0)
        self.vals = {c: [(src.block(self.T) + 1j * src.block(self.T)) * scale for _ in range(self.K)] for c in self.cfgs}
        self.files = {}

    def fname(self, c):
        return '%s.%d.h5' % (self.stem, c)

    def write(self, d, distractors=True):
        for c in self.cfgs:
            F.write_hadrons_file(os.path.join(d, self.fname(c)), 'meson', [(self.attrs[k], self.vals[c][k]) for k in range(self.K)])
            self.files[c] = self.fname(c)
        if distractors:
            # a different stem sharing the prefix of ours, and an unrelated file
            F.write_hadrons_file(os.path.join(d, '%s2.%d.h5' % (self.stem, self.cfgs[0])), 'meson', [(self.attrs[0], np.zeros(self.T))])
            with open(os.path.join(d, 'notes.txt'), 'w') as f:
                f.write('x')

    def expect(self, k, part='real', idl=None, drop=None):
        """-> list over time slices of table(s): part real/imag -> {ens: {cfg: x}}; complex -> (real table, imag table)."""
        cl = self.cfgs if idl is None else [c for c in self.cfgs if c in set(idl)]
        if idl is not None and set(idl) - set(self.cfgs):
            return None
        if drop:
            cl = [c for c in cl if c not in drop]
        if len(cl) < 5:
            return None
        if idl is None and len(set(np.diff(cl))) != 1:
            return None   # unevenly spaced configurations need an idl
        out = []
        for t in range(self.T):
            re_ = {self.ens: {c: float(self.vals[c][k][t].real) for c in cl}}
            im_ = {self.ens: {c: float(self.vals[c][k][t].imag) for c in cl}}
            out.append(re_ if part == 'real' else (im_ if part == 'imag' else (re_, im_)))
        return out

    def digest(self):
        return digest(self.fmt, self.stem, self.T, self.K, self.cfgs, [self.vals[self.cfgs[0]][k] for k in range(self.K)])


def judge_hadrons(S, k, part):
    def jf(c, tag, res, exp, w):
        c.ev()
        if type(res).__name__ != 'Corr' or res.T != len(exp):
            c.violation(tag + ':time-extent', {'got': getattr(res, 'T', repr(type(res))), 'exp': len(exp), 'what': w})
            return False
        ok = True
        idl = w.get('_idl')
        for t in range(res.T):
            o = res.content[t][0]
            also = {}
            for k2 in range(S.K):
                if k2 != k:
                    e2 = S.expect(k2, 'real' if part == 'complex' else part, idl=idl)
                    if e2:
                        also['entry-%d' % k2] = e2[t]
            ww = {a: b for a, b in dict(w, t=t).items() if a != '_idl'}
            if part == 'complex':
                ok &= compare_table(c, tag, o.real, exp[t][0], dict(ww, part='real'), also=dict(also, imag=exp[t][1]))
                ok &= compare_table(c, tag, o.imag, exp[t][1], dict(ww, part='imag'), also={'real': exp[t][0]})
            else:
                oth = S.expect(k, 'imag' if part == 'real' else 'real', idl=idl)
                if oth:
                    also['other-part'] = oth[t]
                for u in range(res.T):
                    if u != t:
                        also['time-slice-%d' % u] = exp[u]
                ok &= compare_table(c, tag, o, exp[t], ww, also=also)
        c.ev()
        want = ', '.join('%s: %s' % (a, b) for a, b in S.attrs[k].items())
        if sorted(str(res.tag).split(', ')) != sorted(want.split(', ')):
            c.violation(tag + ':tag', {'got': res.tag, 'exp': want})
        return ok
    return jf


def case_hadrons(ctx, rng):
    S = HadronsSet(rng, ctx.tier)
    fmt = 'hadrons'
    hd = PE.input.hadrons
    with tempfile.TemporaryDirectory(prefix='vmon_C17_', dir=TMPROOT) as d:
        S.write(d)
        ctx.count('file_sets')
        ctx.cell('set', fmt, S.kind)
        returned = 0
        base_what = {'stem': S.stem, 'T': S.T, 'K': S.K, 'cfgs': S.cfgs[:4] + ['...', S.cfgs[-1]], 'kind': S.kind}
        even = len(set(np.diff(S.cfgs))) == 1

        def go(sel, k, call, part='real', idl=None, kk=3, must_raise=False):
            nonlocal returned
            exp = None if must_raise else S.expect(k, part, idl=idl)
            returned += run_sel(ctx, rng, fmt, sel, call, exp, judge_hadrons(S, k, part),
                                dict(base_what, entry=k, part=part, idl=None if idl is None else list(idl)[:8], _idl=idl), k=kk, must_raise=must_raise or exp is None)

        def the_idl(x):
            return x if isinstance(x, range) else list(x)

        k = int(rng.integers(0, S.K))
        base_idl = None if even else list(S.cfgs)
        go('meson_label', k, lambda: hd.read_meson_hd5(d, S.stem, S.ens, meson='meson_%d' % k, idl=the_idl(base_idl) if base_idl else None), idl=base_idl)
        g = (S.attrs[k]['gamma_snk'], S.attrs[k]['gamma_src'])
        go('gammas', k, lambda: hd.read_meson_hd5(d, S.stem, S.ens, gammas=g, idl=the_idl(base_idl) if base_idl else None), idl=base_idl)
        k2 = int(rng.integers(0, S.K))
        for part in pick_bad(rng, ['real', 'imag', 'complex']):
            go('read_hd5:' + part, k2, lambda part=part: hd.read_hd5(os.path.join(d, S.stem), S.ens, 'meson', attrs=dict(S.attrs[k2]) if rng.random() < 0.5 else k2,
                                                                     idl=the_idl(base_idl) if base_idl else None, part=part), part=part, idl=base_idl)
        # idl selections
        c = S.cfgs
        if even and len(c) >= 7:
            stp = c[1] - c[0]
            i = int(rng.integers(0, len(c) - 5))
            j = int(rng.integers(i + 4, len(c)))
            sel = range(c[i], c[j] + 1, stp)
            go('idl-range', k, lambda: hd.read_meson_hd5(d, S.stem, S.ens, meson='meson_%d' % k, idl=sel), idl=list(sel))
            if len(c) >= 10:
                sel2 = range(c[0], c[-1] + 1, 2 * stp)
                go('idl-stride', k, lambda: hd.read_meson_hd5(d, S.stem, S.ens, meson='meson_%d' % k, idl=sel2), idl=list(sel2))
        if len(c) >= 7:
            pick = sorted(int(x) for x in rng.choice(c, size=int(rng.integers(5, len(c))), replace=False))
            go('idl-list', k, lambda: hd.read_meson_hd5(d, S.stem, S.ens, meson='meson_%d' % k, idl=list(pick)), idl=pick)
        for bad in pick_bad(rng, ['idl-missing-configuration', 'uneven-without-idl', 'attrs-ambiguous', 'attrs-absent', 'gammas-length', 'stem-absent', 'attrs-invalid-type', 'entry-missing-in-a-later-file']):
            if bad == 'idl-missing-configuration':
                go(bad, k, lambda: hd.read_meson_hd5(d, S.stem, S.ens, idl=list(c) + [c[-1] + 1]), kk=2, must_raise=True)
            elif bad == 'uneven-without-idl' and not even:
                go(bad, k, lambda: hd.read_meson_hd5(d, S.stem, S.ens), kk=2, must_raise=True)
            elif bad == 'attrs-ambiguous':
                go(bad, k, lambda: hd.read_hd5(os.path.join(d, S.stem), S.ens, 'meson', attrs={'quark': 'l'}, idl=the_idl(base_idl) if base_idl else None), kk=2, must_raise=True)
            elif bad == 'attrs-absent':
                go(bad, k, lambda: hd.read_hd5(os.path.join(d, S.stem), S.ens, 'meson', attrs={'gamma_snk': 'SigmaXY'}, idl=the_idl(base_idl) if base_idl else None), kk=2, must_raise=True)
            elif bad == 'gammas-length':
                go(bad, k, lambda: hd.read_meson_hd5(d, S.stem, S.ens, gammas=('Gamma5',)), kk=2, must_raise=True)
            elif bad == 'stem-absent':
                go(bad, k, lambda: hd.read_meson_hd5(d, 'nothing_here', S.ens), kk=2, must_raise=True)
            elif bad == 'attrs-invalid-type':
                go(bad, k, lambda: hd.read_hd5(os.path.join(d, S.stem), S.ens, 'meson', attrs='meson_0', idl=the_idl(base_idl) if base_idl else None), kk=2, must_raise=True)
            elif bad == 'entry-missing-in-a-later-file':
                with tempfile.TemporaryDirectory(prefix='vmon_C17_', dir=TMPROOT) as d2:
                    S.write(d2, distractors=False)
                    cm_ = S.cfgs[len(S.cfgs) // 2]
                    F.write_hadrons_file(os.path.join(d2, S.fname(cm_)), 'meson', [(S.attrs[j], S.vals[cm_][j]) for j in range(S.K - 1)])
                    go(bad, S.K - 1, lambda: hd.read_hd5(os.path.join(d2, S.stem), S.ens, 'meson', attrs=S.K - 1, idl=the_idl(base_idl) if base_idl else None), kk=2, must_raise=True)
        if returned and digits_differ(S.cfgs):
            ctx.nontrivial.add(S.digest())
        ctx.sample({'format': fmt, 'stem': S.stem, 'T': S.T, 'entries': S.attrs, 'configurations': S.cfgs[:3] + ['...', S.cfgs[-1]], 'reads_returned': returned})


# ------------------------------------------------------------------------------------------------
# sfqcd gradient flow (gfms.dat): Qtop and gradient-flow coupling
# ------------------------------------------------------------------------------------------------
GF_NORM = {4: 0.012341170468270, 6: 0.010162691462430, 8: 0.009031614807931}


class GfmsSet:
    fmt = 'gfms'

    def __init__(self, rng, tier, small=False, coupling=False, data_rng=None, scale=1.0):
        self.zthfl = 2
        self.ncs = int(rng.integers(2, 6)) if not small else 2
        if coupling:
            self.L = int(rng.choice([4, 6, 8])) if not small else 4
            self.tmax = self.L + 1
            k = int(rng.integers(1, self.ncs + 1))
            self.cmax = 0.3 * self.ncs / k
        else:
            self.L = int(rng.choice([2, 4, 6]))
            self.tmax = int(rng.integers(3, 7)) if not small else 3
            self.cmax = float(rng.choice([0.3, 0.4, 0.5]))
        self.tol = 1e-7
        self.reps = gen_reps(rng, 2 if small else None)
        self.prefix = str(rng.choice(['sfqcd', 'X_id2_', 'N200']))
        self.traj = {}
        for r in self.reps:
            self.traj[r], _ = gen_trajectories(rng, n_cfg(rng, tier, small))
        m = (self.ncs + 1) * 16 * self.tmax
        src = F.Distinct(data_rng or rng, m * sum(len(t) for t in self.traj.values()) + 8, -3.0, 3.0)
        self.rec = {r: [(nc, src.block(self.ncs + 1, 16, self.tmax) * scale) for nc in self.traj[r]] for r in self.reps}
        self.files, self.bounds, self.bytes = {}, {}, {}

    def fname(self, r):
        return '%sr%d.gfms.dat' % (self.prefix, r)

    def name(self, r):
        return '%s|r%d' % (self.prefix, r)

    def write(self, d, distractors=True):
        for r in self.reps:
            data, b = F.encode_gfms(self.zthfl, self.ncs, self.tmax, (self.L,) * 3, self.tol, self.cmax, self.rec[r])
            self.files[r], self.bounds[r], self.bytes[r] = self.fname(r), b, data
            with open(os.path.join(d, self.fname(r)), 'wb') as f:
                f.write(data)
        if distractors:
            r0 = self.reps[0]
            with open(os.path.join(d, 'other' + self.fname(r0)[len(self.prefix):]), 'wb') as f:
                f.write(self.bytes[r0][:40] + b'\0' * 5)
            with open(os.path.join(d, '%sr%d.ms.dat' % (self.prefix, r0)), 'wb') as f:
                f.write(b'\1' * 31)

    def c_index(self, c):
        grid = [j * self.cmax / self.ncs for j in range(self.ncs + 1)]
        return int(np.argmin([abs(g - c) for g in grid]))

    def c_for_index(self, j, frac=0.0):
        return min(self.cmax, (j + frac) * self.cmax / self.ncs)

    def expect(self, c, zeuthen=False, obspos=0, sum_t=True, reps=None, names=None, r_start=None, r_stop=None, integer=False, nrec=None):
        reps = self.reps if reps is None else reps
        j = self.c_index(c)
        i = obspos + (0 if zeuthen else 8)
        out = {}
        for k, r in enumerate(reps):
            recs = self.rec[r] if nrec is None or nrec.get(r) is None else self.rec[r][:nrec[r]]
            if len(recs) < 2:
                return None
            cfgs = cfg_map([x[0] for x in recs], 'flow')
            sel = select(cfgs, None if r_start is None else r_start[k], None if r_stop is None else r_stop[k], 1)
            if sel is None or len(sel) < 5:
                return None
            nm = self.name(r) if names is None else names[k]
            q = {cc: (math.fsum(x[1][j][i]) if sum_t else float(x[1][j][i][self.tmax // 2])) for cc, x in zip(cfgs, recs) if cc in sel}
            if integer:
                q = {cc: float(round(v)) for cc, v in q.items()}
            out[nm] = q
        return out

    def expect_coupling(self, **kw):
        p = self.expect(0.3, zeuthen=True, obspos=6, sum_t=False, **kw)
        q = self.expect(0.3, zeuthen=True, obspos=7, sum_t=False, **kw)
        if p is None or q is None:
            return None
        t = (0.3 * self.L) ** 2 / 8
        return {n: {c: t * t * (5 / 3 * p[n][c] - 1 / 12 * q[n][c]) / GF_NORM[self.L] for c in p[n]} for n in p}

    def digest(self):
        return digest(self.fmt, self.ncs, self.tmax, self.L, self.cmax, self.reps, [self.traj[r] for r in self.reps],
                      [self.bytes.get(r, b'')[:256] for r in self.reps])


def case_gfms(ctx, rng):
    coupling = rng.random() < 0.35 or FORCE['all_bad']
    S = GfmsSet(rng, ctx.tier, coupling=coupling)
    fmt = 'gfms'
    oq = PE.input.openQCD
    with tempfile.TemporaryDirectory(prefix='vmon_C17_', dir=TMPROOT) as d:
        S.write(d)
        ctx.count('file_sets')
        ctx.cell('set', fmt, 'reps%d' % len(S.reps))
        nrep = len(S.reps)
        returned = 0
        cm = {r: cfg_map(S.traj[r], 'flow') for r in S.reps}
        base_what = {'reps': S.reps, 'ncs': S.ncs, 'cmax': S.cmax, 'L': S.L, 'tmax': S.tmax, 'traj_first': {r: S.traj[r][:2] for r in S.reps}}
        jf = judge_qtop(S)
        TAG = {'T': S.tmax - 1, 'L': S.L}

        def go(sel, c, kw, ekw, k=3, must_raise=False, reader=None, post=None, alt_ekw=None):
            nonlocal returned
            exp = None
            alt = None
            zf = bool(kw.get('Zeuthen_flow', False))
            if not must_raise:
                t = S.expect(c, zeuthen=zf, **ekw)
                if t is not None:
                    also = None
                    if not (ekw.get('integer') or post):
                        also = {'c-index-%d' % j: S.expect(S.c_for_index(j), zeuthen=zf, **ekw) for j in range(S.ncs + 1) if j != S.c_index(c)}
                        also['other-flow'] = S.expect(c, zeuthen=not zf, **ekw)
                    exp = {'table': post(t) if post else t, 'also': also, 'tag': TAG if reader is None else None}
                    if alt_ekw is not None:
                        alt = {'table': S.expect(c, zeuthen=zf, **alt_ekw), 'tag': None}
            fn = reader or oq.read_qtop
            returned += run_sel(ctx, rng, fmt, sel, lambda: fn(d, S.prefix, c, **dict({'version': 'sfqcd'}, **fresh(kw))), exp, jf,
                                dict(base_what, c=c, c_index=S.c_index(c), kw=dict(kw)), k=k, alt=alt, alt_tag='flow-obs:names-resorted-not-data')

        j = int(rng.integers(0, S.ncs + 1))
        frac = float(rng.choice([0.0, 0.0, 0.3, -0.3])) if 0 < j < S.ncs else 0.0
        c = S.c_for_index(j, frac)
        go('wilson', c, {}, {})
        go('zeuthen', c, {'Zeuthen_flow': True, 'L': S.L}, {})
        jg = int(rng.integers(1, S.ncs + 1))
        cg = jg * S.cmax / S.ncs
        if jg < S.ncs:
            go('c-one-ulp-above-grid', float(np.nextafter(cg, 10.0)), {}, {}, k=2)
        go('c-one-ulp-below-grid', float(np.nextafter(cg, 0.0)), {}, {}, k=2)
        zf = bool(rng.integers(0, 2))
        zkw = {'Zeuthen_flow': True} if zf else {}
        win = {r: pick_window(rng, cm[r]) for r in S.reps}
        if all(w is not None and w[0] != 0 for w in win.values()):
            kw = {'r_start': [win[r][0] for r in S.reps], 'r_stop': [win[r][1] for r in S.reps]}
            if rng.random() < 0.3:
                del kw['r_start']
            go('r_start_stop', c, dict(zkw, **kw), dict(kw))
        qs = S.expect(c, zeuthen=zf)
        if all(abs(abs(v - math.floor(v)) - 0.5) > 1e-9 for t in qs.values() for v in t.values()):
            go('integer_charge', c, dict(zkw, integer_charge=True), {'integer': True}, k=2)
            tgt = int(rng.choice([0, 1, -1]))
            go('qtop_sector', c, dict(zkw, target=tgt), {'integer': True}, k=2, reader=oq.read_qtop_sector,
               post=lambda e: {n: {cc: (1.0 if v == tgt else 0.0) for cc, v in t.items()} for n, t in e.items()})
        sub = list(S.reps) if nrep == 1 or rng.random() < 0.4 else sorted(rng.choice(S.reps, size=nrep - 1, replace=False).tolist())
        go('files', c, dict(zkw, files=[S.fname(r) for r in sub]), {'reps': sub})
        nn = ['lbl|r%d' % r for r in S.reps]
        go('names', c, dict(zkw, names=nn), {'names': nn})
        if coupling:
            exp = S.expect_coupling()
            returned += run_sel(ctx, rng, fmt, 'gf_coupling', lambda: oq.read_gf_coupling(d, S.prefix, 0.3), exp,
                                lambda cx, tag, res, e, w: compare_table(cx, tag, res, e, w, rtol=RTOL_DERIVED), dict(base_what), k=2)
            run_sel(ctx, rng, fmt, 'gf_coupling-c', lambda: oq.read_gf_coupling(d, S.prefix, 0.2), None, None, dict(base_what), k=2)
        for bad in pick_bad(rng, ['c-beyond-cmax', 'L-contradicts-header', 'r_stop-not-in-file', 'postfix-wrong']):
            if bad == 'c-beyond-cmax':
                go(bad, S.cmax * 1.3, {}, {}, k=2, must_raise=True)
            elif bad == 'L-contradicts-header':
                go(bad, c, {'L': S.L + 2}, {}, k=2, must_raise=True)
            elif bad == 'r_stop-not-in-file':
                go(bad, c, {'r_stop': [cm[r][-1] + 2 for r in S.reps]}, {}, k=2, must_raise=True)
            else:
                go(bad, c, {'postfix': 'gfmx'}, {}, k=2, must_raise=True)
        if nrep >= 2:
            perm = permuted(rng, S.reps)
            srt = natural(perm)
            go('files-permuted', c, dict(zkw, files=[S.fname(r) for r in perm]), {'reps': perm},
               alt_ekw={'reps': perm, 'names': [S.name(r) for r in srt]})
            nn = ['lbl|r%d' % r for r in perm]
            go('files+names-permuted', c, dict(zkw, files=[S.fname(r) for r in perm], names=nn), {'reps': perm, 'names': nn},
               alt_ekw={'reps': perm, 'names': ['lbl|r%d' % r for r in srt]})
            observe_names_permuted(ctx, fmt, lambda: oq.read_qtop(d, S.prefix, c, version='sfqcd', names=list(nn)),
                                   S.expect(c, names=nn), S.expect(c, names=['lbl|r%d' % r for r in srt]))
        go('r_start-length', c, {'r_start': [1] * (nrep + 1)}, {}, k=2, must_raise=True)
        reject_rows_binary(ctx, rng, fmt, S, 'gfms', lambda dd: oq.read_qtop(dd, S.prefix, c, version='sfqcd', Zeuthen_flow=True), jf)
        if coupling:
            run_sel(ctx, rng, fmt, 'gf_coupling-wilson-flow', lambda: oq.read_gf_coupling(d, S.prefix, 0.3, Zeuthen_flow=False), None, None, dict(base_what), k=2)
        elif S.tmax != S.L + 1 and S.cmax >= 0.3:
            run_sel(ctx, rng, fmt, 'gf_coupling-T-not-L', lambda: oq.read_gf_coupling(d, S.prefix, 0.3), None, None, dict(base_what), k=2)
        # a file that holds the Wilson flow only (zthfl != 2): eight observables per flow time.  The Wilson read has no data to take
        # (the reader looks at positions 8..15) and must not invent any; asking for the first block returns the stored numbers.
        with tempfile.TemporaryDirectory(prefix='vmon_C17_', dir=TMPROOT) as d4:
            for r in S.reps:
                with open(os.path.join(d4, S.fname(r)), 'wb') as f:
                    f.write(F.encode_gfms(1, S.ncs, S.tmax, (S.L,) * 3, S.tol, S.cmax, [(nc, A[:, :8]) for nc, A in S.rec[r]])[0])
            run_sel(ctx, rng, fmt, 'single-flow-file-first-block', lambda: oq.read_qtop(d4, S.prefix, c, version='sfqcd', Zeuthen_flow=True),
                    {'table': S.expect(c, zeuthen=True), 'tag': TAG, 'also': None}, jf, dict(base_what, zthfl=1), k=2)
            LIST.mode = 'sorted'
            ctx.count('judged:%s:single-flow-file-second-block' % fmt)
            try:
                r_ = oq.read_qtop(d4, S.prefix, c, version='sfqcd')
                ctx.ev()
                ctx.violation(fmt + ':single-flow-file-second-block:accepted', {'N': r_.N})
            except Exception as e:
                if ctx.classify_exception(e)[0] != 'library':
                    raise
                ctx.count('reads_raised_as_required')
        if returned and (digits_differ(S.reps) or any(digits_differ(x) for x in S.traj.values())):
            ctx.nontrivial.add(S.digest())
        ctx.sample({'format': fmt, 'ncs,tmax,L,cmax': [S.ncs, S.tmax, S.L, S.cmax], 'c': c, 'replicas': S.reps, 'coupling': coupling,
                    'trajectories': {r: [S.traj[r][0], S.traj[r][1], '...', S.traj[r][-1]] for r in S.reps}, 'reads_returned': returned})


# ------------------------------------------------------------------------------------------------
# hardening pass (vmon/HARDENING_CHECKLIST.md): histories, representations, name traps, boundaries, scale
# ------------------------------------------------------------------------------------------------
HARD_FMTS = ['rwms-1.4', 'rwms-1.6', 'rwms-2.0', 'ms.dat-energy', 'ms.dat-qtop', 'gfms', 'ms5_xsf', 'sfcf-o', 'sfcf-c', 'sfcf-a', 'hadrons']


def make_set(fmt, rng, tier, **kw):
    if fmt.startswith('rwms'):
        return RwmsSet(rng, tier, version=fmt[5:], **kw)
    if fmt.startswith('ms.dat'):
        return MsdatSet(rng, tier, **kw)
    if fmt == 'gfms':
        return GfmsSet(rng, tier, **kw)
    if fmt == 'ms5_xsf':
        return Ms5Set(rng, tier, **kw)
    if fmt.startswith('sfcf'):
        return SfcfSet(rng, tier, fmt[-1], **kw)
    return HadronsSet(rng, tier, **kw)


class IO:
    """Default reader call + expectation + judgement of a file set, with reader parameters that twins can share."""

    def __init__(self, fmt, S, rng=None, params=None):
        self.fmt, self.S = fmt, S
        if params is None:
            params = {}
            if fmt == 'ms.dat-energy':
                params['xmin'] = 0
            elif fmt == 'ms.dat-qtop':
                params['c'] = S.c_for_index(int(rng.integers(0, S.nn + 1)))
            elif fmt == 'gfms':
                params['c'] = S.c_for_index(int(rng.integers(0, S.ncs + 1)))
            elif fmt == 'ms5_xsf':
                params['corr'] = str(rng.choice(F.MS5_BI))
            elif fmt.startswith('sfcf'):
                nm = str(rng.choice(S.names))
                params['name'] = nm
                params['pos'] = 0 if fmt == 'sfcf-a' else int(rng.integers(len(S.order[nm])))
            elif fmt == 'hadrons':
                params['k'] = int(rng.integers(0, S.K))
        self.params = params
        if fmt.startswith('sfcf'):
            self.key = S.order[params['name']][params['pos']]
        self.family = 'openqcd' if (fmt.startswith('rwms') or fmt.startswith('ms.dat') or fmt == 'gfms') else fmt.split('-')[0]
        self.rule = 'rwms' if fmt.startswith('rwms') else ('energy' if fmt == 'ms.dat-energy' else 'flow')

    def read(self, d, prefix=None, **kw):
        S, fmt, oq = self.S, self.fmt, PE.input.openQCD
        pre = S.prefix if prefix is None and hasattr(S, 'prefix') else prefix
        if fmt.startswith('rwms'):
            kw.setdefault('postfix', S.postfix)
            return oq.read_rwms(d, pre, version=S.version, **kw)
        if fmt == 'ms.dat-energy':
            return oq._extract_flowed_energy_density(d, pre, 1, self.params['xmin'], S.L, **kw)
        if fmt == 'ms.dat-qtop':
            return oq.read_qtop(d, pre, self.params['c'], L=S.L, **kw)
        if fmt == 'gfms':
            return oq.read_qtop(d, pre, self.params['c'], version='sfqcd', Zeuthen_flow=True, **kw)
        if fmt == 'ms5_xsf':
            return oq.read_ms5_xsf(d, pre, S.qc, self.params['corr'], **kw)
        if fmt.startswith('sfcf'):
            nm, q, off, w, w2 = self.key
            return PE.input.sfcf.read_sfcf(d, pre, nm, quarks=q, corr_type=SFCF_TYPES[nm], noffset=off, wf=w, wf2=0 if w2 is None else w2,
                                           version=S.version, silent=True, **kw)
        kw.setdefault('idl', list(S.cfgs))
        return PE.input.hadrons.read_hd5(os.path.join(d, S.stem), S.ens, 'meson', attrs=self.params['k'], part='real', **kw)

    def expect(self, **ekw):
        S, fmt = self.S, self.fmt
        if fmt.startswith('rwms'):
            return S.expect(**ekw)
        if fmt == 'ms.dat-energy':
            return S.expect_energy(self.params['xmin'], **ekw)
        if fmt == 'ms.dat-qtop':
            t = S.expect_qtop(self.params['c'], **ekw)
            return None if t is None else {'table': t, 'tag': {'T': S.tmax - 1, 'L': S.L}}
        if fmt == 'gfms':
            t = S.expect(self.params['c'], zeuthen=True, **ekw)
            return None if t is None else {'table': t, 'tag': {'T': S.tmax - 1, 'L': S.L}}
        if fmt == 'ms5_xsf':
            return S.expect(self.params['corr'], **ekw)
        if fmt.startswith('sfcf'):
            return S.expect(self.key, **ekw)
        ekw.setdefault('idl', list(S.cfgs))
        return S.expect(self.params['k'], 'real', **ekw)

    def judge(self, ekw=None):
        S, fmt = self.S, self.fmt
        ekw = ekw or {}
        if fmt.startswith('rwms'):
            return judge_list
        if fmt == 'ms.dat-energy':
            return lambda c, tag, res, exp, w: judge_edict(c, tag, res, exp, S, w)
        if fmt in ('ms.dat-qtop', 'gfms'):
            return judge_qtop(S)
        if fmt == 'ms5_xsf':
            return judge_ms5(S)
        if fmt.startswith('sfcf'):
            inner = judge_sfcf(S, self.key, False)
            return lambda c, tag, res, exp, w: inner(c, tag, res, exp, dict(w, _ekw={a: b for a, b in ekw.items() if a in ('reps', 'names', 'ens', 'cfgs')}))
        inner = judge_hadrons(S, self.params['k'], 'real')
        return lambda c, tag, res, exp, w: inner(c, tag, res, exp, dict(w, _idl=ekw.get('idl', list(S.cfgs))))

    def obs(self, res):
        fmt = self.fmt
        if fmt.startswith('rwms') or fmt.startswith('sfcf'):
            return list(res)
        if fmt == 'ms.dat-energy':
            return [res[k] for k in sorted(res)]
        if fmt in ('ms.dat-qtop', 'gfms'):
            return [res]
        if fmt == 'ms5_xsf':
            return [x for p in ms5_parts(res) for x in (p.real, p.imag)]
        return [c[0] for c in res.content]

    def cfgs(self, r):
        """Configuration numbers of replica r as the reader reports them."""
        S = self.S
        if self.family == 'openqcd':
            return cfg_map(S.traj[r], self.rule)
        return list(S.cfgs[r])


def twins(fmt, rng, tier):
    """Two file sets that agree in everything a cheap key would look at (file and directory names, replicas, first / last
    configuration, lengths, spacing, shapes) and differ in the data (and, for sfcf, in the order of the blocks)."""
    s1, s2 = int(rng.integers(1, 2 ** 31)), int(rng.integers(1, 2 ** 31))
    A = make_set(fmt, np.random.default_rng(s1), tier)
    B = make_set(fmt, np.random.default_rng(s1), tier, data_rng=np.random.default_rng(s2))
    ioA = IO(fmt, A, rng)
    ioB = IO(fmt, B, params=ioA.params)
    return A, B, ioA, ioB


def obs_arrays(obs_list):
    out = []
    for o in obs_list:
        for n in o.names:
            out.append(o.deltas[n])
    return out


def lib_call(ctx, tag, what, fn):
    """Run a reader where a result is required; a library exception is recorded, (None, False) returned."""
    LIST.mode = 'sorted'
    try:
        res = fn()
    except Exception as e:
        lib_exception(ctx, e, tag, what)
        ctx.count('reads_judged')
        return None, False
    ctx.count('reads_judged')
    return res, True


def judged(ctx, tag, io, res, exp, what, other=None, other_tag=None, ekw=None):
    """Judge with the stable tag other_tag when the result is exactly the expectation `other` (a named cause)."""
    jf = io.judge(ekw)
    t = ctx.trial()
    jf(t, tag, res, exp, what)
    if not t.violations or other is None:
        ctx.absorb(t)
        return not t.violations
    t2 = ctx.trial()
    jf(t2, 'x', res, other, what)
    if not t2.violations:
        ctx.ev()
        ctx.violation(other_tag, {'first_difference': t.violations[0], 'what': what})
    else:
        ctx.absorb(t)
    return False


def case_history(ctx, rng, fmt):
    """Checklist 3 / 5 / 7: same-named files with different content read one after the other (both orders), the same
    directory rewritten, earlier results unchanged and not sharing memory, argument objects reused in consecutive calls."""
    A, B, ioA, ioB = twins(fmt, rng, ctx.tier)
    with tempfile.TemporaryDirectory(prefix='vmon_C17_', dir=TMPROOT) as root:
        dA, dB = os.path.join(root, 'one', 'meas'), os.path.join(root, 'two', 'meas')
        os.makedirs(dA)
        os.makedirs(dB)
        A.write(dA, distractors=False)
        B.write(dB, distractors=False)
        ctx.count('file_sets', 2)
        ctx.cell('hard', fmt, 'history')
        eA, eB = ioA.expect(), ioB.expect()
        if eA is None or eB is None:
            return
        order = [('A', ioA, dA, eA, eB), ('B', ioB, dB, eB, eA)]
        if rng.random() < 0.5:
            order = order[::-1]
        seq = [order[0], order[1], order[0], order[1]]
        first = None
        results = []
        stale = '%s:stale-data-of-same-named-file' % fmt
        for step, (lab, io, d, e, eo) in enumerate(seq):
            what = {'history': [x[0] for x in seq], 'step': step, 'dir': d[len(root):]}
            res, ok = lib_call(ctx, fmt + ':history', what, lambda: io.read(d))
            if not ok:
                continue
            judged(ctx, fmt + ':history', io, res, e, what, other=eo, other_tag=stale)
            results.append((lab, io.obs(res)))
            if first is None:
                first = (lab, res, any_digest(io.obs(res)))
        # 5: results handed out earlier are unchanged and share no memory with later ones
        if first is not None:
            ctx.ev()
            io0 = ioA if first[0] == 'A' else ioB
            if any_digest(io0.obs(first[1])) != first[2]:
                ctx.violation('%s:earlier-result-changed-by-later-read' % fmt, {'history': [x[0] for x in seq]})
            for i in range(len(results)):
                for j in range(i + 1, len(results)):
                    ctx.ev()
                    if any(np.shares_memory(a, b) for a in obs_arrays(results[i][1]) for b in obs_arrays(results[j][1])):
                        ctx.violation('%s:results-of-two-reads-share-memory' % fmt, {'reads': [results[i][0], results[j][0]]})
        # 3: the same directory rewritten with other content (same file names)
        import shutil
        shutil.rmtree(dA)
        os.makedirs(dA)
        B.write(dA, distractors=False)
        what = {'history': 'directory rewritten', 'dir': dA[len(root):]}
        res, ok = lib_call(ctx, fmt + ':rewritten', what, lambda: ioB.read(dA))
        if ok:
            judged(ctx, fmt + ':rewritten', ioB, res, eB, what, other=eA, other_tag=stale)
        # 7: the same argument objects handed to two consecutive calls (a reader may sort them in place; the second call
        #    must still return the right thing), then a call without them (nothing may stick)
        S = B
        if ioB.family == 'openqcd' or fmt == 'ms5_xsf':
            reps = list(S.reps)[::-1] if len(S.reps) > 1 else list(S.reps)
            files = [S.fname(r) for r in reps]
            names = ['lbl|r%d' % r for r in reps]
            ekw = {'reps': reps, 'names': names}
            kw = {'files': files, 'names': names}
        elif fmt in ('sfcf-o', 'sfcf-c'):
            fl = [[S.cfile(r, c) for c in S.cfgs[r]][::-1] for r in S.reps]
            names = ['lbl|r%d' % r for r in S.reps]
            kw = {'files': fl, 'names': names}
            ekw = {'names': names}
        elif fmt == 'sfcf-a':
            names = ['lbl|r%d' % r for r in S.reps]
            kw = {'files': ['%s.%s' % (S.rdir(r), ioB.key[0]) for r in S.reps][::-1], 'names': names}
            ekw = {'names': names}
        else:
            kw = {'idl': list(S.cfgs)}
            ekw = {}
        e2 = ioB.expect(**ekw)
        for rep_ in (1, 2):
            what = {'history': 'argument objects reused', 'call': rep_}
            res, ok = lib_call(ctx, fmt + ':args-reused', what, lambda: ioB.read(dA, **kw))
            if ok and e2 is not None:
                judged(ctx, fmt + ':args-reused', ioB, res, e2, what, ekw=ekw)
        res, ok = lib_call(ctx, fmt + ':after-explicit-args', {}, lambda: ioB.read(dA))
        if ok:
            judged(ctx, fmt + ':after-explicit-args', ioB, res, eB, {'history': 'default call after a call with files / names'})
        ctx.nontrivial.add(digest('history', A.digest(), B.digest()))
        ctx.sample({'format': fmt, 'class': 'history', 'sequence': [x[0] for x in seq], 'twins_share': 'file names, replicas, configurations, shapes'})


def equal_summary_pair(rng, cfgs):
    """Checklist 10: two selections per replica with the same length, first and last configuration and different interior
    members, to be read one after the other.  Empty when a chain is too short."""
    if any(len(c) < 7 for c in cfgs.values()):
        return []
    a, b = {}, {}
    for r, c in cfgs.items():
        inner = list(c[1:-1])
        i, j = (int(x) for x in rng.choice(len(inner), size=2, replace=False))
        a[r] = [c[0]] + [x for k_, x in enumerate(inner) if k_ != i] + [c[-1]]
        b[r] = [c[0]] + [x for k_, x in enumerate(inner) if k_ != j] + [c[-1]]
    return [a, b]


def soft(ctx, fmt, sel, io, call, exp, what, ekw=None):
    """An input representation the documentation does not list: an exception is recorded as telemetry, a returned
    result is judged exactly like any other."""
    LIST.mode = 'sorted'
    ctx.cell('hard', fmt, sel)
    try:
        res = call()
    except Exception as e:
        if ctx.classify_exception(e)[0] != 'library':
            raise
        ctx.count('undocumented-representation-raises:%s:%s' % (fmt, sel))
        return
    ctx.count('reads_judged')
    if exp is None:
        ctx.ev()
        ctx.violation('%s:%s:accepted' % (fmt, sel), what)
        return
    judged(ctx, '%s:%s' % (fmt, sel), io, res, exp, what, ekw=ekw)


def hard(ctx, rng, fmt, sel, io, call, exp, what, ekw=None, k=2):
    """A documented call: result required (exp) or exception required (exp None)."""
    jf = io.judge(ekw)
    return run_sel(ctx, rng, fmt, sel, call, exp, jf, what, k=k)


def case_hard(ctx, rng, fmt):
    """Checklist 1 (representations), 8 (name traps), 9 (boundary selections), 4 (the same thing twice)."""
    s1 = int(rng.integers(1, 2 ** 31))
    FORCE.update(min_cfg=10 if rng.random() < 0.7 else 0)
    try:
        S = make_set(fmt, np.random.default_rng(s1), ctx.tier)
    finally:
        FORCE.update(min_cfg=0)
    io = IO(fmt, S, rng)
    with tempfile.TemporaryDirectory(prefix='vmon_C17_', dir=TMPROOT) as root:
        d = os.path.join(root, 'meas')
        os.makedirs(d)
        S.write(d, distractors=False)
        ctx.count('file_sets')
        full = io.expect()
        if full is None:
            return
        base_what = {'format': fmt, 'class': 'hardening'}
        # ---- 1: the same directory spelt differently
        hard(ctx, rng, fmt, 'path-trailing-slash', io, lambda: io.read(d + '/'), full, base_what)
        hard(ctx, rng, fmt, 'path-double-slash', io, lambda: io.read(os.path.join(root, '.', 'meas')), full, base_what)
        cwd = os.getcwd()
        try:
            os.chdir(root)
            hard(ctx, rng, fmt, 'path-relative', io, lambda: io.read('meas'), full, base_what)
            hard(ctx, rng, fmt, 'path-relative-dot', io, lambda: io.read('./meas'), full, base_what)
        finally:
            os.chdir(cwd)
        if fmt == 'hadrons':
            import pathlib
            soft(ctx, fmt, 'path-pathlib', io, lambda: PE.input.hadrons.read_hd5(pathlib.Path(d) / S.stem, S.ens, 'meson', attrs=io.params['k'], idl=list(S.cfgs)),
                 full, base_what)
        # ---- 8: a second, complete file set whose names share our prefix lives in the same directory
        if fmt != 'hadrons':
            # same structure as ours (same generator seed), other numbers
            FORCE.update(min_cfg=10 if min(len(x) for x in (getattr(S, 'traj', None) or S.cfgs).values()) >= 10 else 0)
            try:
                T = make_set(fmt, np.random.default_rng(s1), ctx.tier, data_rng=np.random.default_rng(int(rng.integers(1, 2 ** 31))))
            finally:
                FORCE.update(min_cfg=0)
            T.prefix = S.prefix + 'B'
            try:
                T.write(d, distractors=False)
                trap_ok = True
            except Exception:
                trap_ok = False   # e.g. shapes of the two sets incompatible with the writer: no trap
            if trap_ok:
                sep = '_' if fmt.startswith('sfcf') else 'r'
                hard(ctx, rng, fmt, 'prefix-sharing-neighbour', io, lambda: io.read(d, prefix=S.prefix + sep), full,
                     dict(base_what, prefix=S.prefix + sep, neighbour=T.prefix), k=2)
                # remove the neighbour again
                import shutil
                for n in os.listdir(d):
                    if n.startswith(T.prefix):
                        p = os.path.join(d, n)
                        shutil.rmtree(p) if os.path.isdir(p) else os.remove(p)
        if io.family == 'openqcd':
            r0 = S.reps[0]
            # a postfix that merely ends like ours
            junk = os.path.join(d, S.fname(r0).replace('.' + S.fname(r0).split('.', 1)[1], '.x' + S.fname(r0).split('.', 1)[1]))
            with open(junk, 'wb') as f:
                f.write(b'\2' * 40)
            hard(ctx, rng, fmt, 'postfix-lookalike', io, lambda: io.read(d), full, dict(base_what, lookalike=os.path.basename(junk)))
            os.remove(junk)
            if fmt.startswith('rwms'):
                hard(ctx, rng, fmt, 'postfix-omitted', io, lambda: PE.input.openQCD.read_rwms(d, S.prefix, version=S.version), full, base_what)
        # ---- 1: representations of the selections
        nrep = len(S.reps) if hasattr(S, 'reps') else 1
        if io.family == 'openqcd':
            cm = {r: io.cfgs(r) for r in S.reps}
            win = {r: pick_window(rng, cm[r]) for r in S.reps}
            if all(w is not None and w[0] != 0 for w in win.values()):
                rs, re_ = [win[r][0] for r in S.reps], [win[r][1] for r in S.reps]
                e = io.expect(r_start=rs, r_stop=re_)
                for lab, conv in (('tuple', tuple), ('ndarray', np.array), ('numpy-int', lambda x: [np.int64(v) for v in x]), ('int32-array', lambda x: np.array(x, dtype=np.int32))):
                    soft(ctx, fmt, 'r_start-as-' + lab, io, lambda conv=conv: io.read(d, r_start=conv(rs), r_stop=conv(re_)), e, dict(base_what, r_start=rs, r_stop=re_))
            nn = ['lbl|r%d' % r for r in S.reps]
            soft(ctx, fmt, 'names-as-tuple', io, lambda: io.read(d, names=tuple(nn)), io.expect(names=nn), base_what)
            soft(ctx, fmt, 'files-as-tuple', io, lambda: io.read(d, files=tuple(S.fname(r) for r in S.reps)), full, base_what)
            # ---- 9 / 4: boundaries and duplicates
            first, last = [cm[r][0] for r in S.reps], [cm[r][-1] for r in S.reps]
            if all(x != 0 for x in first):
                hard(ctx, rng, fmt, 'r_start-first-r_stop-last', io, lambda: io.read(d, r_start=list(first), r_stop=list(last)), full, base_what)
            if all(len(cm[r]) >= 7 and cm[r][1] != 0 for r in S.reps):
                rs1, re1 = [cm[r][1] for r in S.reps], [cm[r][-2] for r in S.reps]
                hard(ctx, rng, fmt, 'r_start-first-plus-1-r_stop-last-minus-1', io, lambda: io.read(d, r_start=list(rs1), r_stop=list(re1)), io.expect(r_start=rs1, r_stop=re1), base_what)
            hard(ctx, rng, fmt, 'r_stop-last-plus-1', io, lambda: io.read(d, r_stop=[x + 1 for x in last]), None, base_what)
            if all(x - 1 > 0 for x in first):
                hard(ctx, rng, fmt, 'r_start-first-minus-1', io, lambda: io.read(d, r_start=[x - 1 for x in first]), None, base_what)
            mid = [cm[r][len(cm[r]) // 2] for r in S.reps]
            if all(x != 0 for x in mid):
                hard(ctx, rng, fmt, 'r_start-equals-r_stop', io, lambda: io.read(d, r_start=list(mid), r_stop=list(mid)), None, base_what)
            if fmt.startswith('rwms') or fmt == 'ms.dat-energy':
                hard(ctx, rng, fmt, 'r_step-beyond-length', io, lambda: io.read(d, r_step=max(len(c) for c in cm.values()) + 3), None, base_what)
                lens = [len(cm[r]) for r in S.reps]
                if min(lens) >= 10:
                    hard(ctx, rng, fmt, 'r_step-largest-admissible', io, lambda: io.read(d, r_step=(min(lens) - 1) // 4), io.expect(r_step=(min(lens) - 1) // 4), base_what)
            hard(ctx, rng, fmt, 'file-listed-twice', io, lambda: io.read(d, files=[S.fname(S.reps[0])] * 2), None, base_what)
            if nrep >= 2:
                hard(ctx, rng, fmt, 'name-given-twice', io, lambda: io.read(d, names=['lbl|r1'] * nrep), None, base_what)
            # a file with a single record
            one = os.path.join(root, 'single')
            os.makedirs(one)
            r = S.reps[0]
            cut = S.bounds[r]['records'][0]['end']
            with open(os.path.join(one, S.fname(r)), 'wb') as f:
                f.write(S.bytes[r][:cut])
            hard(ctx, rng, fmt, 'single-record-file', io, lambda: io.read(one), None, base_what)
        elif fmt == 'ms5_xsf':
            lex = S.lex()
            idl = {r: S.cfgs[r][:max(5, len(S.cfgs[r]) - 1)] for r in S.reps}
            e = io.expect(idl=idl)
            for lab, conv in (('tuples', tuple), ('ndarrays', np.array), ('numpy-ints', lambda x: [np.int64(v) for v in x])):
                soft(ctx, fmt, 'idl-as-' + lab, io, lambda conv=conv: io.read(d, idl=[conv(idl[r]) for r in lex]), e, base_what, ekw={'idl': idl})
            nn = ['lbl|r%d' % r for r in S.reps]
            soft(ctx, fmt, 'names-as-tuple', io, lambda: io.read(d, names=tuple(nn)), io.expect(names=nn), base_what)
            hard(ctx, rng, fmt, 'idl-exactly-all', io, lambda: io.read(d, idl=[list(S.cfgs[r]) for r in lex]), full, base_what)
            if all(len(S.cfgs[r]) >= 6 for r in S.reps):
                i1 = {r: S.cfgs[r][1:] for r in S.reps}
                i2 = {r: S.cfgs[r][:-1] for r in S.reps}
                hard(ctx, rng, fmt, 'idl-all-but-the-first', io, lambda: io.read(d, idl=[list(i1[r]) for r in lex]), io.expect(idl=i1), base_what, ekw={'idl': i1})
                hard(ctx, rng, fmt, 'idl-all-but-the-last', io, lambda: io.read(d, idl=[list(i2[r]) for r in lex]), io.expect(idl=i2), base_what, ekw={'idl': i2})
            for pair in equal_summary_pair(rng, {r: S.cfgs[r] for r in S.reps}):
                hard(ctx, rng, fmt, 'idl-equal-summary-other-members', io, lambda pair=pair: io.read(d, idl=[list(pair[r]) for r in lex]),
                     io.expect(idl=pair), base_what, ekw={'idl': pair})
            hard(ctx, rng, fmt, 'idl-single-configuration', io, lambda: io.read(d, idl=[[S.cfgs[r][0]] for r in lex]), None, base_what)
            hard(ctx, rng, fmt, 'idl-first-and-last-only', io, lambda: io.read(d, idl=[[S.cfgs[r][0], S.cfgs[r][-1]] for r in lex]), None, base_what)
            hard(ctx, rng, fmt, 'file-listed-twice', io, lambda: io.read(d, files=[S.fname(S.reps[0])] * 2), None, base_what)
            if nrep >= 2:
                hard(ctx, rng, fmt, 'name-given-twice', io, lambda: io.read(d, names=['lbl|r1'] * nrep), None, base_what)
        elif fmt.startswith('sfcf'):
            nn = ['lbl|r%d' % r for r in S.reps]
            soft(ctx, fmt, 'names-as-tuple', io, lambda: io.read(d, names=tuple(nn)), io.expect(names=nn), base_what, ekw={'names': nn})
            if fmt != 'sfcf-a':
                soft(ctx, fmt, 'replica-as-tuple', io, lambda: io.read(d, replica=tuple(S.rdir(r) for r in S.reps)), full, base_what)
                allf = [[S.cfile(r, c) for c in S.cfgs[r]] for r in S.reps]
                hard(ctx, rng, fmt, 'files-exactly-all', io, lambda: io.read(d, files=[list(x) for x in allf]), full, base_what)
                for pair in equal_summary_pair(rng, {r: S.cfgs[r] for r in S.reps}):
                    hard(ctx, rng, fmt, 'files-equal-summary-other-members', io,
                         lambda pair=pair: io.read(d, files=[[S.cfile(r, c_) for c_ in pair[r]] for r in S.reps]), io.expect(cfgs=pair), base_what, ekw={'cfgs': pair})
                soft(ctx, fmt, 'files-as-tuples', io, lambda: io.read(d, files=[tuple(x) for x in allf]), full, base_what)
                hard(ctx, rng, fmt, 'files-single-configuration', io, lambda: io.read(d, files=[[x[0]] for x in allf]), None, base_what)
                hard(ctx, rng, fmt, 'configuration-listed-twice', io, lambda: io.read(d, files=[list(x) + [x[0]] for x in allf]), None, base_what)
                hard(ctx, rng, fmt, 'replica-listed-twice', io, lambda: io.read(d, replica=[S.rdir(S.reps[0])] * 2), None, base_what)
            else:
                fa = ['%s.%s' % (S.rdir(r), io.key[0]) for r in S.reps]
                hard(ctx, rng, fmt, 'file-listed-twice', io, lambda: io.read(d, files=[fa[0]] * len(fa) if len(fa) > 1 else fa * 2), None, base_what)
        else:
            c = S.cfgs
            pick = c[:max(5, len(c) - 1)]
            even = len(set(np.diff(pick))) == 1
            e = io.expect(idl=pick)
            for lab, conv in (('tuple', tuple), ('ndarray', np.array), ('numpy-ints', lambda x: [np.int64(v) for v in x])):
                soft(ctx, fmt, 'idl-as-' + lab, io, lambda conv=conv: io.read(d, idl=conv(pick)), e, base_what, ekw={'idl': pick})
            if even:
                rg = range(pick[0], pick[-1] + 1, pick[1] - pick[0])
                hard(ctx, rng, fmt, 'idl-as-range', io, lambda: io.read(d, idl=rg), e, base_what, ekw={'idl': pick})
            hard(ctx, rng, fmt, 'idl-exactly-all', io, lambda: io.read(d, idl=list(c)), full, base_what)
            if len(c) >= 6:
                hard(ctx, rng, fmt, 'idl-all-but-the-first', io, lambda: io.read(d, idl=list(c[1:])), io.expect(idl=list(c[1:])), base_what, ekw={'idl': list(c[1:])})
                hard(ctx, rng, fmt, 'idl-all-but-the-last', io, lambda: io.read(d, idl=list(c[:-1])), io.expect(idl=list(c[:-1])), base_what, ekw={'idl': list(c[:-1])})
            for pair in equal_summary_pair(rng, {0: c}):
                hard(ctx, rng, fmt, 'idl-equal-summary-other-members', io, lambda pair=pair: io.read(d, idl=list(pair[0])), io.expect(idl=pair[0]), base_what,
                     ekw={'idl': pair[0]})
            hard(ctx, rng, fmt, 'idl-single-configuration', io, lambda: io.read(d, idl=[c[0]]), None, base_what)
            hard(ctx, rng, fmt, 'idl-configuration-twice', io, lambda: io.read(d, idl=list(c) + [c[0]]), None, base_what)
            # idl selecting nothing: the reader treats an empty selection like "no selection" (falsy) - undocumented, observed
            LIST.mode = 'sorted'
            try:
                r_ = io.read(d, idl=[])
                ctx.count('hadrons:idl-empty:' + ('returns-all' if r_.content[0][0].N == len(c) else 'returns-other'))
            except Exception as ex:
                if ctx.classify_exception(ex)[0] != 'library':
                    raise
                ctx.count('hadrons:idl-empty:raises')
            # a single configuration file
            one = os.path.join(root, 'single')
            os.makedirs(one)
            import shutil
            shutil.copy(os.path.join(d, S.fname(c[0])), one)
            hard(ctx, rng, fmt, 'single-configuration-file', io, lambda: PE.input.hadrons.read_hd5(os.path.join(one, S.stem), S.ens, 'meson', attrs=io.params['k']), None, base_what)
        ctx.nontrivial.add(digest('hard', S.digest()))
        ctx.sample({'format': fmt, 'class': 'representations / name traps / boundaries / duplicates'})


SCALES = [1e-310, 1e-300, 1e-150, 1e-8, 1e8, 1e150, 1e300]      # 1e-310: every stored number is subnormal


def case_scale(ctx, rng, fmt):
    """Checklist 6: the same kind of file set with every stored number multiplied by c (1e-300 ... 1e300), exact and
    negative zeros among the numbers; reweighting factors with exponents close to overflow.  Tolerances stay relative."""
    if fmt.startswith('rwms'):
        sc = float(rng.choice([40.0, 150.0, 230.0]))      # |lnr| up to 1.5 * sc: exp(-lnr) up to ~1e150 per factor
    else:
        sc = float(rng.choice(SCALES))
    S = make_set(fmt, rng, ctx.tier, scale=sc)
    if fmt.startswith('rwms') and sc * 1.5 * max(S.nfct) > 700:
        S = make_set(fmt, rng, ctx.tier, scale=700.0 / (1.5 * max(S.nfct)) * 0.3)
    # exact zeros of both signs where the format stores the numbers themselves
    if fmt == 'ms5_xsf':
        for r in S.reps:
            S.rec[r][0][1][0, 0, 0] = 0.0
            S.rec[r][1][1][0, 0, 0] = -0.0
    elif fmt.startswith('sfcf'):
        for r in S.reps:
            c0, c1 = S.cfgs[r][0], S.cfgs[r][1]
            for k_ in S.vals[(r, c0)]:
                S.vals[(r, c0)][k_][0, 0] = 0.0
                S.vals[(r, c1)][k_][0, 0] = -0.0
    elif fmt == 'hadrons':
        S.vals[S.cfgs[0]][0][0] = 0.0
        S.vals[S.cfgs[1]][0][0] = complex(-0.0, -0.0)
    io = IO(fmt, S, rng)
    with tempfile.TemporaryDirectory(prefix='vmon_C17_', dir=TMPROOT) as d:
        S.write(d, distractors=False)
        ctx.count('file_sets')
        e = io.expect()
        if e is None:
            return
        n = hard(ctx, rng, fmt, 'scale', io, lambda: io.read(d), e, {'format': fmt, 'scale': sc}, k=2)
        ctx.cell('hard', fmt, 'scale', '%.0e' % sc)
        if n:
            ctx.nontrivial.add(digest('scale', sc, S.digest()))
        ctx.sample({'format': fmt, 'class': 'scale', 'factor': sc})


def case_options(ctx, rng, which):
    """Checklist 13: every documented option of a reader together with the hostile layout (three replicas with different
    digit counts, chains long enough for every window / stride, all rejection rows, all listings) in ONE case, instead
    of waiting for the product of independent draws."""
    FORCE.update(min_cfg=13, nrep=3, all_bad=True)
    try:
        ctx.count('options_cases')
        if which.startswith('rwms'):
            case_rwms(ctx, rng, version=which[5:])
        elif which == 'msdat_energy':
            case_msdat_energy(ctx, rng)
        elif which == 'msdat_qtop':
            case_msdat_qtop(ctx, rng)
        elif which == 'gfms':
            case_gfms(ctx, rng)
        elif which == 'ms5':
            case_ms5(ctx, rng)
        elif which.startswith('sfcf'):
            case_sfcf(ctx, rng, which[-1])
        else:
            FORCE.update(nrep=None)
            case_hadrons(ctx, rng)
    finally:
        FORCE.update(min_cfg=0, nrep=None, all_bad=False)


OPTION_KINDS = ['rwms-1.4', 'rwms-1.6', 'rwms-2.0', 'msdat_energy', 'msdat_qtop', 'gfms', 'ms5', 'sfcf_o', 'sfcf_c', 'sfcf_a', 'hadrons', 'hadrons', 'msdat_qtop']


def poison(S, fmt, io):
    """Checklist 14 (spectators): overwrite everything the chosen read does not depend on with NaN / inf / huge numbers."""
    bad = [float('nan'), float('inf'), -float('inf'), 1.7e308, -0.0]

    def fill(a, j):
        a[...] = bad[j % len(bad)]
    if fmt.startswith('rwms'):
        for r in S.reps:
            for j, rec in enumerate(S.rec[r]):
                for a in rec[1]:
                    fill(a, j)                       # sqn: never used
                if len(rec) > 3:
                    for a in rec[3] + rec[4]:
                        fill(a, j + 1)               # low words of the quadruple precision numbers
    elif fmt == 'ms.dat-energy':
        for r in S.reps:
            for j, rec in enumerate(S.rec[r]):
                fill(rec[1], j)
                fill(rec[3], j + 1)                  # W and Q when Y is read
    elif fmt == 'ms.dat-qtop':
        k = S.flow_index(io.params['c'])
        for r in S.reps:
            for j, rec in enumerate(S.rec[r]):
                fill(rec[1], j)
                fill(rec[2], j + 1)
                for n in range(S.nn + 1):
                    if n != k:
                        fill(rec[3][n], j + 2)       # the other flow times
    elif fmt == 'gfms':
        jx = S.c_index(io.params['c'])
        for r in S.reps:
            for j, rec in enumerate(S.rec[r]):
                for a in range(S.ncs + 1):
                    for i in range(16):
                        if not (a == jx and i == 0):
                            fill(rec[1][a, i], j + i)
    elif fmt == 'ms5_xsf':
        ci = F.MS5_BI.index(io.params['corr'])
        for r in S.reps:
            for j, rec in enumerate(S.rec[r]):
                for i in range(10):
                    if i != ci:
                        fill(rec[1][i], j + i)
                fill(rec[2], j)
    elif fmt.startswith('sfcf'):
        for (r, c), d_ in S.vals.items():
            for j, (k_, a) in enumerate(d_.items()):
                if k_ != io.key:
                    fill(a, j + c)
    else:
        for j, c in enumerate(S.cfgs):
            for k_ in range(S.K):
                if k_ != io.params['k']:
                    S.vals[c][k_][...] = complex(bad[j % 4], bad[(j + 1) % 4])


def case_spectators(ctx, rng, fmt):
    """Checklist 14: the numbers a read does not depend on (unused blocks, other correlators / flow times / entries, the low
    words of quadruple numbers) are NaN, +-inf or 1.7e308; the result must be exactly the expectation all the same."""
    S = make_set(fmt, rng, ctx.tier)
    io = IO(fmt, S, rng)
    poison(S, fmt, io)
    with tempfile.TemporaryDirectory(prefix='vmon_C17_', dir=TMPROOT) as d:
        S.write(d, distractors=False)
        ctx.count('file_sets')
        e = io.expect()
        if e is None:
            return
        n = hard(ctx, rng, fmt, 'spectators-poisoned', io, lambda: io.read(d), e, {'format': fmt, 'class': 'spectators'}, k=2)
        if fmt.startswith('sfcf') and fmt != 'sfcf-a':
            # the other part (real / imaginary) of the wanted numbers is a spectator as well
            for v in S.vals.values():
                v[io.key][:, 1] = float('nan')
            import shutil
            for x in os.listdir(d):
                shutil.rmtree(os.path.join(d, x))
            S.write(d, distractors=False)
            hard(ctx, rng, fmt, 'spectator-imaginary-part', io, lambda: io.read(d), io.expect(), {'format': fmt, 'class': 'spectators'}, k=1)
        if n:
            ctx.nontrivial.add(digest('spectators', S.digest()))
        ctx.sample({'format': fmt, 'class': 'spectators poisoned with nan / inf / 1.7e308'})


def case_many(ctx, rng, fmt, which=None):
    """Checklist 12 (beyond the quantifier's 1-3 replicas / 5-40 configurations, judged like everything else): 12 replicas
    r0..r11, one chain with more than 255 configurations, 12 time slices."""
    which = which or str(rng.choice(['replicas', 'configurations']))
    FORCE.update(min_cfg=260 if which == 'configurations' else 0)
    try:
        S = make_set(fmt, rng, ctx.tier)
    finally:
        FORCE.update(min_cfg=0)
    if which == 'replicas' and fmt != 'hadrons':
        # rebuild with twelve replicas: reuse the generator with a patched pool
        old = REP_POOLS[3]
        REP_POOLS[3] = [list(range(12))]
        FORCE.update(nrep=3)
        try:
            S = make_set(fmt, rng, ctx.tier)
        finally:
            REP_POOLS[3] = old
            FORCE.update(nrep=None)
    io = IO(fmt, S, rng)
    with tempfile.TemporaryDirectory(prefix='vmon_C17_', dir=TMPROOT) as d:
        S.write(d, distractors=False)
        ctx.count('file_sets')
        e = io.expect()
        if e is None:
            return
        n = hard(ctx, rng, fmt, 'many-' + which, io, lambda: io.read(d), e, {'format': fmt, 'class': 'many', 'which': which}, k=2)
        if n:
            ctx.nontrivial.add(digest('many', which, S.digest()))
        ctx.sample({'format': fmt, 'class': 'many ' + which, 'replicas': len(getattr(S, 'reps', [0]))})


# ------------------------------------------------------------------------------------------------
# the other Hadrons readers: DistillationContraction, ExternalLeg, Bilinear, Fourquark
# (list-valued options in every order, every documented selector value, defaults after explicit calls)
# ------------------------------------------------------------------------------------------------
DIAGRAMS = ['direct', 'box', 'cross', 'triangle']


def even_cfgs(rng, tier):
    # many small hdf5 datasets per configuration: short chains keep the quick tier fast (thorough: up to 12)
    n = int(rng.integers(6, 8)) if tier == 'quick' else int(rng.integers(5, 13))
    c, kind = gen_cfgs(rng, n, kinds=('contig', 'strided'))
    return c


class DistilSet:
    fmt = 'hadrons-distil'

    def __init__(self, rng, tier):
        self.ens = str(rng.choice(['ensD', 'ensD|r2']))
        self.Nt = int(rng.integers(2, 5))
        self.cfgs = even_cfgs(rng, tier)
        gam = ['Gamma5', 'GammaX', 'GammaTGamma5', 'GammaZ']
        self.stems = {'mesonA': ['%s_p000_n24_t0' % gam[int(rng.integers(4))], '%s_p100_n24_t0' % gam[int(rng.integers(4))]],
                      'mesonB': ['Identity_p000_n24_t0', '%s_p010_n24_t0' % gam[int(rng.integers(4))]]}
        if rng.random() < 0.3:
            self.stems['mesonC'] = ['%s_p011_n16_t0' % gam[int(rng.integers(4))], 'Identity_p000_n16_t0']
        n = len(self.cfgs) * len(self.stems) * 4 * self.Nt * self.Nt * 2
        src = F.Distinct(rng, n + 8, -9.0, 9.0)
        self.raw = {(st, c, dg): src.block(self.Nt, self.Nt) + 1j * src.block(self.Nt, self.Nt) for st in self.stems for c in self.cfgs for dg in DIAGRAMS}

    def write(self, d):
        for c in self.cfgs:
            sub = os.path.join(d, 'data.%d' % c)
            os.makedirs(sub)
            for st, inputs in self.stems.items():
                F.write_distillation_file(os.path.join(sub, '%s.%d.h5' % (st, c)), inputs, {dg: self.raw[(st, c, dg)] for dg in DIAGRAMS}, self.Nt)
        with open(os.path.join(d, 'notes.txt'), 'w') as f:
            f.write('x')
        os.makedirs(os.path.join(d, 'data.%d' % self.cfgs[0], 'logs'))     # not a measurement file: must be skipped

    def ident(self, st):
        return F.distillation_identifier(self.stems[st])

    def field(self, st, dg):
        return 'imag' if (dg == 'triangle' and 'Identity' not in self.ident(st)) else 'real'

    def expect(self, st, dg, idl=None, field=None):
        """-> list over t of {ens: {cfg: number}}"""
        cl = self.cfgs if idl is None else [c for c in self.cfgs if c in set(idl)]
        if idl is not None and set(idl) - set(self.cfgs):
            return None
        if len(cl) < 5:
            return None
        fld = field or self.field(st, dg)
        cache = self.__dict__.setdefault('_cache', {})
        vals = {}
        for c in cl:
            if (st, c, dg, fld) not in cache:
                cache[(st, c, dg, fld)] = F.distillation_expect(self.raw[(st, c, dg)], fld)
            vals[c] = cache[(st, c, dg, fld)]
        return [{self.ens: {c: float(vals[c][t]) for c in cl}} for t in range(self.Nt)]

    def digest(self):
        return digest(self.fmt, self.Nt, self.cfgs, sorted(self.stems), self.raw[('mesonA', self.cfgs[0], 'direct')])


def judge_distil(S, diagrams, idl=None):
    def jf(c, tag, res, exp, w):
        c.ev()
        want = sorted(S.ident(st) for st in S.stems)
        if not isinstance(res, dict) or sorted(res) != want:
            c.violation(tag + ':identifiers', {'got': sorted(res) if isinstance(res, dict) else repr(type(res)), 'exp': want, 'what': w})
            return False
        ok = True
        for st in S.stems:
            entry = res[S.ident(st)]
            c.ev()
            if sorted(entry) != sorted(set(diagrams)):
                c.violation(tag + ':diagrams-returned', {'got': sorted(entry), 'exp': sorted(set(diagrams)), 'what': w})
                ok = False
                continue
            for dg in set(diagrams):
                corr = entry[dg]
                e = S.expect(st, dg, idl=idl)
                c.ev()
                if corr.T != S.Nt or corr.tag != S.ident(st):
                    c.violation(tag + ':time-extent-or-tag', {'T': corr.T, 'tag': corr.tag, 'what': w})
                    ok = False
                    continue
                for t in range(S.Nt):
                    def also(t=t, st=st, dg=dg):
                        a = {'other-part(real/imag)': S.expect(st, dg, idl=idl, field='imag' if S.field(st, dg) == 'real' else 'real')[t]}
                        for d2 in DIAGRAMS:
                            if d2 != dg:
                                a['diagram-' + d2] = S.expect(st, d2, idl=idl)[t]
                        for s2 in S.stems:
                            if s2 != st:
                                a['file-' + s2] = S.expect(s2, dg, idl=idl)[t]
                        return a
                    ok &= compare_table(c, tag, corr.content[t][0], e[t], dict(w, file=st, diagram=dg, t=t, position_in_list=list(diagrams).index(dg)), also=also)
        return ok
    return jf


def case_distil(ctx, rng):
    S = DistilSet(rng, ctx.tier)
    fmt = S.fmt
    hd = PE.input.hadrons
    with tempfile.TemporaryDirectory(prefix='vmon_C17_', dir=TMPROOT) as d:
        S.write(d)
        ctx.count('file_sets')
        ctx.cell('set', fmt)
        returned = 0
        base_what = {'Nt': S.Nt, 'cfgs': S.cfgs[:3] + ['...', S.cfgs[-1]], 'stems': sorted(S.stems)}

        def go(sel, diagrams, idl=None, k=-1, must_raise=False, default=False):
            nonlocal returned
            exp = None if must_raise or (idl is not None and S.expect('mesonA', 'direct', idl=idl) is None) else True
            dl = ['direct'] if default else list(diagrams)

            def call():
                kw = {} if default else {'diagrams': list(diagrams)}
                if idl is not None:
                    kw['idl'] = idl if isinstance(idl, range) else list(idl)
                return hd.read_DistillationContraction_hd5(d, S.ens, **kw)
            returned += run_sel(ctx, rng, fmt, sel, call, exp, judge_distil(S, dl, None if idl is None else list(idl)), dict(base_what, diagrams=dl, idl=None if idl is None else list(idl)[:6]), k=k)

        # every diagram alone, the default, and ordered lists: every pair in both orders over the case, triangle first / in the middle / last
        go('default', None, default=True, k=-2)
        one = str(rng.choice(DIAGRAMS))
        go('single', [one])
        go('single-triangle', ['triangle'])
        other = [x for x in DIAGRAMS if x != 'triangle']
        x = str(rng.choice(other))
        go('triangle-then-other', ['triangle', x], k=-2)
        go('other-then-triangle', [x, 'triangle'])
        perm = [DIAGRAMS[i] for i in rng.permutation(4)]
        go('all-four-permuted', perm)
        go('all-four-triangle-first', ['triangle'] + [other[i] for i in rng.permutation(3)])
        y = [z for z in other if z != x]
        go('triangle-in-the-middle', [x, 'triangle', y[int(rng.integers(len(y)))]])
        sub = [DIAGRAMS[i] for i in rng.permutation(4)][:int(rng.integers(2, 4))]
        go('ordered-subset', sub)
        # the default again after explicit lists (mutable default argument) and the same list object twice
        go('default-after-explicit', None, default=True)
        lst = ['triangle', x]
        for rep_ in (1, 2):
            LIST.mode = 'sorted'
            res, ok = lib_call(ctx, fmt + ':list-object-reused', base_what, lambda: hd.read_DistillationContraction_hd5(d, S.ens, diagrams=lst))
            ctx.count('judged:%s:list-object-reused' % fmt)
            if ok:
                judge_distil(S, ['triangle', x])(ctx, fmt + ':list-object-reused', res, True, dict(base_what, call=rep_))
        ctx.ev()
        if lst != ['triangle', x]:
            ctx.count('arg-modified-in-place:%s:diagrams' % fmt)
        # idl selections
        c = S.cfgs
        stp = c[1] - c[0]
        if len(c) >= 6:
            i = int(rng.integers(0, len(c) - 4))
            j = int(rng.integers(i + 4, len(c)))
            go('idl-range', perm[:2], idl=range(c[i], c[j] + 1, stp))
            pick = sorted(int(v) for v in rng.choice(c, size=int(rng.integers(5, len(c))), replace=False))
            go('idl-list', ['triangle', x], idl=pick)
        # a measurement file missing in one configuration directory: the documented behaviour is to skip that stem
        import copy
        import shutil
        with tempfile.TemporaryDirectory(prefix='vmon_C17_', dir=TMPROOT) as d2:
            S.write(d2)
            gone = sorted(S.stems)[-1]
            cm_ = S.cfgs[len(S.cfgs) // 2]
            os.remove(os.path.join(d2, 'data.%d' % cm_, '%s.%d.h5' % (gone, cm_)))
            S2 = copy.copy(S)
            S2.stems = {k_: v for k_, v in S.stems.items() if k_ != gone}
            returned += run_sel(ctx, rng, fmt, 'file-missing-in-one-configuration', lambda: hd.read_DistillationContraction_hd5(d2, S.ens, diagrams=['box', 'triangle']), True,
                                judge_distil(S2, ['box', 'triangle']), dict(base_what, missing=gone, cfg=cm_), k=-1)
            # inversions on a subset of the time slices only: documented exception
            for st_, inputs in S.stems.items():
                F.write_distillation_file(os.path.join(d2, 'data.%d' % S.cfgs[0], '%s.%d.h5' % (st_, S.cfgs[0])), inputs, {dg: S.raw[(st_, S.cfgs[0], dg)] for dg in DIAGRAMS}, S.Nt,
                                          time_sources='0 4 8')
            shutil.copy(os.path.join(d, 'data.%d' % cm_, '%s.%d.h5' % (gone, cm_)), os.path.join(d2, 'data.%d' % cm_))
            run_sel(ctx, rng, fmt, 'time-sources-not-all', lambda: hd.read_DistillationContraction_hd5(d2, S.ens), None, None, base_what, k=-1)
        for bad in ['diagram-unknown', 'idl-missing-configuration', 'diagram-listed-twice']:
            if bad == 'diagram-unknown':
                go(bad, ['direct', 'pentagon'], must_raise=True)
            elif bad == 'idl-missing-configuration':
                go(bad, ['direct'], idl=list(c) + [c[-1] + stp * 3], must_raise=True)
            else:
                # the same diagram twice: an exception or the right numbers (undocumented) - never other numbers
                LIST.mode = 'sorted'
                ctx.count('judged:%s:%s' % (fmt, bad))
                try:
                    res = hd.read_DistillationContraction_hd5(d, S.ens, diagrams=['direct', 'direct'])
                except Exception as e:
                    if ctx.classify_exception(e)[0] != 'library':
                        raise
                    ctx.count('%s:diagram-listed-twice:raises' % fmt)
                else:
                    judge_distil(S, ['direct', 'direct'])(ctx, fmt + ':' + bad, res, True, base_what)
        if returned:
            ctx.nontrivial.add(S.digest())
        ctx.sample({'format': fmt, 'Nt': S.Nt, 'files_per_configuration': sorted(S.stems), 'configurations': S.cfgs[:3] + ['...', S.cfgs[-1]], 'reads_returned': returned})


NPR_KINDS = {'externalleg': 'ExternalLeg', 'bilinear': 'Bilinear', 'fourquark': 'FourQuarkFullyConnected'}


class NprSet:
    def __init__(self, rng, tier, kind):
        self.kind = kind
        self.fmt = 'hadrons-' + kind
        self.group = NPR_KINDS[kind]
        self.stem = str(rng.choice(['npr_run', 'mom_2_2_0_0', 'run7.npr']))
        self.ens = str(rng.choice(['ensN', 'ensN|r1']))
        self.cfgs = even_cfgs(rng, tier)
        if len(self.cfgs) > 12:
            self.cfgs = self.cfgs[:12]
        self.p_in = [int(x) for x in rng.integers(-3, 4, size=4)]
        self.p_out = [int(x) for x in rng.integers(-3, 4, size=4)]
        if kind == 'fourquark':
            self.shape = tuple(int(x) for x in rng.choice([1, 2], size=8, p=[0.7, 0.3]))
            self.labels = F.fourquark_all_pairs()
            self.labels = [self.labels[i] for i in rng.permutation(32)]
        else:
            self.shape = (int(rng.integers(1, 3)), int(rng.integers(1, 3)), int(rng.integers(1, 3)), int(rng.integers(1, 3)))
            self.labels = [F.GAMMA16[i] for i in rng.permutation(16)] if kind == 'bilinear' else [None]
        m = int(np.prod(self.shape))
        src = F.Distinct(rng, 2 * m * len(self.labels) * len(self.cfgs) + 8, -9.0, 9.0)
        self.vals = {c: {lab: (src.block(*self.shape) + 1j * src.block(*self.shape)) for lab in self.labels} for c in self.cfgs}

    def write(self, d):
        for c in self.cfgs:
            ent = [self.vals[c][None]] if self.kind == 'externalleg' else [(lab, self.vals[c][lab]) for lab in self.labels]
            F.write_npr_file(os.path.join(d, '%s.%d.h5' % (self.stem, c)), self.group, ent, self.p_in, self.p_out)
        F.write_npr_file(os.path.join(d, '%s2.%d.h5' % (self.stem, self.cfgs[0])), 'ExternalLeg', [np.zeros(self.shape[:4] if self.kind != 'fourquark' else (1, 1, 1, 1))], self.p_in)

    def cfgl(self, idl):
        cl = self.cfgs if idl is None else [c for c in self.cfgs if c in set(idl)]
        if idl is not None and set(idl) - set(self.cfgs):
            return None
        return cl if len(cl) >= 5 else None

    def matrix(self, c, name):
        """Stored complex array of configuration c for a result key."""
        if self.kind == 'externalleg':
            return self.vals[c][None]
        if self.kind == 'bilinear':
            return self.vals[c][name]
        cache = self.__dict__.setdefault('_cache', {})
        if (c, name) not in cache:
            tot = 0
            for a, b, sg in F.fourquark_pairs(name):
                tot = tot + sg * self.vals[c][(a, b)]
            cache[(c, name)] = tot
        return cache[(c, name)]

    def digest(self):
        return digest(self.fmt, self.shape, self.cfgs, self.p_in, [self.vals[self.cfgs[0]][self.labels[0]]])


def judge_npr(S, keys, idl=None):
    def jm(c, tag, mat, name, cl, w):
        c.ev()
        if tuple(mat.shape) != tuple(S.shape):
            c.violation(tag + ':shape', {'got': tuple(mat.shape), 'exp': S.shape, 'what': w})
            return False
        want_in = np.array(S.p_in, dtype=float)
        ok = True
        c.ev()
        if mat.mom_in is None or not np.array_equal(mat.mom_in, want_in) or (S.kind != 'externalleg' and not np.array_equal(mat.mom_out, np.array(S.p_out, dtype=float))):
            c.violation(tag + ':momenta', {'mom_in': repr(mat.mom_in), 'mom_out': repr(getattr(mat, 'mom_out', None)), 'exp': [S.p_in, S.p_out]})
            ok = False
        ms = {cc: S.matrix(cc, name) for cc in cl}

        def others():
            o = {}
            if S.kind == 'fourquark':
                for v2 in F.FOURQUARK_VERTICES:
                    if v2 != name:
                        o['vertex-' + v2] = {cc: S.matrix(cc, v2) for cc in cl}
            elif S.kind == 'bilinear':
                for g2 in S.labels:
                    if g2 != name:
                        o['gamma-' + g2] = {cc: S.matrix(cc, g2) for cc in cl}
            return o
        for index in np.ndindex(*S.shape):
            re_ = {S.ens: {cc: float(ms[cc][index].real) for cc in cl}}
            im_ = {S.ens: {cc: float(ms[cc][index].imag) for cc in cl}}

            def also(part, index=index, re_=re_, im_=im_):
                a = {'imaginary-part': im_} if part == 'real' else {'real-part': re_}
                for lab, om in others().items():
                    a[lab] = {S.ens: {cc: float(getattr(om[cc][index], part)) for cc in cl}}
                return a
            ok &= compare_table(c, tag, mat[index].real, re_, dict(w, key=str(name), index=list(index), part='real'), rtol=RTOL_DERIVED, also=lambda: also('real'))
            ok &= compare_table(c, tag, mat[index].imag, im_, dict(w, key=str(name), index=list(index), part='imag'), rtol=RTOL_DERIVED, also=lambda: also('imag'))
        return ok

    def jf(c, tag, res, exp, w):
        cl = S.cfgl(idl)
        if S.kind == 'externalleg':
            return jm(c, tag, res, None, cl, w)
        c.ev()
        if not isinstance(res, dict) or sorted(res) != sorted(set(keys)):
            c.violation(tag + ':keys-returned', {'got': sorted(res) if isinstance(res, dict) else repr(type(res)), 'exp': sorted(set(keys)), 'what': w})
            return False
        ok = True
        for name in sorted(set(keys)):
            ok &= jm(c, tag, res[name], name, cl, w)
        return ok
    return jf


def npr_matrix_methods(ctx, rng, S, fn, d):
    """Npr_matrix objects handed out by the readers: g5H exchanges the momenta and keeps the entries; the matrix product
    propagates the momenta, rejects contradicting ones, and its central values are the products of the stored means."""
    fmt = S.fmt
    hdm = PE.input.hadrons
    LIST.mode = 'sorted'
    res = fn(d, S.stem, S.ens)
    mats = [(None, res)] if S.kind == 'externalleg' else [(g, res[g]) for g in S.labels[:2]]
    ctx.count('judged:%s:npr_matrix-methods' % fmt)
    for name, m in mats:
        g = m.g5H
        ctx.ev()
        ok = (g.mom_in is m.mom_out or np.array_equal(g.mom_in, m.mom_out)) and np.array_equal(g.mom_out, m.mom_in) and all(g[i_] is m[i_] for i_ in np.ndindex(*S.shape))
        if not ok:
            ctx.violation(fmt + ':g5H', {'mom_in': repr(g.mom_in), 'mom_out': repr(g.mom_out)})
    if S.shape[2] != S.shape[3]:
        return
    (na, A), (nb, B) = mats[0], mats[-1]
    P = A @ B
    ctx.ev()
    if not np.array_equal(P.mom_in, np.array(S.p_in, dtype=float)) or (S.kind == 'bilinear' and not np.array_equal(P.mom_out, np.array(S.p_out, dtype=float))):
        ctx.violation(fmt + ':matmul-momenta', {'mom_in': repr(P.mom_in), 'mom_out': repr(getattr(P, 'mom_out', None))})
    ma = np.mean([S.matrix(c, na) for c in S.cfgs], axis=0)
    mb = np.mean([S.matrix(c, nb) for c in S.cfgs], axis=0)
    want = ma @ mb
    for idx in np.ndindex(*P.shape):
        ctx.ev()
        got = complex(P[idx].real.value, P[idx].imag.value)
        if abs(got - want[idx]) > RTOL_DERIVED * max(1.0, float(np.max(np.abs(want)))):
            ctx.violation(fmt + ':matmul-central-value', {'index': list(idx), 'got': repr(got), 'exp': repr(complex(want[idx]))})
            break
    other = hdm.Npr_matrix(B, mom_in=np.array(S.p_in, dtype=float) + 1.0)
    ctx.ev()
    try:
        A @ other
        ctx.violation(fmt + ':matmul-contradicting-momenta:accepted', {})
    except Exception as e:
        if ctx.classify_exception(e)[0] != 'library':
            raise


def case_npr(ctx, rng, kind):
    S = NprSet(rng, ctx.tier, kind)
    fmt = S.fmt
    hd = PE.input.hadrons
    fn = {'externalleg': hd.read_ExternalLeg_hd5, 'bilinear': hd.read_Bilinear_hd5, 'fourquark': hd.read_Fourquark_hd5}[kind]
    with tempfile.TemporaryDirectory(prefix='vmon_C17_', dir=TMPROOT) as d:
        S.write(d)
        ctx.count('file_sets')
        ctx.cell('set', fmt)
        returned = 0
        base_what = {'shape': S.shape, 'cfgs': S.cfgs[:3] + ['...', S.cfgs[-1]], 'stem': S.stem}
        allkeys = {'externalleg': [None], 'bilinear': list(S.labels), 'fourquark': ['VA', 'AV']}[kind]

        def go(sel, keys=None, idl=None, k=-1, must_raise=False, default=True):
            nonlocal returned
            kk = allkeys if keys is None else keys
            exp = None if must_raise or S.cfgl(idl) is None else True

            def call():
                kw = {}
                if idl is not None:
                    kw['idl'] = idl if isinstance(idl, range) else list(idl)
                if kind == 'fourquark' and not default:
                    kw['vertices'] = list(keys)
                return fn(d, S.stem, S.ens, **kw)
            returned += run_sel(ctx, rng, fmt, sel, call, exp, judge_npr(S, kk, None if idl is None else list(idl)),
                                dict(base_what, keys=[str(x) for x in kk][:8], idl=None if idl is None else list(idl)[:6]), k=k)

        go('all', k=-2)
        if kind != 'fourquark':
            npr_matrix_methods(ctx, rng, S, fn, d)
        c = S.cfgs
        stp = c[1] - c[0]
        if len(c) >= 6:
            i = int(rng.integers(0, len(c) - 4))
            j = int(rng.integers(i + 4, len(c)))
            go('idl-range', idl=range(c[i], c[j] + 1, stp))
            go('idl-list', idl=sorted(int(v) for v in rng.choice(c, size=int(rng.integers(5, len(c))), replace=False)))
        go('idl-missing-configuration', idl=list(c) + [c[-1] + 3 * stp], must_raise=True)
        if kind == 'fourquark':
            V = F.FOURQUARK_VERTICES
            one = str(rng.choice(V))
            go('vertex-single', [one], default=False)
            two = [V[i] for i in rng.permutation(len(V))[:2]]
            go('vertices-pair', two, default=False)
            go('vertices-pair-reversed', two[::-1], default=False)
            many_ = [V[i] for i in rng.permutation(len(V))[:int(rng.integers(3, 7))]]
            go('vertices-ordered-subset', many_, default=False)
            go('vertices-tensor-pair', ['TTtilde', 'TT'] if rng.random() < 0.5 else ['TT', 'TTtilde'], default=False)
            if rng.random() < 0.5:
                go('vertices-all-permuted', [V[i] for i in rng.permutation(len(V))], default=False)
            go('default-after-explicit')
            lst = list(two)
            for rep_ in (1, 2):
                LIST.mode = 'sorted'
                res, ok = lib_call(ctx, fmt + ':list-object-reused', base_what, lambda: fn(d, S.stem, S.ens, vertices=lst))
                ctx.count('judged:%s:list-object-reused' % fmt)
                if ok:
                    judge_npr(S, two)(ctx, fmt + ':list-object-reused', res, True, dict(base_what, call=rep_))
            if lst != two:
                ctx.count('arg-modified-in-place:%s:vertices' % fmt)
            for bad in ['vertex-not-a-lorentz-scalar', 'vertex-unknown', 'vertex-listed-twice']:
                if bad == 'vertex-not-a-lorentz-scalar':
                    go(bad, ['VA', str(rng.choice(['VS', 'SA', 'PV']))], default=False, must_raise=True)
                elif bad == 'vertex-unknown':
                    go(bad, ['XY'], default=False, must_raise=True)
                else:
                    # the same vertex twice: an exception or the right numbers - never other numbers
                    LIST.mode = 'sorted'
                    ctx.count('judged:%s:%s' % (fmt, bad))
                    try:
                        res = fn(d, S.stem, S.ens, vertices=[one, one])
                    except Exception as e:
                        if ctx.classify_exception(e)[0] != 'library':
                            raise
                        ctx.count('%s:vertex-listed-twice:raises' % fmt)
                    else:
                        t_ = ctx.trial()
                        judge_npr(S, [one])(t_, fmt + ':' + bad, res, True, dict(base_what, vertices=[one, one]))
                        if not t_.violations:
                            ctx.absorb(t_)
                        else:
                            # named cause: every contribution of the vertex added once per occurrence in the list
                            S2 = NprSet.__new__(NprSet)
                            S2.__dict__.update(S.__dict__)
                            S2.__dict__['_cache'] = {}
                            S2.vals = {cc: {lab: 2 * v for lab, v in dd.items()} for cc, dd in S.vals.items()}
                            t2 = ctx.trial()
                            judge_npr(S2, [one])(t2, 'x', res, True, {})
                            if not t2.violations:
                                ctx.ev()
                                ctx.violation(fmt + ':vertex-listed-twice:numbers-doubled', {'vertices': [one, one], 'first_difference': t_.violations[0]})
                            else:
                                ctx.absorb(t_)
        if returned:
            ctx.nontrivial.add(S.digest())
        ctx.sample({'format': fmt, 'shape': S.shape, 'configurations': S.cfgs[:3] + ['...', S.cfgs[-1]], 'reads_returned': returned})


# ------------------------------------------------------------------------------------------------
# third hardening pass: entry points no case reached (line coverage): read_pbp, extract_t0_hd5, sort_names fallback
# ------------------------------------------------------------------------------------------------
class PbpSet(RwmsSet):
    """<psibar psi> files read by read_pbp: layout of an openQCD 1.6 ms1 file; reduction: product over the factors of the
    source average of the second block (no exponential)."""

    def __init__(self, rng, tier, small=False, canonical=None, structure=None):
        RwmsSet.__init__(self, rng, tier, small=small, version='1.6', structure=structure)
        self.fmt = 'pbp'
        self.postfix = 'pbp'
        self.prefix = str(rng.choice(['ensA', 'N200', 'pbp_']))
        # read_pbp numbers the measurements by position; canonical files carry the trajectory numbers 1..N
        self.canonical = bool(rng.random() < 0.6) if canonical is None else canonical
        if self.canonical:
            for r in self.reps:
                n = len(self.traj[r])
                self.traj[r] = list(range(1, n + 1))
                self.rec[r] = [(i + 1,) + tuple(rec[1:]) for i, rec in enumerate(self.rec[r])]

    def values(self, r, nrec=None):
        recs = self.rec[r] if nrec is None else self.rec[r][:nrec]
        out = []
        for rec in recs:
            v = []
            for i in range(self.nrw):
                p = 1.0
                for row in np.asarray(rec[2][i], dtype=float):
                    p *= float(np.mean(row))
                v.append(p)
            out.append((rec[0], v))
        return out

    def expect(self, reps=None, r_start=None, r_stop=None, nrec=None):
        """Configuration number = trajectory number stored in the file; r_start / r_stop are configuration numbers."""
        reps = self.reps if reps is None else reps
        out = [dict() for _ in range(self.nrw)]
        for k, r in enumerate(reps):
            vals = self.values(r, None if nrec is None else nrec.get(r))
            cfgs = [v[0] for v in vals]
            lo = cfgs[0] if (r_start is None or not r_start[k]) else r_start[k]
            hi = cfgs[-1] if (r_stop is None or r_stop[k] is None) else r_stop[k]
            sel = [c for c in cfgs if lo <= c <= hi]
            if len(sel) < 5:
                return None
            for i in range(self.nrw):
                out[i][self.name(r)] = {c: v[1][i] for c, v in zip(cfgs, vals) if c in sel}
        return out

    def expect_positional(self, **kw):
        """What read_pbp documents nothing about and does: measurements numbered 1, 2, ... by position in what was kept."""
        exp = self.expect(**kw)
        return None if exp is None else [{n: dict(zip(range(1, len(t) + 1), [t[c] for c in sorted(t)])) for n, t in e.items()} for e in exp]

    def read(self, d, **kw):
        return PE.input.misc.read_pbp(d, self.prefix, **kw)

    def write(self, d, distractors=True):
        RwmsSet.write(self, d, distractors=False)
        if distractors:
            with open(os.path.join(d, 'other' + self.fname(self.reps[0])[len(self.prefix):]), 'wb') as f:
                f.write(b'\\1' * 31)
            with open(os.path.join(d, self.fname(self.reps[0])[:-4] + '.txt'), 'wb') as f:
                f.write(b'junk')


def case_pbp(ctx, rng):
    S = PbpSet(rng, ctx.tier)
    fmt = 'pbp'
    with tempfile.TemporaryDirectory(prefix='vmon_C17_', dir=TMPROOT) as d:
        S.write(d)
        ctx.count('file_sets')
        ctx.cell('set', fmt, 'reps%d' % len(S.reps), 'canonical' if S.canonical else 'stored-numbers-not-1..N')
        nrep = len(S.reps)
        returned = 0
        what = {'reps': S.reps, 'nfct': S.nfct, 'nsrc': S.nsrc, 'canonical_numbering': S.canonical, 'traj_first': {r: S.traj[r][:2] for r in S.reps}}

        def renumbered(exp):
            # named cause: measurements numbered 1, 2, ... by their position in what was kept
            return None if exp is None else [{n: dict(zip(range(1, len(t) + 1), [t[c] for c in sorted(t)])) for n, t in e.items()} for e in exp]

        def go(sel, kw, exp, k=3, alt_tag=None):
            # pbp.dat is not among the formats C17 enumerates and read_pbp documents no numbering: the measurements are judged by
            # position (numbers, names, replica order, selection); that the stored trajectory numbers are not used and that the
            # numbering restarts at 1 after r_start is counted as an observation, not judged
            nonlocal returned
            if alt_tag and exp is not None:
                ctx.count(alt_tag + '(observation)')
                exp = renumbered(exp)
            returned += run_sel(ctx, rng, fmt, sel, lambda: S.read(d, **fresh(kw)), exp, judge_list, dict(what, kw=dict(kw)), k=k)

        go('all' if S.canonical else 'all-stored-numbers-not-1..N', {}, S.expect(), alt_tag=None if S.canonical else 'pbp:stored-trajectory-numbers-ignored')
        go('print_err', {'print_err': True}, S.expect(), k=2, alt_tag=None if S.canonical else 'pbp:stored-trajectory-numbers-ignored')
        if S.canonical:
            win = {r: pick_window(rng, S.traj[r]) for r in S.reps}
            if all(w is not None for w in win.values()):
                rs, re_ = [win[r][0] for r in S.reps], [win[r][1] for r in S.reps]
                go('r_stop', {'r_stop': re_}, S.expect(r_stop=re_))
                if any(x > 1 for x in rs):
                    go('r_start', {'r_start': rs, 'r_stop': re_}, S.expect(r_start=rs, r_stop=re_), alt_tag='pbp:r_start:numbering-restarts-at-1')
                go('r_start-first', {'r_start': [1] * nrep}, S.expect(), k=2)
        for bad in pick_bad(rng, ['r_start-length', 'r_stop-length', 'directory-empty', 'replica-header-mismatch']):
            if bad == 'r_start-length':
                go(bad, {'r_start': [1] * (nrep + 1)}, None, k=2)
            elif bad == 'r_stop-length':
                go(bad, {'r_stop': [5] * (nrep + 1)}, None, k=2)
            elif bad == 'directory-empty':
                run_sel(ctx, rng, fmt, bad, lambda: PE.input.misc.read_pbp(os.path.join(d, 'nothing'), S.prefix), None, judge_list, what, k=2)
            elif nrep >= 2:
                with tempfile.TemporaryDirectory(prefix='vmon_C17_', dir=TMPROOT) as d2:
                    S.write(d2, distractors=False)
                    r1 = S.reps[1]
                    data, _ = F.encode_rwms('1.6', S.nfct + [1], S.nsrc + [1], [(rec[0], list(rec[1]) + [np.zeros((1, 1))], list(rec[2]) + [np.ones((1, 1))]) for rec in S.rec[r1]])
                    with open(os.path.join(d2, S.fname(r1)), 'wb') as f:
                        f.write(data)
                    run_sel(ctx, rng, fmt, bad, lambda: PE.input.misc.read_pbp(d2, S.prefix), None, judge_list, what, k=2)
        if returned and (digits_differ(S.reps) or any(digits_differ(c) for c in S.traj.values())):
            ctx.nontrivial.add(S.digest())
        ctx.sample({'format': fmt, 'nfct': S.nfct, 'nsrc': S.nsrc, 'replicas': S.reps, 'canonical_numbering': S.canonical, 'reads_returned': returned})


class FlowHd5Set:
    fmt = 'hadrons-flow'

    def __init__(self, rng, tier):
        self.stem = str(rng.choice(['flow_obs', 'wflow.run1']))
        self.ens = str(rng.choice(['ensF', 'ensF|r1']))
        n = n_cfg(rng, tier)
        self.cfgs, _ = gen_cfgs(rng, max(8, min(n, 16)), kinds=('contig', 'strided'))
        self.nt = int(rng.integers(9, 14))
        self.ts = [round(0.05 * (k + 1) * int(rng.choice([1, 2])), 6) for k in range(self.nt)]
        self.ts = sorted(set(self.ts))
        self.nt = len(self.ts)
        self.t0 = self.ts[self.nt // 2] + 0.37 * (self.ts[1] - self.ts[0])
        src = F.Distinct(rng, 2 * self.nt * len(self.cfgs) + 8, -1.0, 1.0)
        # t^2 E = 0.3 t / t0 with 5 % distinct noise; the plaquette definition is scaled so that both cross 0.3 inside the range
        self.data = {c: {'Clover energy density': np.array([0.3 * t / self.t0 for t in self.ts]) * (1 + 0.05 * src.take(self.nt)),
                         'Plaquette energy density': np.array([0.3 * t / (0.9 * self.t0) for t in self.ts]) * (1 + 0.05 * src.take(self.nt))} for c in self.cfgs}
        self.order = ['Clover energy density', 'Plaquette energy density']
        if rng.random() < 0.5:
            self.order = self.order[::-1]

    def write(self, d, break_times_at=None):
        for c in self.cfgs:
            ts = list(self.ts)
            if break_times_at == c:
                ts[-1] += 0.5
            ent = [('Flow time', ts)] + [(o, self.data[c][o]) for o in self.order] + [('Topological charge', np.zeros(self.nt))]
            F.write_flowobs_file(os.path.join(d, '%s.%d.h5' % (self.stem, c)), ent)

    def tables(self, obs, idl=None):
        cl = self.cfgs if idl is None else [c for c in self.cfgs if c in set(idl)]
        if len(cl) < 8:
            return None
        return [{self.ens: {c: float(self.data[c][obs][k]) - 0.3 for c in cl}} for k in range(self.nt)]

    def digest(self):
        return digest(self.fmt, self.cfgs, self.ts, self.data[self.cfgs[0]]['Clover energy density'])


def case_flow_hd5(ctx, rng):
    S = FlowHd5Set(rng, ctx.tier)
    fmt = S.fmt
    hd = PE.input.hadrons
    with tempfile.TemporaryDirectory(prefix='vmon_C17_', dir=TMPROOT) as d:
        S.write(d)
        ctx.count('file_sets')
        ctx.cell('set', fmt)
        what = {'cfgs': S.cfgs[:3] + ['...', S.cfgs[-1]], 'flow_times': S.ts[:3], 'order_in_file': S.order}
        returned = 0
        for obs in S.order:
            fr = int(rng.choice([2, 3]))
            ref = ref_root_fit(S.ts, S.tables(obs), fr)
            if ref is None or ref == 'negative-slice':
                ctx.count('t0_sets_without_usable_crossing')
                continue
            sel = 'clover' if obs.startswith('Clover') else 'plaquette'
            returned += run_sel(ctx, rng, fmt, sel, lambda: hd.extract_t0_hd5(d, S.stem, S.ens, obs=obs, fit_range=fr), ref,
                                lambda c, tag, res, e, w: compare_derived(c, tag, res, e, None, w), dict(what, obs=obs, fit_range=fr), k=-2)
        # idl
        c = S.cfgs
        if len(c) >= 10:
            stp = c[1] - c[0]
            sub = range(c[1], c[-1] + 1, stp)
            tabs = S.tables('Clover energy density', idl=list(sub))
            ref = ref_root_fit(S.ts, tabs, 2) if tabs else None
            if ref not in (None, 'negative-slice'):
                returned += run_sel(ctx, rng, fmt, 'idl-range', lambda: hd.extract_t0_hd5(d, S.stem, S.ens, fit_range=2, idl=sub), ref,
                                    lambda cx, tag, res, e, w: compare_derived(cx, tag, res, e, None, w), dict(what, idl=list(sub)[:5]), k=-1)
        run_sel(ctx, rng, fmt, 'observable-unknown', lambda: hd.extract_t0_hd5(d, S.stem, S.ens, obs='Wilson energy density'), None, None, what, k=-1)
        with tempfile.TemporaryDirectory(prefix='vmon_C17_', dir=TMPROOT) as d2:
            S.write(d2, break_times_at=S.cfgs[len(S.cfgs) // 2])
            run_sel(ctx, rng, fmt, 'flow-times-differ-between-files', lambda: hd.extract_t0_hd5(d2, S.stem, S.ens), None, None, what, k=-1)
            S.write(d2)
            cm_ = S.cfgs[len(S.cfgs) // 2]
            F.write_flowobs_file(os.path.join(d2, '%s.%d.h5' % (S.stem, cm_)), [('Flow time', S.ts), (S.order[0], S.data[cm_][S.order[0]])])
            run_sel(ctx, rng, fmt, 'observable-missing-in-a-later-file', lambda: hd.extract_t0_hd5(d2, S.stem, S.ens, obs=S.order[1]), None, None, what, k=-1)
        if returned:
            ctx.nontrivial.add(S.digest())
        ctx.sample({'format': fmt, 'configurations': S.cfgs[:3] + ['...', S.cfgs[-1]], 'n_flow_times': S.nt, 'reads_returned': returned})


def case_fallback_names(ctx, rng, which):
    """File names that carry neither r<digits> nor id<digits>: sort_names falls back to the first number that differs.
    Replica numbers 1, 2, 10 (and 9, 10, 100): the order must be numeric under every directory listing."""
    v = str(rng.choice(['1.4', '1.6', '2.0']))
    FORCE.update(nrep=3)
    try:
        S = RwmsSet(rng, ctx.tier, version=v) if which == 'rwms' else MsdatSet(rng, ctx.tier)
    finally:
        FORCE.update(nrep=None)
    S.prefix = str(rng.choice(['ensB', 'lat_b', 'cnfgs']))
    sep = str(rng.choice(['_', '-', 's']))
    post = S.postfix if which == 'rwms' else 'ms'
    S.fname = lambda r: '%s%s%d.%s.dat' % (S.prefix, sep, r, post)
    fmt = ('rwms-%s' % v if which == 'rwms' else 'ms.dat-qtop')
    names = ['lbl|s%d' % r for r in S.reps]
    with tempfile.TemporaryDirectory(prefix='vmon_C17_', dir=TMPROOT) as d:
        S.write(d, distractors=False)
        ctx.count('file_sets')
        ctx.cell('set', fmt, 'names-without-r')
        what = {'files': [S.fname(r) for r in S.reps], 'class': 'sort_names fallback'}
        if which == 'rwms':
            call = lambda: S.read(d, names=list(names))   # noqa: E731
            exp, jf = S.expect(names=names), judge_list
            run_sel(ctx, rng, fmt, 'files-without-r-pattern-no-names', lambda: S.read(d), None, judge_list, what, k=2)
        else:
            c = S.c_for_index(int(rng.integers(0, S.nn + 1)))
            jf = judge_qtop(S)
            oq = PE.input.openQCD
            call = lambda: oq.read_qtop(d, S.prefix, c, L=S.L, names=list(names))   # noqa: E731
            exp = {'table': S.expect_qtop(c, names=names), 'tag': {'T': S.tmax - 1, 'L': S.L}}
            run_sel(ctx, rng, fmt, 'files-without-r-pattern-no-names', lambda: oq.read_qtop(d, S.prefix, c, L=S.L), None, jf, what, k=2)
        # the same read under every kind of listing; the outcomes must all be the right one
        outcomes = {}
        n = 0
        modes = [('sorted', 0), ('reversed', 0)] + [('perm', int(rng.integers(1, 2 ** 31))) for _ in range(3)]
        for mode, seed in modes:
            LIST.mode, LIST.seed = mode, seed
            ctx.count('judged:%s:files-without-r-pattern' % fmt)
            ctx.count('reads_judged')
            ctx.ev()
            try:
                res = call()
            except Exception as e:
                LIST.mode = 'sorted'
                if ctx.classify_exception(e)[0] != 'library':
                    raise
                outcomes['%s:%d' % (mode, seed)] = 'raises ' + type(e).__name__
                continue
            LIST.mode = 'sorted'
            t = ctx.trial()
            jf(t, fmt, res, exp, what)
            outcomes['%s:%d' % (mode, seed)] = 'right' if not t.violations else 'wrong: ' + t.violations[0]['mechanism']
            n += 1
        if any(v != 'right' for v in outcomes.values()):
            ctx.violation('sort_names-fallback:order-depends-on-directory-listing', {'files': what['files'], 'outcome_per_listing': outcomes})
        if n:
            ctx.nontrivial.add(digest('fallback', S.digest()))
        ctx.sample({'format': fmt, 'class': 'file names without r<digits>', 'files': [S.fname(r) for r in S.reps]})


def case_check_idl(ctx, rng):
    """utils.check_idl (helper of the readers, documented: returns the missing configurations as a comma separated string)."""
    ut = PE.input.utils
    for _ in range(6):
        n = int(rng.integers(5, 30))
        idl, _k = gen_cfgs(rng, n)
        form = str(rng.choice(['list', 'range']))
        if form == 'range' and len(set(np.diff(idl))) == 1:
            idl = range(idl[0], idl[-1] + 1, idl[1] - idl[0])
        want = sorted(set(int(x) for x in rng.integers(min(idl) - 3, max(idl) + 4, size=int(rng.integers(1, 12)))))
        missing = [c for c in want if c not in idl]
        ctx.count('judged:utils:check_idl')
        ctx.ev()
        if not missing:
            try:
                r = ut.check_idl(idl, want)
                ctx.count('utils:check_idl:nothing-missing:returns-' + type(r).__name__)
            except Exception as e:
                if ctx.classify_exception(e)[0] != 'library':
                    raise
                ctx.count('utils:check_idl:nothing-missing:raises-%s(observation)' % type(e).__name__)
            continue
        got = ut.check_idl(idl, want)
        if got != ','.join(str(c) for c in missing):
            ctx.violation('utils:check_idl:missing-configurations', {'idl': list(idl)[:10], 'asked': want, 'got': got, 'exp': missing})
    ctx.nontrivial.add(digest('check_idl', ctx.case))


def plan(tier):
    m = 1 if tier == 'quick' else 8
    h = len(HARD_FMTS)
    return [('rwms', 75 * m), ('msdat_energy', 40 * m), ('msdat_t0', 36 * m), ('msdat_qtop', 40 * m), ('gfms', 40 * m), ('ms5', 40 * m),
            ('sfcf_o', 32 * m), ('sfcf_c', 40 * m), ('sfcf_a', 40 * m), ('hadrons', 40 * m),
            ('options', 10 * len(OPTION_KINDS) * m), ('history', 5 * h * m), ('hard', 16 * h * m), ('scale', 17 * h * m),
            ('spectators', 17 * h * m), ('many', 2 * h * m),
            ('distil', 34 * m), ('npr_externalleg', 30 * m), ('npr_bilinear', 26 * m), ('npr_fourquark', 34 * m),
            ('pbp', 40 * m), ('flow_hd5', 30 * m), ('fallback_rwms', 20 * m), ('fallback_qtop', 20 * m), ('check_idl', 10 * m)]


def run_case(ctx, kind, idx, rng):
    import time
    t0 = time.time()
    try:
        _run_case(ctx, kind, idx, rng)
    finally:
        ctx.count('ms:' + kind, int(1000 * (time.time() - t0)))


def _run_case(ctx, kind, idx, rng):
    if kind == 'rwms':
        case_rwms(ctx, rng, version=['1.4', '1.6', '2.0'][idx % 3])
    elif kind == 'msdat_energy':
        case_msdat_energy(ctx, rng)
    elif kind == 'msdat_t0':
        case_msdat_t0(ctx, rng)
    elif kind == 'msdat_qtop':
        case_msdat_qtop(ctx, rng)
    elif kind == 'gfms':
        case_gfms(ctx, rng)
    elif kind == 'ms5':
        case_ms5(ctx, rng)
    elif kind.startswith('sfcf_'):
        case_sfcf(ctx, rng, kind[-1])
    elif kind == 'hadrons':
        case_hadrons(ctx, rng)
    elif kind == 'history':
        case_history(ctx, rng, HARD_FMTS[idx % len(HARD_FMTS)])
    elif kind == 'hard':
        case_hard(ctx, rng, HARD_FMTS[idx % len(HARD_FMTS)])
    elif kind == 'scale':
        case_scale(ctx, rng, HARD_FMTS[idx % len(HARD_FMTS)])
    elif kind == 'options':
        case_options(ctx, rng, OPTION_KINDS[idx % len(OPTION_KINDS)])
    elif kind == 'spectators':
        case_spectators(ctx, rng, HARD_FMTS[idx % len(HARD_FMTS)])
    elif kind == 'many':
        case_many(ctx, rng, HARD_FMTS[idx % len(HARD_FMTS)], which=['replicas', 'configurations'][(idx // len(HARD_FMTS)) % 2])
    elif kind == 'distil':
        case_distil(ctx, rng)
    elif kind.startswith('npr_'):
        case_npr(ctx, rng, kind[4:])
    elif kind == 'pbp':
        case_pbp(ctx, rng)
    elif kind == 'flow_hd5':
        case_flow_hd5(ctx, rng)
    elif kind.startswith('fallback_'):
        case_fallback_names(ctx, rng, kind[9:])
    elif kind == 'check_idl':
        case_check_idl(ctx, rng)
