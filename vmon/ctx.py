"""Per-shard monitoring context: counters, verdict bookkeeping, tolerant comparisons.

Nothing in here imports pyerrors.
"""
import hashlib
import json
import math
import traceback
import os

import numpy as np


def digest(*parts):
    h = hashlib.sha1()
    for p in parts:
        if isinstance(p, np.ndarray):
            h.update(np.ascontiguousarray(p).tobytes())
        elif isinstance(p, bytes):
            h.update(p)
        else:
            h.update(repr(p).encode())
        h.update(b'|')
    return h.hexdigest()[:16]


def jsonable(x, depth=0):
    """Best-effort conversion of a witness to something json.dump accepts."""
    if depth > 6:
        return repr(x)[:200]
    if x is None or isinstance(x, (bool, int, str)):
        return x
    if isinstance(x, float):
        if math.isfinite(x):
            return x
        return repr(x)
    if isinstance(x, complex):
        return repr(x)
    if isinstance(x, (np.integer,)):
        return int(x)
    if isinstance(x, (np.floating,)):
        return jsonable(float(x))
    if isinstance(x, np.bool_):
        return bool(x)
    if isinstance(x, range):
        return 'range(%d,%d,%d)' % (x.start, x.stop, x.step)
    if isinstance(x, np.ndarray):
        if x.size > 40:
            return {'ndarray_shape': list(x.shape), 'head': jsonable(x.ravel()[:12].tolist(), depth + 1)}
        return jsonable(x.tolist(), depth + 1)
    if isinstance(x, dict):
        return {str(k): jsonable(v, depth + 1) for k, v in list(x.items())[:60]}
    if isinstance(x, (list, tuple, set, frozenset)):
        l = list(x)
        if len(l) > 60:
            return [jsonable(v, depth + 1) for v in l[:30]] + ['... %d more' % (len(l) - 30)]
        return [jsonable(v, depth + 1) for v in l]
    return repr(x)[:300]


class Skip(Exception):
    """Raised by a case that turns out to lie outside the property's quantifier."""


class Ctx:
    def __init__(self, prop, tier, seed, shard, nshards, repo):
        self.prop = prop
        self.tier = tier
        self.seed = seed
        self.shard = shard
        self.nshards = nshards
        self.repo = repo
        self.evaluations = 0
        self.cases_run = 0
        self.nontrivial = set()
        self.samples = []
        self.violations = []
        self.counters = {}
        self.cells = {}
        self.harness_errors = []
        self.case = None  # (kind, idx)
        self.max_samples = 4
        self.max_viol_per_mech = 3
        self._viol_per_mech = {}

    # ---- bookkeeping -------------------------------------------------------------------
    def ev(self, n=1):
        self.evaluations += n

    def count(self, name, n=1):
        self.counters[name] = self.counters.get(name, 0) + n

    def cell(self, *name):
        k = ':'.join(str(n) for n in name)
        self.cells[k] = self.cells.get(k, 0) + 1

    def nontriv(self, *parts):
        self.nontrivial.add(digest(self.case, *parts) if not parts else digest(*parts))

    def sample(self, obj):
        if len(self.samples) < self.max_samples:
            self.samples.append(jsonable({'case': list(self.case) if self.case else None, 'what': obj}))

    def violation(self, mechanism, detail=None):
        n = self._viol_per_mech.get(mechanism, 0)
        self._viol_per_mech[mechanism] = n + 1
        if n < self.max_viol_per_mech:
            self.violations.append({'mechanism': mechanism, 'case': list(self.case) if self.case else None,
                                    'detail': jsonable(detail), 'count': 1})
        else:
            for v in self.violations:
                if v['mechanism'] == mechanism:
                    v['count'] += 1
                    break

    def require(self, cond, mechanism, detail=None):
        self.ev()
        if not cond:
            self.violation(mechanism, detail() if callable(detail) else detail)
            return False
        return True

    # ---- tolerant comparisons ----------------------------------------------------------
    def close(self, got, exp, mechanism, what='', rtol=1e-10, atol=0.0, scale=None, detail=None):
        """|got-exp| <= atol + rtol*scale, scale defaults to max(|got|,|exp|) (arrays: max norm)."""
        self.ev()
        try:
            g = np.asarray(got, dtype=float)
            e = np.asarray(exp, dtype=float)
        except Exception:
            self.violation(mechanism, {'what': what, 'got': got, 'exp': exp, 'note': 'not numeric'})
            return False
        if g.shape != e.shape:
            self.violation(mechanism, {'what': what, 'got_shape': g.shape, 'exp_shape': e.shape, 'extra': detail})
            return False
        if g.size == 0:
            return True
        if scale is None:
            with np.errstate(all='ignore'):
                scale = max(float(np.max(np.abs(g))) if np.all(np.isfinite(g)) else np.inf,
                            float(np.max(np.abs(e))) if np.all(np.isfinite(e)) else np.inf)
        nan_g = np.isnan(g)
        nan_e = np.isnan(e)
        if np.any(nan_g != nan_e):
            self.violation(mechanism, {'what': what, 'got': g, 'exp': e, 'note': 'nan pattern', 'extra': detail})
            return False
        with np.errstate(all='ignore'):
            diff = np.abs(np.where(nan_g, 0.0, g - e))
            # equal infinities
            diff = np.where((g == e), 0.0, diff)
        worst = float(np.max(diff))
        tol = atol + rtol * (scale if math.isfinite(scale) else 0.0)
        if not worst <= tol:
            i = int(np.argmax(diff))
            self.violation(mechanism, {'what': what, 'worst_abs_diff': worst, 'tol': tol, 'at': i,
                                       'got': g.ravel()[i], 'exp': e.ravel()[i], 'scale': scale, 'extra': detail})
            return False
        return True

    def equal(self, got, exp, mechanism, what='', detail=None):
        self.ev()
        ok = False
        try:
            ok = bool(got == exp)
        except Exception:
            ok = False
        if not ok:
            self.violation(mechanism, {'what': what, 'got': got, 'exp': exp, 'extra': detail})
        return ok

    # ---- trial judgements (alternatives that are all admissible) ---------------------------
    def trial(self):
        t = Ctx(self.prop, self.tier, self.seed, self.shard, self.nshards, self.repo)
        t.case = self.case
        t.max_viol_per_mech = 10 ** 9
        return t

    def absorb(self, t):
        """Take over what a trial context recorded."""
        self.evaluations += t.evaluations
        self.nontrivial |= t.nontrivial
        for v in t.violations:
            for _ in range(v.get('count', 1)):
                self.violation(v['mechanism'], v['detail'])
        for k, v in t.counters.items():
            self.count(k, v)

    # ---- exceptions --------------------------------------------------------------------
    def classify_exception(self, exc):
        """Return ('library', tag) when the innermost repo-or-harness frame lies in the
        checked repository, ('harness', tag) otherwise."""
        tb = traceback.extract_tb(exc.__traceback__)
        repo = os.path.realpath(self.repo) + os.sep
        verif = os.path.realpath(os.path.dirname(os.path.dirname(__file__))) + os.sep
        for fr in reversed(tb):
            if not os.path.isabs(fr.filename) or not os.path.exists(fr.filename):
                continue  # frames of compiled extensions (e.g. 'src/lxml/etree.pyx')
            fn = os.path.realpath(fr.filename)
            if fn.startswith(repo):
                mod = os.path.splitext(fn[len(repo):])[0].replace(os.sep, '.')
                if mod.startswith('pyerrors.'):
                    mod = mod[len('pyerrors.'):]
                return 'library', 'exc:%s@%s.%s' % (type(exc).__name__, mod, fr.name)
            if fn.startswith(verif):
                return 'harness', '%s@%s:%d' % (type(exc).__name__, fn[len(verif):], fr.lineno)
        return 'harness', type(exc).__name__

    def result(self):
        return {
            'prop': self.prop, 'shard': self.shard,
            'evaluations': self.evaluations, 'cases_run': self.cases_run,
            'nontrivial': sorted(self.nontrivial), 'samples': self.samples,
            'violations': self.violations, 'counters': self.counters, 'cells': self.cells,
            'harness_errors': self.harness_errors,
        }


def dump_result(ctx, path):
    with open(path, 'w') as f:
        json.dump(ctx.result(), f)
