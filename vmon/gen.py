"""Seeded generators shared by the workloads: configuration lists, data kinds, observables.

Functions take the pyerrors module as first argument (the workload side imports it; the
reference models never do).
"""
import numpy as np

ENS_POOL = ['A', 'AB', 'A1', 'B', 'ens']
REP_POOL = ['r1', 'r2', 'r10', 'r3']
IDL_KINDS = ['contig', 'strided', 'gapped', 'irregular']
DATA_KINDS = ['white', 'ar', 'const', 'alt', 'counts', 'small', 'large', 'distinct']


def rand_idl(rng, n, kind, start=None, step=None, as_type=None):
    """Configuration list of length n.  gapped: holes on a grid, common spacing kept
    (all differences are multiples of the smallest one, which occurs);
    irregular: random subset of consecutive integers (smallest difference 1 whenever n allows)."""
    start = int(rng.integers(1, 60)) if start is None else start
    if kind == 'contig':
        idl = range(start, start + n)
    elif kind == 'strided':
        s = int(rng.integers(2, 6)) if step is None else step
        idl = range(start, start + n * s, s)
    elif kind == 'gapped':
        g = int(rng.integers(1, 5)) if step is None else step
        m = n + int(rng.integers(1, max(2, n)))
        keep = sorted(rng.choice(m, size=n, replace=False).tolist())
        # force two neighbours so that the smallest gap is g, and at least one hole
        if not any(b - a == 1 for a, b in zip(keep, keep[1:])):
            keep[1] = keep[0] + 1
            keep = sorted(set(keep))
            while len(keep) < n:
                keep.append(keep[-1] + 2)
        if all(b - a == 1 for a, b in zip(keep, keep[1:])):
            keep[-1] += 1
        idl = [start + g * k for k in keep]
    elif kind == 'irregular':
        m = n + int(rng.integers(1, max(2, n)))
        keep = sorted(rng.choice(m, size=n, replace=False).tolist())
        if not any(b - a == 1 for a, b in zip(keep, keep[1:])):
            keep[1] = keep[0] + 1          # smallest difference 1 => every difference is a multiple of it
        if all(b - a == keep[1] - keep[0] for a, b in zip(keep, keep[1:])):
            keep[-1] += 1  # not equally spaced any more (n >= 3)
        idl = [start + k for k in keep]
    else:
        raise ValueError(kind)
    if as_type is None:
        as_type = rng.choice(['native', 'list', 'ndarray'])
    if as_type == 'list':
        return list(idl)
    if as_type == 'ndarray':
        return np.array(list(idl))
    return idl


def rand_data(rng, n, kind, mean=None):
    if kind == 'white':
        x = rng.normal(size=n)
    elif kind == 'ar':
        a = rng.uniform(0.5, 0.95)
        x = np.zeros(n)
        x[0] = rng.normal()
        e = rng.normal(size=n)
        for i in range(1, n):
            x[i] = a * x[i - 1] + e[i]
    elif kind == 'const':
        x = np.zeros(n)
    elif kind == 'alt':
        x = np.array([(-1.0) ** i for i in range(n)]) + rng.normal(scale=1e-3, size=n)
    elif kind == 'counts':
        x = rng.integers(-3, 4, size=n).astype(float)
        if not np.any(x == 0):
            x[int(rng.integers(0, n))] = 0.0
        return x
    elif kind == 'small':
        x = rng.normal(size=n) * 1e-8
    elif kind == 'large':
        x = rng.normal(size=n) * 1e8
    elif kind == 'distinct':
        x = rng.permutation(n).astype(float) + rng.uniform(0.1, 0.9, size=n)
    else:
        raise ValueError(kind)
    if mean is None:
        mean = float(rng.choice([0.0, 1.0, -2.5, 10.0]))
    scale = 1e-8 if kind == 'small' else (1e8 if kind == 'large' else 1.0)
    return x + mean * scale


def table_to_obs(pe, table, forms=None):
    """table {chain: {cfg: sample}} (one ensemble) -> Obs.  forms: {chain: 'list'|'ndarray'|'native'}."""
    names = sorted(table)
    samples, idls = [], []
    for n in names:
        cfgs = sorted(table[n])
        x = np.array([table[n][c] for c in cfgs], dtype=float)
        # the representation of the input must not matter: vary it deterministically with the content
        # (contiguous array, strided view, reversed-twice view, plain list)
        sel = int(abs(x[0]) * 1e6 + len(x)) % 7 if len(x) else 0
        if sel == 1:
            big = np.zeros(2 * len(x))
            big[::2] = x
            x = big[::2]
        elif sel == 2:
            x = x[::-1].copy()[::-1]
        elif sel == 3:
            x = [float(v) for v in x]
        samples.append(x)
        f = (forms or {}).get(n, 'list')
        if f == 'ndarray':
            idls.append(np.array(cfgs, dtype=[np.int64, np.int32, np.int64][sel % 3]))
        elif f == 'native' and len(cfgs) > 1 and all(b - a == cfgs[1] - cfgs[0] for a, b in zip(cfgs, cfgs[1:])):
            idls.append(range(cfgs[0], cfgs[-1] + 1, cfgs[1] - cfgs[0]))
        else:
            idls.append(list(cfgs))
    return pe.Obs(samples, names, idl=idls)


def rand_table(rng, ensemble, reps, nmin=5, nmax=30, idl_kinds=None, data_kinds=None, mean=None, same_layout=False):
    idl_kinds = idl_kinds or IDL_KINDS
    data_kinds = data_kinds or ['white', 'ar', 'distinct']
    tab = {}
    first = None
    for r in reps:
        name = ensemble if r is None else '%s|%s' % (ensemble, r)
        n = int(rng.integers(nmin, nmax + 1))
        if same_layout and first is not None:
            idl = first
        else:
            idl = list(rand_idl(rng, n, str(rng.choice(idl_kinds)), as_type='list'))
            first = idl
        x = rand_data(rng, len(idl), str(rng.choice(data_kinds)), mean)
        tab[name] = {int(c): float(v) for c, v in zip(idl, x)}
    return tab


def rand_reps(rng, maxrep=3, allow_bare=False):
    if allow_bare and rng.random() < 0.15:
        return [None]
    k = int(rng.integers(1, maxrep + 1))
    return sorted(rng.choice(REP_POOL, size=k, replace=False).tolist())


def rand_obs(pe, rng, nens=None, maxrep=3, nmin=5, nmax=30, idl_kinds=None, data_kinds=None, cov_prob=0.0,
             ens_pool=None, mean=None, covname='cvA'):
    """Observable on 1..2 ensembles (sum of per-ensemble primaries), optionally with a covariance input."""
    ens_pool = ens_pool or ENS_POOL
    nens = int(rng.integers(1, 3)) if nens is None else nens
    o = None
    for e in rng.choice(ens_pool, size=nens, replace=False):
        tab = rand_table(rng, str(e), rand_reps(rng, maxrep), nmin, nmax, idl_kinds, data_kinds, mean)
        forms = {n: str(rng.choice(['list', 'ndarray', 'native'])) for n in tab}
        oo = table_to_obs(pe, tab, forms)
        o = oo if o is None else o + oo
    if rng.random() < cov_prob:
        o = o + pe.cov_Obs(float(rng.normal()), float(rng.uniform(0.01, 0.5)) ** 2, covname)
    return o


def subset_table(rng, tab, how):
    """A table on a subset of the configurations (how: full|prefix|stride|random) of every chain."""
    out = {}
    for n, d in tab.items():
        cfgs = sorted(d)
        if how == 'full':
            sub = cfgs
        elif how == 'prefix':
            sub = cfgs[:max(5, int(len(cfgs) * rng.uniform(0.4, 0.9)))]
        elif how == 'stride':
            sub = cfgs[int(rng.integers(0, 2))::2]
        elif how == 'random':
            k = max(5, int(len(cfgs) * rng.uniform(0.4, 0.9)))
            sub = sorted(rng.choice(cfgs, size=min(k, len(cfgs)), replace=False).tolist())
        else:
            raise ValueError(how)
        if len(sub) < 5:
            sub = cfgs
        out[n] = {c: d[c] for c in sub}
    return out


def cov_matrix(rng, dim):
    a = rng.normal(size=(dim, dim))
    m = a @ a.T / dim + 0.05 * np.eye(dim)
    return (m + m.T) / 2
