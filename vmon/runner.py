"""Parent process of a check: shards the workload over the cores, aggregates what the monitors
observed, classifies violations against known_findings.json, writes evidence, prints the verdict.

exit 0  held on everything observed (known findings printed as KNOWN-FINDING lines)
exit 1  violation (VIOLATION property=<id> replay=<path>)
exit 2  inconclusive (deciding monitor never reached, shard timed out, harness error)
"""
import sys
import os
import json
import time
import shutil
import argparse
import importlib
import subprocess
import tempfile
import re

ROOT = os.path.dirname(os.path.dirname(os.path.abspath(__file__)))
PY = os.environ.get('VERIF_PYTHON', '/venv/bin/python')


def ensure_deps():
    deps = os.path.join(ROOT, '.deps')
    if not os.path.isdir(os.path.join(deps, 'mpmath')):
        subprocess.run(['/bin/sh', os.path.join(ROOT, 'setup.sh')], check=False,
                       stdout=subprocess.DEVNULL, stderr=subprocess.DEVNULL)
    return deps


def refs_independent():
    """The reference models must be independent code: no file under vmon/ref may import pyerrors."""
    import ast
    import glob
    bad = []
    for f in glob.glob(os.path.join(ROOT, 'vmon', 'ref', '*.py')):
        tree = ast.parse(open(f).read())
        for node in ast.walk(tree):
            names = []
            if isinstance(node, ast.Import):
                names = [n.name for n in node.names]
            elif isinstance(node, ast.ImportFrom):
                names = [node.module or '']
            if any(n == 'pyerrors' or n.startswith('pyerrors.') for n in names):
                bad.append(os.path.basename(f))
    return bad


def load_known():
    p = os.path.join(ROOT, 'known_findings.json')
    if not os.path.exists(p):
        return []
    with open(p) as f:
        return json.load(f).get('findings', [])


def slug(s):
    return re.sub(r'[^A-Za-z0-9_.-]+', '_', s)[:80]


def run_shards(prop, tier, seed, nshards, budget, timeout, env, only=None):
    work = tempfile.mkdtemp(prefix='vmon_%s_' % prop, dir=os.environ.get('VERIF_WORK', '/var/tmp'))
    procs = []
    for s in range(nshards):
        out = os.path.join(work, 'shard%d.json' % s)
        cmd = [PY, '-m', 'vmon.worker', prop, tier, str(seed), str(s), str(nshards), str(budget), out]
        if only:
            cmd += [only[0], str(only[1])]
        log = open(os.path.join(work, 'shard%d.log' % s), 'w')
        procs.append((s, out, subprocess.Popen(cmd, cwd=ROOT, env=env, stdout=log, stderr=subprocess.STDOUT), log))
    results, problems = [], []
    deadline = time.time() + timeout
    for s, out, p, log in procs:
        try:
            p.wait(timeout=max(1.0, deadline - time.time()))
        except subprocess.TimeoutExpired:
            p.kill()
            p.wait()
            problems.append('shard %d exceeded the wall-clock watchdog (%ds)' % (s, timeout))
        log.close()
        if os.path.exists(out):
            try:
                with open(out) as f:
                    results.append(json.load(f))
            except Exception as e:
                problems.append('shard %d result unreadable: %r' % (s, e))
        else:
            tail = ''
            try:
                with open(os.path.join(work, 'shard%d.log' % s)) as f:
                    tail = f.read()[-1500:]
            except Exception:
                pass
            problems.append('shard %d produced no result (rc=%s): %s' % (s, p.returncode, tail))
    shutil.rmtree(work, ignore_errors=True)
    return results, problems


def main(argv=None):
    ap = argparse.ArgumentParser()
    ap.add_argument('prop')
    ap.add_argument('--tier', default=os.environ.get('VERIF_TIER', 'quick'), choices=['quick', 'thorough'])
    ap.add_argument('--replay', default=None)
    ap.add_argument('--shards', type=int, default=None)
    ap.add_argument('--budget', type=float, default=None)
    args = ap.parse_args(argv)
    prop = args.prop
    seed = int(os.environ.get('VERIF_SEED', '0') or 0)
    t0 = time.time()
    deps = ensure_deps()
    env = dict(os.environ)
    env['PYTHONPATH'] = ROOT + os.pathsep + deps + (os.pathsep + env['PYTHONPATH'] if env.get('PYTHONPATH') else '')
    env['PYTHONHASHSEED'] = '0'
    env['MPLBACKEND'] = 'Agg'
    env['PYERRORS_VERIF'] = '1'
    env['PYTHONDONTWRITEBYTECODE'] = '1'
    env['OMP_NUM_THREADS'] = '1'
    env['OPENBLAS_NUM_THREADS'] = '1'
    env['MKL_NUM_THREADS'] = '1'
    sys.path.insert(0, ROOT)
    sys.path.insert(1, deps)
    mod = importlib.import_module('vmon.props.' + prop)

    only = None
    tier = args.tier
    if args.replay:
        with open(args.replay) as f:
            rp = json.load(f)
        only = (rp['kind'], rp['idx'])
        seed = rp['seed']
        tier = rp['tier']
    plan = mod.plan(tier)
    ncases = sum(n for _, n in plan)
    nshards = 1 if only else (args.shards or min(int(os.environ.get('VERIF_JOBS', '16')), max(1, ncases)))
    budget = args.budget or float(os.environ.get('VERIF_BUDGET', 0) or getattr(mod, 'BUDGET', {}).get(tier, 45 if tier == 'quick' else 540))
    timeout = budget * 3 + 120
    results, problems = run_shards(prop, tier, seed, nshards, budget, timeout, env, only)

    # ---- aggregate --------------------------------------------------------------------
    evaluations = sum(r['evaluations'] for r in results)
    cases_run = sum(r['cases_run'] for r in results)
    nontrivial = set()
    samples, counters, cells, viol, herr = [], {}, {}, {}, []
    for r in results:
        nontrivial.update(r['nontrivial'])
        for s in r['samples']:
            if len(samples) < 6:
                samples.append(s)
        for k, v in r['counters'].items():
            counters[k] = counters.get(k, 0) + v
        for k, v in r['cells'].items():
            cells[k] = cells.get(k, 0) + v
        for v in r['violations']:
            e = viol.setdefault(v['mechanism'], {'mechanism': v['mechanism'], 'count': 0, 'witnesses': []})
            e['count'] += v.get('count', 1)
            if len(e['witnesses']) < 3:
                e['witnesses'].append({'case': v['case'], 'detail': v['detail']})
        herr.extend(r['harness_errors'])
    for h in herr[:5]:
        problems.append('harness error: ' + h)
    for f in refs_independent():
        problems.append('reference model %s imports pyerrors (references must be independent code)' % f)
    deciding = getattr(mod, 'DECIDING', [])
    for d in deciding:
        if counters.get(d, 0) == 0 and not only:
            problems.append('deciding monitor %r observed no events' % d)
    if counters.get('tap_bypass', 0):
        problems.append('a tapped function was entered %d times around its tap' % counters['tap_bypass'])
    if evaluations == 0:
        problems.append('no oracle comparison was made')
    if not only and len(nontrivial) < 2:
        problems.append('fewer than two distinct non-trivial cases')

    known = [k for k in load_known() if k.get('property') == prop]
    known_open = {k['mechanism']: k for k in known if k.get('status') == 'known'}
    lines, new_viol, known_seen = [], [], []
    rdir = os.path.join(os.environ.get('VERIF_REPLAY_DIR') or os.path.join(ROOT, 'replay'), prop)
    for mech, v in sorted(viol.items()):
        if mech in known_open:
            known_seen.append(mech)
            lines.append('KNOWN-FINDING: property=%s %s [%s; %d occurrence(s) this run]' % (prop, known_open[mech].get('what', mech), mech, v['count']))
            continue
        os.makedirs(rdir, exist_ok=True)
        w = v['witnesses'][0]
        path = os.path.join(rdir, slug(mech) + '.json')
        with open(path, 'w') as f:
            json.dump({'property': prop, 'mechanism': mech, 'kind': w['case'][0] if w['case'] else None,
                       'idx': w['case'][1] if w['case'] else None, 'seed': seed, 'tier': tier,
                       'count': v['count'], 'witnesses': v['witnesses']}, f, indent=1)
        new_viol.append(mech)
        lines.append('VIOLATION property=%s replay=%s mechanism=%s count=%d' % (prop, path, mech, v['count']))

    wall = time.time() - t0
    if not only:
        ev = {
            'property_id': prop, 'tier': tier, 'seed': seed, 'level': getattr(mod, 'LEVEL', 'exploration'),
            'coverage': {
                'evaluations': evaluations,
                'distinct_nontrivial': len(nontrivial),
                'rule': getattr(mod, 'RULE', ''),
                'samples': samples if samples else [],
                'cases_run': cases_run,
                'cases_planned': ncases,
                'monitor_events': {k: v for k, v in sorted(counters.items())},
                'cells_hit': len(cells),
                'cells': {k: v for k, v in sorted(cells.items())} if len(cells) <= 400 else {'note': 'too many to list', 'first': sorted(cells)[:100]},
                'known_findings_seen': known_seen,
                'violation_mechanisms': {m: viol[m]['count'] for m in sorted(viol)},
                'inconclusive_reasons': problems,
                'shards': nshards,
            },
            'assumptions': getattr(mod, 'ASSUMPTIONS', []),
            'wall_s': round(wall, 2),
            'violations': len(new_viol),
        }
        if getattr(mod, 'EXHAUSTIVE', False):
            ev['coverage']['exhaustive'] = True
        evdir = os.environ.get('VERIF_EVIDENCE_DIR') or os.path.join(ROOT, 'evidence')
        os.makedirs(evdir, exist_ok=True)
        with open(os.path.join(evdir, prop + '.json'), 'w') as f:
            json.dump(ev, f, indent=1, sort_keys=False)
            f.write('\n')

    for l in lines:
        print(l)
    print('%s tier=%s seed=%d shards=%d cases=%d/%d comparisons=%d distinct_nontrivial=%d cells=%d wall=%.1fs'
          % (prop, tier, seed, nshards, cases_run, ncases if not only else 1, evaluations, len(nontrivial), len(cells), wall))
    interesting = {k: v for k, v in counters.items() if not k.startswith('wall_')}
    print('monitor events: ' + ', '.join('%s=%d' % kv for kv in sorted(interesting.items())))
    for p in problems:
        print('INCONCLUSIVE: ' + p.replace('\n', ' | ')[:2000])
    if new_viol:
        return 1
    if problems:
        return 2
    print('HELD on what was observed')
    return 0


if __name__ == '__main__':
    sys.exit(main())
