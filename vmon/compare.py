"""Field-by-field comparison of a library observable with a dense reference result."""
import numpy as np

from .snap import snap


def drop_null_cov(sn):
    """Covariance inputs whose matrix is identically zero carry no information (the library uses
    one internally for plain numbers inside matrices); they are ignored."""
    sn = dict(sn)
    sn['cov'] = {n: v for n, v in sn['cov'].items() if np.any(np.asarray(v[0]) != 0)}
    return sn


def compare_obs(ctx, got, ref, mech, scale=None, rtol=1e-11, vtol=1e-12, what='', check_rew=False, extra=None,
                value_scale=None, rv_tol=None, grad_floor=0.0):
    """got: library Obs (or a snapshot); ref: result of ref.dense.propagate.
    Violations are tagged mech + ':' + field.  Returns True when everything agreed."""
    g = drop_null_cov(got if isinstance(got, dict) else snap(got))
    ok = True
    vs = max(abs(ref['value']), abs(g['value'])) if value_scale is None else value_scale
    ok &= ctx.close(g['value'], ref['value'], mech + ':value', what, rtol=vtol, scale=vs, atol=1e-300, detail=extra)
    if sorted(g['chains']) != sorted(ref['chains']):
        ctx.ev()
        ctx.violation(mech + ':chain-names', {'what': what, 'got': sorted(g['chains']), 'exp': sorted(ref['chains']), 'extra': extra})
        return False
    for c in sorted(ref['chains']):
        ridl, rd, rr = ref['chains'][c]
        gidl, gd, gr = g['chains'][c]
        if [int(i) for i in gidl] != [int(i) for i in ridl]:
            ctx.ev()
            ctx.violation(mech + ':configuration-list', {'what': what, 'chain': c, 'got': gidl, 'exp': ridl, 'extra': extra})
            ok = False
            continue
        sc = scale
        if sc is None:
            sc = max(float(np.max(np.abs(rd))) if len(rd) else 0.0, float(np.max(np.abs(gd))) if len(gd) else 0.0)
        ok &= ctx.close(gd, rd, mech + ':fluctuations', what + ' chain ' + c, rtol=rtol, scale=sc, atol=1e-300, detail=extra)
        if rr is not None:
            rs = max(abs(rr), abs(gr), vs)
            ok &= ctx.close(gr, rr, mech + ':replica-mean', what + ' chain ' + c, rtol=vtol if rv_tol is None else rv_tol, scale=rs, atol=1e-300, detail=extra)
    rc = {n: v for n, v in ref['cov'].items() if np.any(np.asarray(v) != 0) or n in g['cov']}
    if sorted(g['cov']) != sorted(rc):
        # a reference gradient that is identically zero may legitimately be absent or present
        gz = {n for n, v in g['cov'].items() if np.any(v[1] != 0)}
        rz = {n for n, v in rc.items() if np.any(np.asarray(v) != 0)}
        if gz != rz:
            ctx.ev()
            ctx.violation(mech + ':covariance-names', {'what': what, 'got': sorted(g['cov']), 'exp': sorted(rc), 'extra': extra})
            return False
    for n in sorted(rc):
        if n not in g['cov']:
            continue
        gg = g['cov'][n][1]
        rg = np.asarray(rc[n], dtype=float).ravel()
        sc = max(float(np.max(np.abs(gg))) if gg.size else 0.0, float(np.max(np.abs(rg))) if rg.size else 0.0, grad_floor)
        ok &= ctx.close(gg, rg, mech + ':covariance-gradient', what + ' cov ' + n, rtol=max(rtol, 1e-11), scale=sc, atol=1e-300, detail=extra)
    if check_rew:
        ok &= ctx.equal(bool(g['rew']), bool(ref['rew']), mech + ':reweighted-flag', what, detail=extra)
    return bool(ok)
