"""Well-formedness predicates (property C04) for objects returned by the library.

wellformed_obs(o) returns a list of short problem tags (empty = well formed).
No pyerrors import: objects are inspected by attribute.
"""
import numbers

import numpy as np

from .snap import is_obs, is_cobs, is_corr


def _is_real_scalar(v):
    if isinstance(v, (bool, np.bool_)):
        return False
    if isinstance(v, (complex, np.complexfloating)):
        return False
    if isinstance(v, (float, int, np.floating, np.integer)):
        return True
    if isinstance(v, np.ndarray) and v.ndim == 0 and v.dtype.kind in 'fiu':
        return True
    return False


def wellformed_obs(o, allow_nan=False):
    p = []
    v = o.value
    if not _is_real_scalar(v):
        p.append('value-not-real-scalar:' + type(v).__name__)
    names = list(o.names)
    if not all(isinstance(n, str) for n in names):
        p.append('name-not-str')
        return p
    if len(set(names)) != len(names):
        p.append('names-duplicate')
    try:
        covn = list(o.covobs.keys())
    except Exception:
        p.append('covobs-unreadable')
        return p
    mc = [n for n in names if n not in covn]
    if mc != sorted(mc):
        p.append('chain-names-unsorted')
    # Monte-Carlo names come first, covariance names afterwards
    seen_cov = False
    for n in names:
        if n in covn:
            seen_cov = True
        elif seen_cov:
            p.append('chain-name-after-cov-name')
            break
    for n in covn:
        if n not in names:
            p.append('cov-name-missing-in-names')
        if '|' in n:
            p.append('cov-name-with-separator')
    ens_mc = set(n.split('|')[0] for n in mc)
    for n in covn:
        if n in ens_mc or n in mc:
            p.append('cov-name-collides-with-chain')
    total = 0
    for n in mc:
        if n not in o.idl or n not in o.deltas or n not in o.shape or n not in o.r_values:
            p.append('chain-slot-missing')
            continue
        idl = o.idl[n]
        d = o.deltas[n]
        if isinstance(idl, range):
            l = list(idl)
            if idl.step <= 0:
                p.append('idl-range-not-increasing')
        elif isinstance(idl, list):
            l = idl
            if not all(isinstance(i, (int, np.integer)) and not isinstance(i, (bool, np.bool_)) for i in l):
                p.append('idl-non-integer')
                continue
            if len(l) > 1:
                df = np.diff(np.asarray(l, dtype=np.int64))
                if np.any(df <= 0):
                    p.append('idl-not-strictly-increasing')
                elif len(l) > 1 and np.all(df == df[0]):
                    p.append('idl-equally-spaced-but-list')
        else:
            p.append('idl-type:' + type(idl).__name__)
            continue
        if len(l) == 0:
            p.append('idl-empty')
        if not isinstance(d, np.ndarray) or d.ndim != 1:
            p.append('deltas-not-1d-array')
            continue
        if d.dtype.kind != 'f':
            p.append('deltas-dtype:' + str(d.dtype))
        if len(d) != len(l):
            p.append('len-deltas-ne-len-idl')
        if o.shape[n] != len(l):
            p.append('shape-ne-len-idl')
        if not _is_real_scalar(o.r_values[n]):
            p.append('r_value-not-real')
        if not allow_nan and not np.all(np.isfinite(d)) and np.isfinite(v):
            p.append('deltas-not-finite')
        total += len(l)
    for k in ('idl', 'deltas', 'shape', 'r_values'):
        extra = [n for n in getattr(o, k) if n not in mc]
        if extra:
            p.append('slot-%s-has-foreign-name' % k)
    if o.N != total:
        p.append('N-ne-sum-of-chain-lengths')
    for n in covn:
        c = o.covobs[n]
        cov = np.asarray(c.cov)
        g = np.asarray(c.grad)
        if cov.ndim != 2 or cov.shape[0] != cov.shape[1]:
            p.append('cov-not-square')
            continue
        if not np.array_equal(cov, cov.T):
            p.append('cov-asymmetric')
        elif cov.size and np.min(np.linalg.eigvalsh(cov)) < -1e-12 * max(1.0, np.max(np.abs(cov))):
            p.append('cov-indefinite')
        if g.shape != (cov.shape[0], 1):
            p.append('grad-shape')
        if g.dtype.kind not in 'fiu':
            p.append('grad-dtype:' + str(g.dtype))
    if not isinstance(o.reweighted, (bool, np.bool_)):
        p.append('reweighted-not-bool')
    return p


def wellformed_any(x, allow_nan=False, depth=0):
    """Problems of an Obs / CObs / Corr / container of these; [] for plain data."""
    if depth > 4:
        return []
    if is_obs(x):
        return wellformed_obs(x, allow_nan)
    if is_cobs(x):
        out = []
        for part, nm in ((x.real, 're'), (x.imag, 'im')):
            if is_obs(part):
                out += ['cobs-%s:%s' % (nm, t) for t in wellformed_obs(part, allow_nan)]
            elif not _is_real_scalar(part):
                out.append('cobs-%s-part-type:%s' % (nm, type(part).__name__))
        return out
    if is_corr(x):
        out = []
        for c in x.content:
            if c is not None:
                out += wellformed_any(c, True, depth + 1)
        return sorted(set(out))
    if isinstance(x, np.ndarray) and x.dtype == object:
        out = []
        for i in x.ravel()[:64]:
            out += wellformed_any(i, allow_nan, depth + 1)
        return sorted(set(out))
    if isinstance(x, (list, tuple)):
        out = []
        for i in x[:64]:
            out += wellformed_any(i, allow_nan, depth + 1)
        return sorted(set(out))
    if isinstance(x, dict):
        out = []
        for i in list(x.values())[:64]:
            out += wellformed_any(i, allow_nan, depth + 1)
        return sorted(set(out))
    if type(x).__name__ == 'Fit_result' and hasattr(x, 'fit_parameters'):
        return wellformed_any(list(x.fit_parameters), allow_nan, depth + 1)
    return []
