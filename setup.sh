#!/bin/sh
# offline: put mpmath (50-digit reference arithmetic) beside the harness, /venv untouched
cd "$(dirname "$0")" || exit 1
if [ ! -d .deps/mpmath ]; then
  mkdir -p .deps
  PIP_NO_INDEX=1 /venv/bin/pip install --quiet --no-index --find-links /opt/veriftools/wheels --target .deps mpmath icontract || exit 1
fi
/venv/bin/python -c "import sys; sys.path.insert(0,'.deps'); import mpmath" || exit 1
echo setup ok
