import numpy as np, pyerrors as pe, warnings, sys
from dense import snap
warnings.simplefilter('ignore')
rng=np.random.default_rng(int(sys.argv[1]) if len(sys.argv)>1 else 0)
def ens(n): return n.split('|')[0]
def cov_ref(snaps, errs):
    n=len(snaps); M=np.zeros((n,n))
    for i in range(n):
        for j in range(n):
            a,b=snaps[i],snaps[j]; tot=0.0
            for e in sorted(set(ens(c) for c in a['chains']) & set(ens(c) for c in b['chains'])):
                num=0.0; den=0.0
                for c in a['chains']:
                    if ens(c)!=e or c not in b['chains']: continue
                    da=dict(zip(a['chains'][c][0],a['chains'][c][1])); db=dict(zip(b['chains'][c][0],b['chains'][c][1]))
                    common=sorted(set(da)&set(db))
                    if not common: continue
                    num+=sum(da[k]*db[k] for k in common); den+=np.sqrt(sum(da[k]**2 for k in common)*sum(db[k]**2 for k in common))
                if num!=0.0: tot+=num/den
            for cn in set(a['cov'])&set(b['cov']):
                tot+=a['cov'][cn][1]@a['cov'][cn][0]@b['cov'][cn][1]
            M[i,j]=tot
    d=np.sqrt(np.diag(M)); corr=M/np.outer(d,d)
    return corr, np.outer(errs,errs)*corr
def rand_idl(n, base):
    k=rng.choice(['same','sub','shift'])
    if k=='same': return base
    if k=='sub': return sorted(rng.choice(list(base),size=max(5,len(base)*2//3),replace=False).tolist())
    return [b+int(len(base)//3) for b in base]
bad=0;tot=0
for it in range(150):
    n=int(rng.integers(2,7)); base=list(range(1,31))
    common=rng.normal(size=60)
    obs=[]
    for i in range(n):
        parts=[]
        for e in rng.choice(['A','B'],size=int(rng.integers(1,3)),replace=False):
            names=[f'{e}|r{r}' for r in range(1,int(rng.integers(1,3))+1)]
            S=[];I=[]
            for nm in names:
                idl=rand_idl(30,base); S.append(np.array([common[c] for c in idl])*rng.normal()+rng.normal(size=len(idl))+1); I.append(idl)
            parts.append(pe.Obs(S,names,idl=I))
        o=parts[0]
        for p in parts[1:]: o=o+p
        if rng.random()<0.3: o=o*pe.cov_Obs(1.0,0.01,'cv')
        obs.append(o)
    [o.gm(S=float(rng.choice([0,1,2]))) for o in obs]
    C=pe.covariance(obs); R=pe.covariance(obs,correlation=True)
    corr,cov=cov_ref([snap(o) for o in obs],[o.dvalue for o in obs]); tot+=1
    if not (np.allclose(R,corr,atol=1e-10) and np.allclose(C,cov,rtol=1e-9,atol=1e-14)): bad+=1; print('MISMATCH',it,np.max(np.abs(R-corr)))
    if not np.allclose(np.diag(C),[o.dvalue**2 for o in obs],rtol=1e-10): bad+=1; print('diag')
    if np.max(np.abs(R))>1+1e-12: bad+=1; print('range')
print('tot',tot,'bad',bad)
