import os, shutil, numpy as np
HDR = """[run]

version     2.1
date        2022-01-19 11:03:58 +0100
host        r04n07.palma.wwu
dir         /scratch/tmp/j_kuhl19
user        j_kuhl19
gauge_name  {gauge}
gauge_md5   1ea28326e4090996111a320b8372811d
param_name  sfcf_unity_test.in
param_md5   d881e90d41188a33b8b0f1bd0bc53ea5
param_hash  686af5e712ee2902180f5428af94c6e7
data_name   ./output/data

"""
def block(name, quarks, off, wf, wf2, vals):
    """vals: list of (re, im); bi if wf2 is None"""
    s = "[correlator]\n\nname      %s\nquarks    %s\noffset    %d\nwf        %d\n" % (name, quarks, off, wf)
    if wf2 is None:
        s += "corr_t\n"
        for t, (re, im) in enumerate(vals): s += "%3d %+.16e %+.16e\n" % (t + 1, re, im)
    else:
        s += "wf_2      %d\ncorr\n" % wf2
        re, im = vals[0]; s += "%+.16e %+.16e\n" % (re, im)
    return s + "\n"
def value(rep, cfg, name, wf, wf2, t, part):
    # distinct deterministic numbers
    return (1 + rep) * 1000 + cfg + 0.001 * (hash_name(name)) + 0.01 * wf + 0.0001 * (wf2 or 0) + 1e-6 * t + (0.5 if part else 0)
def hash_name(n): return {'f_A': 1, 'f_1': 2, 'F_V0': 3}[n]
def blocks_for(rep, cfg, name, T=3):
    out = ""
    if name in ('f_A', 'F_V0'):
        for wf in (0, 1): out += block(name, 'lquark lquark', 0, wf, None, [(value(rep, cfg, name, wf, None, t, 0), value(rep, cfg, name, wf, None, t, 1)) for t in range(T)])
    else:
        for wf in (0, 1):
            for wf2 in (0, 1): out += block(name, 'lquark lquark', 0, wf, wf2, [(value(rep, cfg, name, wf, wf2, 0, 0), value(rep, cfg, name, wf, wf2, 0, 1))])
    return out
def write_set(root, layout, reps, cfgs, prefix='data'):
    """reps: list of replica numbers; cfgs: dict rep->list of cfg numbers"""
    if os.path.exists(root): shutil.rmtree(root)
    os.makedirs(root)
    for r in reps:
        if layout == 'c':
            d = f'{root}/{prefix}_r{r}'; os.makedirs(d)
            for c in cfgs[r]:
                with open(f'{d}/{prefix}_r{r}_n{c}', 'w') as f:
                    f.write(HDR.format(gauge='/unity'))
                    for name in ('f_A', 'f_1', 'F_V0'): f.write(blocks_for(r, c, name))
        elif layout == 'o':
            d = f'{root}/{prefix}_r{r}'; os.makedirs(d)
            for c in cfgs[r]:
                os.makedirs(f'{d}/cfg{c}')
                for name in ('f_A', 'f_1', 'F_V0'):
                    with open(f'{d}/cfg{c}/{name}', 'w') as f:
                        f.write(HDR.format(gauge='/unity')); f.write(blocks_for(r, c, name))
        elif layout == 'a':
            for name in ('f_A', 'f_1', 'F_V0'):
                with open(f'{root}/{prefix}_r{r}.{name}', 'w') as f:
                    for c in cfgs[r]:
                        f.write(HDR.format(gauge=f'/{prefix}_r{r}_n{c}')); f.write(blocks_for(r, c, name))
