import numpy as np, pyerrors as pe, warnings
from pyerrors.input import dobs
warnings.simplefilter('ignore')
rng=np.random.default_rng(0)
worst=0; bad=0
for it in range(200):
    nobs=int(rng.integers(1,5)); ol=[]
    for k in range(nobs):
        parts=[]
        for e in rng.choice(['A','Bx'],size=int(rng.integers(1,3)),replace=False):
            reps=sorted(rng.choice(['r1','r2','r10'],size=int(rng.integers(1,4)),replace=False).tolist())
            S=[];I=[];N=[]
            for r in reps:
                n=int(rng.integers(5,15)); kind=rng.integers(0,3)
                idl=range(2,2+n) if kind==0 else (range(1,1+3*n,3) if kind==1 else sorted(rng.choice(np.arange(1,40),size=n,replace=False).tolist()))
                S.append(rng.normal(2.0,0.5,n)); I.append(idl); N.append(f'{e}|{r}')
            parts.append(pe.Obs(S,N,idl=I))
        o=parts[0]
        for p in parts[1:]: o=o+p
        if rng.random()<0.4:
            cv=pe.cov_Obs([1.0,2.0],[[0.1,0.02],[0.02,0.3]],'cv'); o=o*cv[0]+cv[1]
        ol.append(o)
    s=dobs.create_dobs_string(ol,'nm')
    rl=dobs.import_dobs_string(s.encode())
    for o,r in zip(ol,rl):
        mc=[n for n in o.names if n not in o.covobs]; rmc=[n for n in r.names if n not in r.covobs]
        if mc!=rmc or abs(r.value-o.value)>1e-15*abs(o.value): bad+=1; print('names/value',mc,rmc,r.value,o.value); continue
        for nm in mc:
            if list(o.idl[nm])!=list(r.idl[nm]): bad+=1; print('idl',nm); continue
            sc=np.max(np.abs(o.deltas[nm]))+abs(o.r_values[nm]-o.value)+abs(o.value)
            worst=max(worst,np.max(np.abs(o.deltas[nm]-r.deltas[nm]))/sc, abs(o.r_values[nm]-r.r_values[nm])/sc)
        for cn in o.covobs:
            if cn not in r.covobs: bad+=1; print('cov missing'); continue
            if not (np.allclose(o.covobs[cn].cov,r.covobs[cn].cov,rtol=1e-13) and np.allclose(o.covobs[cn].grad,r.covobs[cn].grad,rtol=1e-13)): bad+=1; print('cov',o.covobs[cn].grad.T,r.covobs[cn].grad.T)
print('bad',bad,'worst',worst)
