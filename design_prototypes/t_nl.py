import numpy as np, pyerrors as pe, warnings, io, contextlib
import autograd.numpy as anp
warnings.simplefilter('ignore')
rng=np.random.default_rng(1)
def fit(x,y,func,**kw):
    with contextlib.redirect_stdout(io.StringIO()): return pe.least_squares(x,y,func,silent=True,**kw)
func=lambda p,x: p[0]*anp.exp(-p[1]*x)
x=np.arange(1,8,dtype=float); pt=[2.0,0.4]
y=[pe.Obs([rng.normal(pt[0]*np.exp(-pt[1]*xi),0.02,50)],['e%d'%i]) for i,xi in enumerate(x)]; [o.gm() for o in y]
r=fit(x,y,func)
p=np.array([o.value for o in r]); dy=np.array([o.dvalue for o in y]); yv=np.array([o.value for o in y])
# extracted sensitivities
S=np.array([[ (r[k].deltas['e%d'%i]@y[i].deltas['e%d'%i])/(y[i].deltas['e%d'%i]@y[i].deltas['e%d'%i]) for i in range(len(x))] for k in range(2)])
# own chi2 + FD implicit function
def chi2(p,yv): return np.sum(((yv-p[0]*np.exp(-p[1]*x))/dy)**2)
def grad(p,yv,h=1e-6):
    g=np.zeros(2)
    for k in range(2):
        e=np.zeros(2); e[k]=h*max(1,abs(p[k])); g[k]=(chi2(p+e,yv)-chi2(p-e,yv))/(2*e[k])
    return g
# analytic gradient for accuracy
def agrad(p,yv):
    m=p[0]*np.exp(-p[1]*x); r_=(yv-m)/dy**2
    return np.array([-2*np.sum(r_*np.exp(-p[1]*x)), -2*np.sum(r_*(-x*m))])
print('stationarity |grad|',np.abs(agrad(p,yv)), 'scale', np.sum(np.abs((yv)/dy**2)))
def jac(f,z,h):
    n=len(z); f0=f(z); J=np.zeros((len(f0),n))
    for j in range(n):
        e=np.zeros(n); e[j]=h[j]; J[:,j]=(f(z+e)-f(z-e))/(2*h[j])
    return J
H=jac(lambda pp: agrad(pp,yv),p,1e-5*np.maximum(1,np.abs(p)))
M=jac(lambda yy: agrad(p,yy),yv,1e-5*dy)
Sref=-np.linalg.solve(H,M)
print('IFT-FD vs extracted: max rel',np.max(np.abs(S-Sref)/np.max(np.abs(Sref))))
# refit experiment
i=3; eps=1e-3*dy[i]
def shifted(s):
    yy=list(y); o=pe.Obs([y[i].deltas['e%d'%i]+y[i].r_values['e%d'%i]+s],['e%d'%i]); o.gm(); yy[i]=o; return yy
rp=fit(x,shifted(+eps),func); rm=fit(x,shifted(-eps),func)
dpd=np.array([(rp[k].value-rm[k].value)/(2*eps) for k in range(2)])
print('refit vs extracted rel', np.abs(dpd-S[:,i])/np.abs(S[:,i]))
