import numpy as np, pyerrors as pe, warnings, sys
from dense import snap, propagate
warnings.simplefilter('ignore')
rng=np.random.default_rng(int(sys.argv[1]) if len(sys.argv)>1 else 0)
def rand_idl(n):
    k=rng.choice(['r','s','g'])
    st=int(rng.integers(1,10))
    if k=='r': return range(st,st+n)
    if k=='s':
        s=int(rng.integers(2,4)); return range(st,st+n*s,s)
    full=list(range(st,st+2*n)); keep=sorted(rng.choice(len(full),size=n,replace=False).tolist()); return [full[i] for i in keep]
def rand_obs():
    nens=int(rng.integers(1,3)); o=None
    for e in rng.choice(['A','B','C'],size=nens,replace=False):
        reps=rng.choice(['r1','r2','r3'],size=int(rng.integers(1,4)),replace=False)
        names=[f'{e}|{r}' for r in reps]; S=[];I=[]
        for nm in names:
            n=int(rng.integers(5,15)); S.append(rng.normal(1.5,0.2,n)); I.append(rand_idl(n))
        oo=pe.Obs(S,names,idl=I)
        o = oo if o is None else o+oo
    if rng.random()<0.3:
        o = o + pe.cov_Obs(0.3,0.01,'cv1')
    return o
bad=0;tot=0
for it in range(500):
    a=rand_obs(); b=rand_obs()
    op=rng.choice(['+','*','/','-'])
    if op=='+': r=a+b; g=[1,1]; f=lambda v:v[0]+v[1]
    if op=='-': r=a-b; g=[1,-1]; f=lambda v:v[0]-v[1]
    if op=='*': r=a*b; g=[b.value,a.value]; f=lambda v:v[0]*v[1]
    if op=='/': r=a/b; g=[1/b.value,-a.value/b.value**2]; f=lambda v:v[0]/v[1]
    ref=propagate([snap(a),snap(b)],g,f); got=snap(r); tot+=1
    ok = abs(got['value']-ref['value'])<1e-12*abs(ref['value']) and sorted(got['chains'])==sorted(ref['chains'])
    if ok:
        for c in ref['chains']:
            ok = ok and got['chains'][c][0]==ref['chains'][c][0] and np.allclose(got['chains'][c][1],ref['chains'][c][1],rtol=1e-11,atol=1e-14) and abs(got['chains'][c][2]-ref['chains'][c][2])<1e-12
        ok = ok and sorted(got['cov'])==sorted(ref['cov']) and all(np.allclose(got['cov'][n][1],ref['cov'][n]) for n in ref['cov'])
    if not ok:
        bad+=1
        if bad<4: print('MISMATCH',op,a.names,b.names)
print('tot',tot,'bad',bad)
