import numpy as np, pyerrors as pe, warnings, io, contextlib, sys
import pyerrors.input.sfcf as sfin
from sfw import *
warnings.simplefilter('ignore')
root='/tmp/scratch/sf/set'
reps=[0,1,10]; cfgs={0:list(range(1,13)),1:list(range(5,25,2)),10:[3,4,5,6,7,8,9,10,11,100]}
for layout,ver in (('c','2.0c'),('o','2.0'),('a','2.0a')):
    write_set(root,layout,reps,cfgs)
    for name,ct,wf,wf2 in (('f_A','bi',1,0),('f_1','bb',1,1),('F_V0','bi',0,0)):
        for im in (False,True):
            try:
                with contextlib.redirect_stdout(io.StringIO()):
                    res=sfin.read_sfcf(root,'data',name,quarks='lquark lquark',corr_type=ct,wf=wf,wf2=wf2,version=ver,im=im,silent=True)
            except Exception as e:
                print(layout,name,im,'EXC',type(e).__name__,str(e)[:100]); continue
            ok=True
            for t,o in enumerate(res):
                for r in reps:
                    nm='data_|r%d'%r
                    if nm not in o.names: ok=False; print('name missing',nm,o.names); break
                    if list(o.idl[nm])!=cfgs[r]: ok=False; print('idl',nm,list(o.idl[nm])[:5])
                    exp=np.array([value(r,c,name,wf,(wf2 if ct=='bb' else None),t,int(im)) for c in cfgs[r]])
                    got=o.deltas[nm]+o.r_values[nm]
                    if not np.allclose(got,exp,rtol=1e-15,atol=0): ok=False; print('vals',layout,name,nm,t,got[:3],exp[:3])
            print(layout,name,'im' if im else 're','T',len(res),'OK' if ok else 'BAD')
