import numpy as np, pyerrors as pe, warnings
from gref import analyse
warnings.simplefilter('ignore')
rng=np.random.default_rng(11)
cnt=0
for it in range(3000):
    nrep=int(rng.integers(2,4)); S=[];I=[];N=[]
    for r in range(nrep):
        n=int(rng.integers(5,40)); x=rng.normal(size=n)
        a=rng.uniform(0,0.95)
        for i in range(1,n): x[i]=a*x[i-1]+x[i]
        start=int(rng.integers(1,20)); S.append(x); I.append(range(start,start+n)); N.append('E|r%d'%r)
    o=pe.Obs(S,N,idl=I); te=float(rng.choice([1.5,5,20])); ns=float(rng.choice([0,1,2]))
    try: o.gm(tau_exp=te,N_sigma=ns)
    except Exception as e: continue
    ref=analyse({nm:(o.idl[nm],o.deltas[nm]) for nm in o.names},2.0,te,ns)
    if ref['W']!=o.e_windowsize['E']:
        cnt+=1
        if cnt>2: continue
        print('lens',[len(s) for s in S],'wmax',ref['w_max'],len(o.e_rho['E']),'W code',o.e_windowsize['E'],'ref',ref['W'],'ns',ns)
        W=max(o.e_windowsize['E'],ref['W'])
        print(' rho code',o.e_rho['E'][:W+2]); print(' rho ref', ref['rho'][:W+2]); print(' drho code',o.e_drho['E'][:W+3]); print(' drho ref', [ref['drho'].get(k) for k in range(0,ref['W']+2)])
print('mismatches',cnt)
