import numpy as np, pyerrors as pe, warnings, os
warnings.simplefilter('ignore')
rng=np.random.default_rng(2)
def ob(m=1.0): return pe.Obs([rng.normal(m,0.1,30)],['e'])
T=6
cc=[pe.CObs(ob(),ob(0.5)) if t!=2 else None for t in range(T)]
C=pe.Corr(cc)
R=pe.Corr([ob() if t!=4 else None for t in range(T)])
z=pe.CObs(ob(),ob()); r=ob()
cases={'C+C':lambda:C+C,'C-C':lambda:C-C,'C*C':lambda:C*C,'C+R':lambda:C+R,'C*R':lambda:C*R,'R*C':lambda:R*C,'R+C':lambda:R+C,'R-C':lambda:R-C,'C-R':lambda:C-R,
 'C+r':lambda:C+r,'C*r':lambda:C*r,'C-r':lambda:C-r,'r+C':lambda:r+C,'r*C':lambda:r*C,'r-C':lambda:r-C,'C+z':lambda:C+z,'C*z':lambda:C*z,'C-z':lambda:C-z,
 'C+2':lambda:C+2,'C*2.5':lambda:C*2.5,'C-2':lambda:C-2,'2+C':lambda:2+C,'2.5*C':lambda:2.5*C,'2-C':lambda:2-C,'C+1j':lambda:C+(1+2j),'C*1j':lambda:C*(1+2j),'C-1j':lambda:C-(1+2j),
 'C/r':lambda:C/r,'C/2':lambda:C/2.0,'-C':lambda:-C, 'z*C':lambda:z*C,'z+C':lambda:z+C,'1j*C':lambda:(1+2j)*C, 'C/z': lambda: C/z, 'C/C': lambda: C/C, 'C/R': lambda: C/R}
for k,f in cases.items():
    try:
        x=f(); print(k,'ok',type(x).__name__, [c is None for c in x.content] if isinstance(x,pe.Corr) else '', type(x.content[0][0]).__name__ if isinstance(x,pe.Corr) and x.content[0] is not None else '')
    except Exception as e: print(k,'EXC',type(e).__name__,str(e)[:80])
from pyerrors.input import dobs
o=ob(); dobs.write_dobs([o],'/tmp/scratch/x_d','n',gz=False)
try: print(dobs.read_dobs('/tmp/scratch/x_d',gz=False))
except Exception as e: print('read_dobs gz=False EXC',type(e).__name__,str(e)[:90])
os.remove('/tmp/scratch/x_d.xml')
