import numpy as np, math

def extent(idl, gap):
    # documented convention (see DESIGN): range: len*step//gap ; list: (last-first)//gap + 1  [post-fix], code uses (last-first+1)//gap
    if isinstance(idl, range):
        return len(idl) * idl.step // gap
    return (idl[-1] - idl[0] + 1) // gap   # current-tree convention

def analyse(chains, S=2.0, tau_exp=0.0, N_sigma=1.0, extent_fn=extent):
    """chains: dict name-> (idl(list or range), deltas ndarray). single ensemble"""
    gaps = []
    for name, (idl, d) in chains.items():
        l = list(idl)
        gaps.append(min(b - a for a, b in zip(l, l[1:])))
    gap = min(gaps)
    N = sum(len(d) for _, d in chains.values())
    w_max = max(extent_fn(idl, gap) for idl, _ in chains.values()) // 2
    num = np.zeros(w_max); cnt = np.zeros(w_max)
    for name, (idl, d) in chains.items():
        pos = {c: i for i, c in enumerate(idl)}
        l = list(idl)
        for t in range(w_max):
            s = 0.0; k = 0
            for i, c in enumerate(l):
                j = pos.get(c + t * gap)
                if j is not None:
                    s += d[i] * d[j]; k += 1
            num[t] += s; cnt[t] += k
    cnt[cnt < 1] = 1.0
    Gamma = num / cnt
    res = dict(N=N, w_max=w_max, gap=gap)
    if abs(Gamma[0]) < 10 * np.finfo(float).tiny:
        res.update(tauint=0.5, dtauint=0.0, dvalue=0.0, ddvalue=0.0, W=0, rho=np.zeros(w_max))
        return res
    rho = Gamma / Gamma[0]
    ntau = np.cumsum(np.concatenate(([0.5], rho[1:])))
    ntau[ntau <= 0.5] = 0.5 + np.finfo(float).eps
    ndtau = ntau * 2 * np.sqrt(np.abs(np.arange(w_max) + 0.5 - ntau) / N)
    ndtau[0] = 0.0
    def drho(t):
        s = 0.0
        for k in range(1, w_max - t):
            a = rho[k + t] + rho[abs(k - t)] - 2 * rho[k] * rho[t]
            s += a * a
        return math.sqrt(s / N)
    res.update(rho=rho, ntau=ntau, ndtau=ndtau)
    if tau_exp > 0:
        if w_max // 2 <= 1:
            raise ValueError('need 8')
        dr = {1: drho(1)}
        for n in range(1, w_max // 2):
            dr[n + 1] = drho(n + 1)
            if rho[n] - N_sigma * dr[n] < 0 or n >= w_max // 2 - 2:
                tau = ntau[n] * (1 + (2 * n + 1) / N) / (1 + 1 / N) + tau_exp * abs(rho[n + 1])
                dtau = math.sqrt(ndtau[n] ** 2 + tau_exp ** 2 * dr[n + 1] ** 2)
                dv = math.sqrt(2 * tau * Gamma[0] * (1 + 1 / N) / N)
                res.update(tauint=tau, dtauint=dtau, dvalue=dv, ddvalue=dv * math.sqrt((n + 0.5) / N), W=n, drho=dr)
                break
    elif S == 0:
        dv = math.sqrt(Gamma[0] / (N - 1))
        res.update(tauint=0.5, dtauint=0.0, dvalue=dv, ddvalue=dv * math.sqrt(0.5 / N), W=0, drho={})
    else:
        for n in range(1, w_max):
            tw = S / math.log((2 * ntau[n] + 1) / (2 * ntau[n] - 1))
            g = math.exp(-n / tw) - tw / math.sqrt(n * N)
            if g < 0 or n >= w_max - 1:
                tau = ntau[n] * (1 + (2 * n + 1) / N) / (1 + 1 / N)
                dv = math.sqrt(2 * tau * Gamma[0] * (1 + 1 / N) / N)
                res.update(tauint=tau, dtauint=ndtau[n], dvalue=dv, ddvalue=dv * math.sqrt((n + 0.5) / N), W=n, drho={n: drho(n)}, gW=g)
                break
    return res
