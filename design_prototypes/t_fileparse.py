import struct, numpy as np
d='/repo/tests/data/openqcd_test/'
b=open(d+'sfqcdr1.rwms.dat','rb').read(); print('v1.6 size',len(b))
off=0
nrw=struct.unpack_from('i',b,off)[0]; off+=4
nfct=struct.unpack_from('%di'%nrw,b,off); off+=4*nrw
nsrc=struct.unpack_from('%di'%nrw,b,off); off+=4*nrw
print('nrw',nrw,'nfct',nfct,'nsrc',nsrc,'hdr',off)
rec=4+sum(nfct[i]*2*8*nsrc[i] for i in range(nrw)); print('recsize',rec,'nrec',(len(b)-off)/rec)
print('cfgs',[struct.unpack_from('i',b,off+k*rec)[0] for k in range(int((len(b)-off)/rec))])
b=open(d+'openqcd2r1.ms1.dat','rb').read(); print('v2.0 size',len(b))
off=0
nrw2=struct.unpack_from('i',b,off)[0]; off+=4; nrw=nrw2//2
nfct=struct.unpack_from('%di'%nrw,b,off); off+=4*nrw
nsrc=struct.unpack_from('%di'%nrw,b,off); off+=4*nrw
z=struct.unpack_from('i',b,off)[0]; off+=4
print('nrw2',nrw2,'nfct',nfct,'nsrc',nsrc,'zero',z,'hdr',off)
# first record
cfg=struct.unpack_from('i',b,off)[0]; off+=4; print('cfg',cfg)
for i in range(nrw):
    for rep in range(2):
        dd=struct.unpack_from('i',b,off)[0]; off+=4
        n=struct.unpack_from('%di'%dd,b,off); off+=4*dd
        size=struct.unpack_from('i',b,off)[0]; off+=4
        m=int(np.prod(n)); vals=struct.unpack_from('%dd'%(m*size//8),b,off); off+=m*size
        print(' rw',i,'arr',rep,'d',dd,'n',n,'size',size,'first vals',vals[:4])
print('next cfg', struct.unpack_from('i',b,off)[0], 'record bytes', off-  (4+8*nrw+4))
b=open(d+'sfqcdr1.gfms.dat','rb').read(); print('gfms size',len(b)); print(struct.unpack_from('<iii',b,0),struct.unpack_from('<iii',b,12),struct.unpack_from('<dd',b,24))
b=open(d+'openqcd2r1.ms.dat','rb').read(); print('ms size',len(b)); print(struct.unpack_from('iii',b,0),struct.unpack_from('d',b,12)); dn,nn,tmax=struct.unpack_from('iii',b,0); rec=4+3*8*tmax*(nn+1); print('rec',rec,(len(b)-20)/rec,[struct.unpack_from('i',b,20+k*rec)[0] for k in range(int((len(b)-20)/rec))])
b=open(d+'ms5_xsf_T24L16r1.ms5_xsf_dd.dat','rb').read(); print('ms5 size',len(b)); print(struct.unpack_from('dddd',b,0),struct.unpack_from('ii',b,32))
