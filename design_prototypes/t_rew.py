import numpy as np, pyerrors as pe, warnings
from dense import snap, propagate
warnings.simplefilter('ignore')
rng=np.random.default_rng(0)
def from_table(tab):
    """tab: {chain:{cfg:sample}} -> snapshot like snap() (value, chains(idl,deltas,rmean))"""
    chains={}; tot=0; n=0
    for c,d in tab.items():
        idl=sorted(d); x=np.array([d[k] for k in idl]); m=x.mean(); chains[c]=(idl,x-m,m); tot+=x.sum(); n+=len(x)
    return dict(value=tot/n,chains=chains,cov={},rew=False)
bad=0;tot=0
for it in range(300):
    reps=['E|r1','E|r2','E|r3'][:int(rng.integers(1,4))]
    wt={}
    for r in reps:
        n=int(rng.integers(8,25)); kind=rng.integers(0,3)
        idl=list(range(2,2+n)) if kind==0 else (list(range(1,1+3*n,3)) if kind==1 else sorted(rng.choice(np.arange(1,60),size=n,replace=False).tolist()))
        wt[r]={c:float(rng.uniform(0.5,1.5)) for c in idl}
    w=pe.Obs([np.array([wt[r][c] for c in sorted(wt[r])]) for r in reps],reps,idl=[sorted(wt[r]) for r in reps])
    oreps=sorted(rng.choice(reps,size=int(rng.integers(1,len(reps)+1)),replace=False).tolist())
    ot={}
    for r in oreps:
        full=sorted(wt[r]); k=rng.integers(0,3)
        sub=full if k==0 else (full[::2] if k==1 else sorted(rng.choice(full,size=max(5,len(full)//2),replace=False).tolist()))
        if len(sub)<5: sub=full
        ot[r]={c:float(rng.normal(3,1)) for c in sub}
    o=pe.Obs([np.array([ot[r][c] for c in sorted(ot[r])]) for r in oreps],oreps,idl=[sorted(ot[r]) for r in oreps])
    allc=bool(rng.integers(0,2))
    res=pe.reweight(w,[o],all_configs=allc)[0]
    num=from_table({r:{c:wt[r][c]*ot[r][c] for c in ot[r]} for r in oreps})
    den=from_table(wt) if allc else from_table({r:{c:wt[r][c] for c in ot[r]} for r in oreps})
    ref=propagate([num,den],[1/den['value'],-num['value']/den['value']**2],lambda v:v[0]/v[1])
    got=snap(res); tot+=1
    ok=abs(got['value']-ref['value'])<1e-13*abs(ref['value']) and sorted(got['chains'])==sorted(ref['chains']) and res.reweighted is True
    if ok:
        for c in ref['chains']:
            ok=ok and got['chains'][c][0]==ref['chains'][c][0] and np.allclose(got['chains'][c][1],ref['chains'][c][1],rtol=1e-11,atol=1e-15)
    if not ok: bad+=1; print('MISMATCH',reps,oreps,allc)
print('tot',tot,'bad',bad)
