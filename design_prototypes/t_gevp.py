import numpy as np, pyerrors as pe, warnings
warnings.simplefilter('ignore')
rng=np.random.default_rng(2)
N=3; T=12
E=[pe.Obs([rng.normal(e,0.01,60)],['ens']) for e in (0.3,0.7,1.2)]
psi=[[pe.Obs([rng.normal(rng.normal(),0.01,60)],['ens']) for i in range(N)] for n in range(N)]
mats=[]
for t in range(T):
    M=np.empty((N,N),dtype=object)
    for i in range(N):
        for j in range(N):
            M[i,j]=sum(psi[n][i]*psi[n][j]*np.exp(-E[n]*t) for n in range(N))
    mats.append(M)
C=pe.Corr(mats)
t0=2
for vo in (False,True):
  for method in ('eigh','cholesky'):
    for state in range(N):
        ev=C.Eigenvalue(t0,state=state,vector_obs=vo,method=method)
        errs=[]
        for t in range(t0+1,T):
            exp=np.exp(-E[state]*(t-t0)); d=ev[t]-exp
            errs.append((abs(d.value)/exp.value, np.max(np.abs(d.deltas['ens']))/np.max(np.abs(exp.deltas['ens']))))
        print(vo,method,state,'max rel val err %.2e, max rel delta err %.2e'%(max(e[0] for e in errs),max(e[1] for e in errs)), [x is None for x in ev.content][:4])
vs=C.GEVP(t0,sort='Eigenvector',ts=t0+2)
print(np.array(vs[0][t0+1]), np.array(vs[0][T-1]))
# mpm
c=[sum(psi[n][0]*psi[n][0]*np.exp(-E[n]*t) for n in range(2)) for t in range(10)]
en=pe.mpm.matrix_pencil_method(c,k=2)
for k in range(2):
    d=en[k]-E[k]; print('mpm',k,en[k].value,E[k].value, np.max(np.abs(d.deltas['ens']))/np.max(np.abs(E[k].deltas['ens'])))
