import numpy as np, pyerrors as pe, warnings, io, contextlib, sys, os
import pyerrors.input.sfcf as sfin
from sfw import *
warnings.simplefilter('ignore')
root='/tmp/scratch/sf/set'
reps=[0,1]; cfgs={0:list(range(1,8)),1:list(range(5,19,2))}
def expect(name,ct,wf,wf2,im,t,r): return np.array([value(r,c,name,wf,(wf2 if ct=='bb' else None),t,int(im)) for c in cfgs[r]])
def run(layout,ver,target,name,ct,wf,wf2):
    write_set(root,layout,reps,cfgs)
    full=open(target,'rb').read(); res={}
    for off in range(len(full)):
        open(target,'wb').write(full[:off])
        try:
            with contextlib.redirect_stdout(io.StringIO()):
                r=sfin.read_sfcf(root,'data',name,quarks='lquark lquark',corr_type=ct,wf=wf,wf2=wf2,version=ver,silent=True)
            ok=True
            for t,o in enumerate(r):
                for rp in reps:
                    nm='data_|r%d'%rp
                    if list(o.idl[nm])!=cfgs[rp] or not np.allclose(o.deltas[nm]+o.r_values[nm],expect(name,ct,wf,wf2,False,t,rp),rtol=1e-15,atol=0): ok=False
            res.setdefault('ret_ok' if ok else 'ret_WRONG',[]).append(off)
        except Exception as e:
            res.setdefault('exc_'+type(e).__name__,[]).append(off)
    open(target,'wb').write(full)
    print(layout,name,'wf',wf,'len',len(full),{k:(len(v),v[:3],v[-2:]) for k,v in res.items()})
run('o','2.0',root+'/data_r0/cfg7/f_A','f_A','bi',1,0)
run('o','2.0',root+'/data_r0/cfg3/f_A','f_A','bi',0,0)
run('c','2.0c',root+'/data_r1/data_r1_n9','F_V0','bi',1,0)
run('c','2.0c',root+'/data_r1/data_r1_n9','f_A','bi',0,0)
run('a','2.0a',root+'/data_r1.F_V0','F_V0','bi',0,0)
