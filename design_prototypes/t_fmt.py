import numpy as np, math, re
from decimal import Decimal, ROUND_HALF_EVEN, getcontext
from pyerrors.obs import _format_uncertainty
from pyerrors.fits import _extract_val_and_dval
getcontext().prec=60
rng=np.random.default_rng(0)
pat=re.compile(r'^(-?\d+(?:\.(\d+))?)\((\d+(?:\.(\d+))?)\)$')
bad={}
def check(v,e,sig):
    s=_format_uncertainty(v,e,sig)
    m=pat.match(s)
    if not m: return 'nomatch',s
    vs,vdec,es,edec=m.group(1),m.group(2),m.group(3),m.group(4)
    nd=len(vdec) if vdec else 0
    # expected number of decimals
    fexp=math.floor(Decimal(e).log10())
    nd_exp=max(0,sig-1-fexp)
    if nd!=nd_exp: return 'decimals',s
    q=Decimal(1).scaleb(-nd)
    # printed error meaning
    if edec is not None: pe_=Decimal(es)
    else: pe_=Decimal(es)*q if nd>0 else Decimal(es)
    pv=Decimal(vs)
    if abs(pe_-Decimal(e))>q/2: return 'err_round',s
    if abs(pv-Decimal(v))>q/2: return 'val_round',s
    # prior parser
    pv2,pe2=_extract_val_and_dval(s)
    if abs(Decimal(pv2)-pv)>Decimal(abs(pv2))*Decimal(2)**-50 or abs(Decimal(pe2)-pe_)>Decimal(pe2)*Decimal(2)**-50: return 'parser',s+' -> %r %r'%(pv2,pe2)
    return None,s
n=0
for it in range(200000):
    ee=10**rng.uniform(-15,15); 
    if rng.random()<0.3:
        k=int(rng.integers(-15,15)); ee=float(np.nextafter(10.0**k, rng.choice([0,np.inf]))) if rng.random()<0.5 else 10.0**k*float(rng.choice([0.95,0.995,0.9995,0.99995,0.999995,1.0,1.05]))
    vv=rng.choice([-1,1])*10**rng.uniform(-15,15)*ee if rng.random()<0.5 else rng.choice([-1,1])*10**rng.uniform(-15,15)
    sig=int(rng.integers(1,7))
    r,s=check(float(vv),float(ee),sig); n+=1
    if r: bad.setdefault(r,[]).append((vv,ee,sig,s))
print(n,{k:len(v) for k,v in bad.items()})
for k,v in bad.items():
    for x in v[:6]: print(k,x)
