import numpy as np, math, re
from decimal import Decimal, getcontext
from pyerrors.obs import _format_uncertainty
from pyerrors.fits import _extract_val_and_dval
getcontext().prec=80
rng=np.random.default_rng(1)
pat=re.compile(r'^(-?\d+(?:\.(\d+))?)\((\d+(?:\.(\d+))?)\)$')
bad={}
def check(v,e,sig):
    s=_format_uncertainty(v,e,sig)
    m=pat.match(s)
    if not m: return 'nomatch',s
    vs,vdec,es,edec=m.group(1),m.group(2),m.group(3),m.group(4)
    nd=len(vdec) if vdec else 0
    if edec is not None and len(edec)!=nd: return 'dec_mismatch',s
    q=Decimal(1).scaleb(-nd)
    pe_=Decimal(es) if edec is not None else (Decimal(es)*q)
    pv=Decimal(vs)
    slack=Decimal(4)*Decimal(float(np.spacing(e)))
    slackv=Decimal(4)*Decimal(float(np.spacing(abs(v))))
    if abs(pe_-Decimal(e))>q/2+slack: return 'err_round',s
    if abs(pv-Decimal(v))>q/2+slackv: return 'val_round',s
    units=pe_/q
    lo=Decimal(10)**(sig-1); hi=Decimal(10)**sig
    if nd>0 and not (lo<=units<=hi): return 'sig',s
    if nd==0 and units<lo: return 'sig0',s
    pv2,pe2=_extract_val_and_dval(s)
    if Decimal(pv2)!=Decimal(float(pv)) or Decimal(pe2)!=Decimal(float(pe_)): return 'parser',s+' -> %r %r'%(pv2,pe2)
    return None,s
n=0
for it in range(200000):
    ee=10**rng.uniform(-15,15)
    if rng.random()<0.4:
        k=int(rng.integers(-15,15)); ee=float(np.nextafter(10.0**k, rng.choice([0,np.inf]))) if rng.random()<0.5 else 10.0**k*float(rng.choice([0.95,0.995,0.9995,0.99995,0.999995,1.0,1.05]))
    vv=rng.choice([-1,1])*10**rng.uniform(-15,15)*ee if rng.random()<0.5 else rng.choice([-1,1])*10**rng.uniform(-15,15)
    sig=int(rng.integers(1,7))
    r,s=check(float(vv),float(ee),sig); n+=1
    if r: bad.setdefault(r,[]).append((vv,ee,sig,s))
print(n,{k:len(v) for k,v in bad.items()})
for k,v in bad.items():
    for x in v[:8]: print(k,x)
