import numpy as np
def snap(o):
    cov = set(o.covobs.keys())
    return dict(value=o.value, chains={n: (list(o.idl[n]), np.array(o.deltas[n], float), o.r_values[n]) for n in o.names if n not in cov},
                cov={n: (np.array(o.covobs[n].cov), np.array(o.covobs[n].grad).ravel()) for n in cov}, rew=bool(o.reweighted))
def ens(n): return n.split('|')[0]
def propagate(ins, grads, f):
    """ins: list of snaps; grads: list of floats; f: function on list of floats -> float"""
    chains = sorted(set(n for s in ins for n in s['chains']))
    union = {c: sorted(set().union(*[set(s['chains'][c][0]) for s in ins if c in s['chains']])) for c in chains}
    out = {}
    for c in chains:
        pos = {cfg: i for i, cfg in enumerate(union[c])}
        acc = np.zeros(len(union[c]))
        for s, g in zip(ins, grads):
            if c not in s['chains']: continue
            idl, d, _ = s['chains'][c]
            own_in_ens = [k for k in s['chains'] if ens(k) == ens(c)]
            all_in_ens = [k for k in chains if ens(k) == ens(c)]
            repf = 1.0
            if len(own_in_ens) < len(all_in_ens):
                repf = sum(len(union[k]) for k in all_in_ens) / sum(len(union[k]) for k in own_in_ens)
            fac = len(union[c]) / len(idl) * repf
            for cfg, dv in zip(idl, d):
                acc[pos[cfg]] += g * fac * dv
        rv = f([s['chains'][c][2] if c in s['chains'] else s['value'] for s in ins])
        out[c] = (union[c], acc, rv)
    covn = sorted(set(n for s in ins for n in s['cov']))
    cov = {}
    for n in covn:
        gr = 0
        for s, g in zip(ins, grads):
            if n in s['cov']: gr = gr + g * s['cov'][n][1]
        cov[n] = gr
    return dict(value=f([s['value'] for s in ins]), chains=out, cov=cov, rew=any(s['rew'] for s in ins))
