import numpy as np, pyerrors as pe, warnings
from gref import analyse
warnings.simplefilter('ignore')
rng=np.random.default_rng(7)
cnt=0
for it in range(3000):
    n=int(rng.integers(8,40)); x=rng.normal(size=n)
    a=rng.uniform(0,0.95)
    for i in range(1,n): x[i]=a*x[i-1]+x[i]
    kind=rng.choice(['stride','gapped'])
    start=int(rng.integers(1,20))
    if kind=='stride':
        s=int(rng.integers(2,4)); idl=range(start,start+n*s,s)
    else:
        g=int(rng.integers(1,3)); full=list(range(start,start+2*n*g,g)); keep=sorted(rng.choice(len(full),size=n,replace=False).tolist()); idl=[full[i] for i in keep]
        l=idl; gg=min(b-a for a,b in zip(l,l[1:]))
        if not all((b-a)%gg==0 for a,b in zip(l,l[1:])): continue
    o=pe.Obs([x],['E'],idl=[idl]); te=float(rng.choice([1.5,5,20])); ns=float(rng.choice([0,1,2]))
    try: o.gm(tau_exp=te,N_sigma=ns)
    except Exception as e: continue
    ref=analyse({'E':(o.idl['E'],o.deltas['E'])},2.0,te,ns)
    if ref['W']!=o.e_windowsize['E']:
        cnt+=1
        if cnt>2: continue
        print(kind,'n',n,'wmax',ref['w_max'],len(o.e_rho['E']),'W code',o.e_windowsize['E'],'ref',ref['W'],'ns',ns, type(o.idl['E']).__name__)
        W=o.e_windowsize['E']
        print(' rho code',o.e_rho['E'][:W+2]); print(' rho ref', ref['rho'][:W+2]); print(' drho code',o.e_drho['E'][:W+3]); print(' drho ref', [ref['drho'].get(k) for k in range(0,ref['W']+2)])
print('mismatches',cnt)
