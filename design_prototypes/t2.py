import numpy as np, pyerrors as pe, warnings
from gref import analyse
warnings.simplefilter('ignore')
rng=np.random.default_rng(5)
for it in range(300):
    n=int(rng.integers(8,40)); x=rng.normal(size=n)
    a=rng.uniform(0,0.95)
    for i in range(1,n): x[i]=a*x[i-1]+x[i]
    o=pe.Obs([x],['E']); te=float(rng.choice([1.5,5,20])); ns=float(rng.choice([0,1,2]))
    try: o.gm(tau_exp=te,N_sigma=ns)
    except Exception as e: continue
    ref=analyse({'E':(o.idl['E'],o.deltas['E'])},2.0,te,ns)
    if ref['W']!=o.e_windowsize['E']:
        print('n',n,'wmax',ref['w_max'],'W code',o.e_windowsize['E'],'ref',ref['W'],'ns',ns)
        W=o.e_windowsize['E']
        print(' rho',o.e_rho['E'][:W+2]); print(' drho code',o.e_drho['E'][:W+3]); print(' drho ref', [ref['drho'].get(k) for k in range(1,ref['W']+2)])
        break
