import numpy as np, pyerrors as pe, warnings, json as pyjson, jsonschema, sys
import pyerrors.input.json as jio
warnings.simplefilter('ignore')
rng=np.random.default_rng(0)
schema=pyjson.load(open('/repo/examples/json_schema.json'))
def mk(scale=1.0, irregular=False):
    names=['A|r1','A|r2']; S=[];I=[]
    for nm in names:
        n=int(rng.integers(5,20))
        idl=sorted(rng.choice(np.arange(1,60),size=n,replace=False).tolist()) if irregular else range(3,3+2*n,2)
        S.append(rng.normal(1.0,0.3,n)*scale); I.append(idl)
    return pe.Obs(S,names,idl=I)
worst=0
for it in range(300):
    sc=10.0**rng.uniform(-200,200); o=mk(sc, irregular=rng.random()<0.5)
    if rng.random()<0.4: o=o*pe.cov_Obs([1.0,2.0],[[0.1,0.02],[0.02,0.3]],'cv')[0] + pe.cov_Obs(0.0,1.0,'c2')*sc
    if rng.random()<0.3: o=o+mk(sc)*2
    o.tag={'a':[1,2,None],'b':'x'} if rng.random()<0.5 else None
    s=jio.create_json_string(o, indent=int(rng.integers(0,2)))
    doc=pyjson.loads(s)
    jsonschema.validate(doc, schema)
    r=jio.import_json_string(s, verbose=False)
    assert sorted(r.names)==sorted(o.names) and r.value==o.value, (r.names,o.names)
    for nm in o.names:
        if nm in o.covobs:
            assert np.array_equal(r.covobs[nm].cov,o.covobs[nm].cov) and np.array_equal(r.covobs[nm].grad,o.covobs[nm].grad); continue
        assert list(r.idl[nm])==list(o.idl[nm]) and type(r.idl[nm])==type(o.idl[nm]), (type(r.idl[nm]),type(o.idl[nm]))
        scale=np.max(np.abs(o.deltas[nm]))+abs(o.r_values[nm]-o.value)
        e1=np.max(np.abs(r.deltas[nm]-o.deltas[nm]))/scale; e2=abs(r.r_values[nm]-o.r_values[nm])/(abs(o.r_values[nm])+scale)
        worst=max(worst,e1,e2)
    assert r.tag==o.tag
print('worst rel err',worst)
# Corr with None and matrix
base=[pe.Obs([rng.normal(1,0.1,12),rng.normal(1,0.1,9)],['A|r1','A|r2'],idl=[range(1,13),[1,2,4,7,8,9,11,12,15]]) for t in range(6)]
c=pe.Corr([None if t in (0,3) else base[t] for t in range(6)]); c.tag='hello'; c.prange=[1,4]
s=jio.create_json_string(c); 
try:
    doc=pyjson.loads(s); jsonschema.validate(doc,schema); print('corr schema ok; NaN tokens:', s.count('NaN'))
except Exception as e: print('corr schema/parse', type(e).__name__, str(e)[:200])
r=jio.import_json_string(s,verbose=False); print([x is None for x in r.content], r.tag, r.prange)
