import numpy as np, pyerrors as pe, struct, os, warnings, io, contextlib
warnings.simplefilter('ignore')
rng=np.random.default_rng(0)
d='/tmp/scratch/fl'
def write_ms(fn, ncfg, dn=2, nn=3, tmax=4, eps=0.01, first=1, step=1):
    recs=[]
    with open(fn,'wb') as f:
        f.write(struct.pack('iii',dn,nn,tmax)); f.write(struct.pack('d',eps))
        hdr=f.tell(); bounds=[hdr]
        for i in range(ncfg):
            nc=first+i*step
            W=rng.normal(size=tmax*(nn+1)); Y=rng.normal(size=tmax*(nn+1)); Q=rng.normal(size=tmax*(nn+1))
            f.write(struct.pack('i',nc)); f.write(struct.pack('d'*len(W),*W)); f.write(struct.pack('d'*len(Y),*Y)); f.write(struct.pack('d'*len(Q),*Q))
            recs.append((nc,W,Y,Q)); bounds.append(f.tell())
    return recs,bounds
fn=d+'/ensr1.ms.dat'
recs,bounds=write_ms(fn,8)
full=open(fn,'rb').read()
def run(fun):
    with contextlib.redirect_stdout(io.StringIO()):
        return fun()
E=run(lambda: pe.input.openQCD._extract_flowed_energy_density(d,'ens',1,0,2))
k=sorted(E)[1]; print('full N',E[k].N, E[k].idl)
res={}
for off in range(len(full)):
    open(fn,'wb').write(full[:off])
    ncomplete=sum(1 for b in bounds[1:] if b<=off)
    try:
        E=run(lambda: pe.input.openQCD._extract_flowed_energy_density(d,'ens',1,0,2))
        n=E[k].N; res.setdefault(('ret',n-ncomplete),[]).append(off)
    except Exception as e:
        res.setdefault(('exc',type(e).__name__),[]).append(off)
for key,v in res.items(): print('Eflow',key,len(v),v[:5])
res={}
for off in range(len(full)):
    open(fn,'wb').write(full[:off])
    ncomplete=sum(1 for b in bounds[1:] if b<=off)
    try:
        q=run(lambda: pe.input.openQCD.read_qtop(d,'ens',c=0.3,L=2))
        res.setdefault(('ret',q.N-ncomplete),[]).append(off)
    except Exception as e:
        res.setdefault(('exc',type(e).__name__),[]).append(off)
for key,v in res.items(): print('qtop',key,len(v),v[:5])
print('record size', bounds[2]-bounds[1], 'hdr', bounds[0])
os.remove(fn)
