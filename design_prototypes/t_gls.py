import numpy as np, pyerrors as pe, warnings, io, contextlib, sys
import autograd.numpy as anp
from dense import snap, propagate
warnings.simplefilter('ignore')
rng=np.random.default_rng(int(sys.argv[1]) if len(sys.argv)>1 else 0)
def mk_y(x, ptrue, basis, mode):
    ys=[]
    if mode=='indep':
        for i,xi in enumerate(x):
            m=sum(p*b(xi) for p,b in zip(ptrue,basis)); ys.append(pe.Obs([rng.normal(m,0.1,40)],['e%d'%i]))
    else:
        n=50; common=rng.normal(0,0.05,n)
        for i,xi in enumerate(x):
            m=sum(p*b(xi) for p,b in zip(ptrue,basis)); ys.append(pe.Obs([m+common+rng.normal(0,0.08,n)],['ens']))
    [o.gm() for o in ys]; return ys
basis_all=[lambda x:1.0+0*x, lambda x:x, lambda x:x**2, lambda x:anp.sin(x)]
bad=0;tot=0
for it in range(60):
    k=int(rng.integers(1,4)); basis=basis_all[:k] if rng.random()<0.7 else [basis_all[0],basis_all[3]][:k]
    k=len(basis)
    npts=int(rng.integers(k+1,k+6)); x=np.sort(rng.uniform(0.2,3,npts)); ptrue=rng.normal(1,0.5,k)
    mode=rng.choice(['indep','shared']); y=mk_y(x,ptrue,basis,mode)
    def func(p,x,basis=basis): return sum(p[i]*basis[i](x) for i in range(len(basis)))
    use_pr = rng.random()<0.5; priors=None; prior_obs=[]; mask=[]
    if use_pr:
        mask=sorted(rng.choice(k,size=int(rng.integers(1,k+1)),replace=False).tolist())
        priors={}
        for m in mask:
            if rng.random()<0.5:
                po=pe.Obs([rng.normal(ptrue[m],0.3,30)],['pr%d'%m]); po.gm(); priors[int(m)]=po
            else:
                priors[int(m)]='%.2f(%d)'%(ptrue[m],30)
    corr = (mode=='shared') and rng.random()<0.5
    kw={}
    if corr: kw['correlated_fit']=True
    with contextlib.redirect_stdout(io.StringIO()):
        try: res=pe.least_squares(x,y,func,priors=priors,silent=True,**kw)
        except Exception as e: print('fit exc',e); continue
    A=np.array([[b(xi) for b in basis] for xi in x],float)
    yv=np.array([o.value for o in y]); dy=np.array([o.dvalue for o in y])
    if corr:
        c=pe.covariance(y,correlation=True); L=pe.obs.invert_corr_cov_cholesky(c,np.diag(1/dy)); W=L.T@L
    else: W=np.diag(1/dy**2)
    pobs=[res.priors[m] for m in mask] if use_pr else []
    P=np.zeros((k,k)); rhs=A.T@W@yv
    M=A.T@W@A
    Sp=np.zeros((k,len(mask)))
    for j,m in enumerate(mask):
        w=1/pobs[j].dvalue**2; M[m,m]+=w; rhs[m]+=w*pobs[j].value
    Minv=np.linalg.inv(M)
    pstar=Minv@rhs; Sy=Minv@A.T@W
    for j,m in enumerate(mask): Sp[:,j]=Minv[:,m]/pobs[j].dvalue**2
    tot+=1
    ok=True
    for i in range(k):
        ref=propagate([snap(o) for o in y]+[snap(o) for o in pobs], list(Sy[i])+list(Sp[i]), lambda v: 0.0)
        got=snap(res[i])
        if abs(res[i].value-pstar[i])>1e-7*abs(pstar[i])+1e-9: ok=False; print('value',res[i].value,pstar[i])
        if sorted(got['chains'])!=sorted(ref['chains']): ok=False; print('chains',sorted(got['chains']),sorted(ref['chains']))
        else:
            for c in ref['chains']:
                sc=np.max(np.abs(ref['chains'][c][1]))+1e-300
                if got['chains'][c][0]!=ref['chains'][c][0] or np.max(np.abs(got['chains'][c][1]-ref['chains'][c][1]))>1e-6*sc: ok=False; print('delta',c,np.max(np.abs(got['chains'][c][1]-ref['chains'][c][1]))/sc)
        if sorted(got['cov'])!=sorted(ref['cov']): ok=False; print('cov names',got['cov'].keys(),ref['cov'].keys())
        else:
            for n in ref['cov']:
                if not np.allclose(got['cov'][n][1],ref['cov'][n],rtol=1e-6): ok=False; print('covgrad')
    r=yv-A@pstar; chi=r@W@r+sum(((pstar[m]-pobs[j].value)/pobs[j].dvalue)**2 for j,m in enumerate(mask))
    if abs(chi-res.chisquare)>1e-6*max(1,chi): ok=False; print('chisq',chi,res.chisquare)
    if res.dof!=npts-k+len(mask): ok=False; print('dof')
    if not ok: bad+=1; print(' case',it,'k',k,'npts',npts,mode,'priors',priors and {m:type(v).__name__ for m,v in priors.items()},'corr',corr)
print('tot',tot,'bad',bad)
