import numpy as np, pyerrors as pe, warnings, sys
from gref import analyse
warnings.simplefilter('ignore')
rng = np.random.default_rng(int(sys.argv[1]) if len(sys.argv)>1 else 0)
def mkidl(kind, n):
    start = int(rng.integers(1, 50))
    if kind == 'range': return range(start, start + n)
    if kind == 'stride':
        s = int(rng.integers(2, 5)); return range(start, start + n * s, s)
    if kind == 'gapped':
        g = int(rng.integers(1, 4)); full = list(range(start, start + 3 * n * g, g))
        keep = sorted(rng.choice(len(full), size=n, replace=False).tolist())
        l = [full[i] for i in keep]
        # ensure min diff == g
        return l
def mkdata(kind, n):
    if kind == 'white': return rng.normal(size=n)
    if kind == 'ar':
        a = rng.uniform(0.5, 0.95); x = np.zeros(n); x[0] = rng.normal()
        for i in range(1, n): x[i] = a * x[i-1] + rng.normal()
        return x
    if kind == 'alt': return np.array([(-1)**i for i in range(n)], float) + rng.normal(scale=1e-3, size=n)
    if kind == 'const': return np.ones(n) * 3.0
bad = 0; tot = 0; skipped=0
for it in range(400):
    nrep = int(rng.integers(1, 4))
    chains = {}; samples = []; names = []; idls = []
    for r in range(nrep):
        n = int(rng.integers(5, 60)); kind = rng.choice(['range', 'stride', 'gapped'])
        idl = mkidl(kind, n); d = mkdata(rng.choice(['white', 'ar', 'alt', 'const']), n)
        names.append('E|r%d' % r); samples.append(d); idls.append(idl)
    try:
        o = pe.Obs(samples, names, idl=idls)
    except Exception as e:
        continue
    S = float(rng.choice([0, 0.5, 1, 2, 3, 6])); te = float(rng.choice([0, 0, 1.5, 5, 20])); ns = float(rng.choice([0, 1, 2]))
    fft = bool(rng.integers(0, 2))
    # common spacing requirement
    try:
        gaps=[]
        for nm in o.names:
            l=list(o.idl[nm]); gaps.append(min(b-a for a,b in zip(l,l[1:])))
        g=min(gaps)
        ok = all((b-a)%g==0 for nm in o.names for a,b in zip(list(o.idl[nm]), list(o.idl[nm])[1:]))
        if not ok: skipped+=1; continue
    except Exception: continue
    exc_code = exc_ref = None
    try: o.gamma_method(S=S, tau_exp=te, N_sigma=ns, fft=fft)
    except Exception as e: exc_code = e
    try: ref = analyse({nm: (o.idl[nm], o.deltas[nm]) for nm in o.names}, S, te, ns)
    except Exception as e: exc_ref = e
    tot += 1
    if exc_code or exc_ref:
        if bool(exc_code) != bool(exc_ref):
            bad += 1; print('EXC mismatch', repr(exc_code), repr(exc_ref), [len(s) for s in samples])
        continue
    e = 'E'
    def cl(a, b, what):
        global bad
        if not np.allclose(a, b, rtol=1e-8, atol=1e-12 * (1+abs(np.max(np.abs(b))) if np.size(b) else 1)):
            bad += 1; print('MISMATCH', what, a, b, 'S', S, 'te', te, 'ns', ns, 'fft', fft, [ (type(i).__name__, len(i)) for i in idls])
            return False
        return True
    if o.e_windowsize[e] != ref['W']:
        bad += 1; print('W mismatch', o.e_windowsize[e], ref['W'], ref.get('gW'), 'S',S,'te',te,'ns',ns,'fft',fft,'wmax',ref['w_max'],[len(s) for s in samples],[type(i).__name__ for i in idls]); print(o.e_rho[e][:6], ref['rho'][:6]); print(o.e_drho[e][:6], ref.get('drho')); continue
    cl(o.e_dvalue[e], ref['dvalue'], 'dvalue'); cl(o.e_ddvalue[e], ref['ddvalue'], 'ddvalue'); cl(o.e_tauint[e], ref['tauint'], 'tau'); cl(o.e_dtauint[e], ref['dtauint'], 'dtau')
    if len(o.e_rho[e]) != len(ref['rho']): bad += 1; print('rho len')
    else: cl(o.e_rho[e], ref['rho'], 'rho')
    if 'drho' in ref:
        exp = np.zeros(ref['w_max'])
        for k, v in ref['drho'].items(): exp[k] = v
        cl(o.e_drho[e], exp, 'drho')
print('total', tot, 'bad', bad, 'skipped', skipped)
