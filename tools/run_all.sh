#!/bin/sh
# run every claimed check once:  tools/run_all.sh [quick|thorough] [seed] [shards]
# prints one line per property (exit code, wall time, last status line); evidence goes to evidence/ unless VERIF_EVIDENCE_DIR is set
cd "$(dirname "$0")/.." || exit 2
tier=${1:-quick}; seed=${2:-0}; shards=${3:-16}
rc_all=0
for p in $(/venv/bin/python -c "import json;print(' '.join(c['property_id'] for c in json.load(open('MANIFEST.json'))['checks']))"); do
  t0=$(date +%s)
  out=$(VERIF_SEED=$seed ./check $p --tier $tier --shards $shards 2>&1); rc=$?
  t1=$(date +%s)
  echo "$p rc=$rc $((t1-t0))s $(echo "$out" | grep -c '^VIOLATION') violation(s) $(echo "$out" | grep -c '^KNOWN-FINDING') known $(echo "$out" | grep -c '^INCONCLUSIVE') inconclusive"
  if [ $rc -ne 0 ]; then rc_all=1; echo "$out" | grep -E '^(VIOLATION|INCONCLUSIVE)' | cut -c1-300 | head -5; fi
done
exit $rc_all
