#!/venv/bin/python
"""Regenerate MANIFEST.json from the property modules that exist (vmon/props/Cxx.py) and tools/manifest_meta.json."""
import json, os, sys, importlib
ROOT = os.path.dirname(os.path.dirname(os.path.abspath(__file__)))
sys.path.insert(0, ROOT)
meta = json.load(open(os.path.join(ROOT, 'tools', 'manifest_meta.json')))
import glob
for f in sorted(glob.glob(os.path.join(ROOT, 'tools', 'meta', 'C*.json'))):
    pid = os.path.basename(f)[:-5]
    if pid not in meta:
        meta[pid] = json.load(open(f))
props = [json.loads(l)['id'] for l in open(os.path.join(ROOT, 'properties.jsonl'))]
checks, na = [], []
for pid in props:
    path = os.path.join(ROOT, 'vmon', 'props', pid + '.py')
    m = meta.get(pid, {})
    if os.path.exists(path) and m.get('claimed', False):
        checks.append({
            'property_id': pid,
            'quick_cmd': './check %s --tier quick' % pid,
            'thorough_cmd': './check %s --tier thorough' % pid,
            'evidence_file': 'evidence/%s.json' % pid,
            'replay_cmd_template': './check %s --replay {path}' % pid,
            'engine': 'vmon',
            'level_claimed': {'category': m.get('category', 'exploration'), 'text': m['text'], 'design_ref': m.get('design_ref', 'DESIGN.md section 3, ' + pid)},
            'level_note': m['note'],
            'technique': m['technique'],
        })
    else:
        na.append({'property_id': pid, 'reason': m.get('na_reason', 'check not built yet (runtime monitoring applies; see DESIGN.md section 3)')})
man = {
    'version': 1,
    'setup_cmd': './setup.sh',
    'hooks': {
        'guard': 'PYERRORS_VERIF',
        'enable': 'no hook lives inside fjosw/pyerrors: the harness process sets PYERRORS_VERIF=1, imports pyerrors from /repo (VERIF_REPO) and installs boundary taps by monkeypatching (vmon/taps.py); the taps refuse to install without the variable',
        'baseline_off_cmd': 'cd /repo && env -u PYERRORS_VERIF /venv/bin/python -m pytest -ra -q -p no:cacheprovider --timeout=900 --continue-on-collection-errors',
        'source_commits': [],
        'add_only': True,
    },
    'engines': [{'name': 'vmon', 'path': 'vmon/', 'serves_properties': [c['property_id'] for c in checks],
                 'kind_free_text': 'runtime monitoring: boundary taps + independent reference models + trace checkers + fault injection, sharded over 16 worker processes, three-valued verdicts'}],
    'checks': checks,
    'not_applicable': na,
    'notes': meta.get('_notes', ''),
}
json.dump(man, open(os.path.join(ROOT, 'MANIFEST.json'), 'w'), indent=1)
print('MANIFEST.json: %d checks, %d not claimed' % (len(checks), len(na)))
