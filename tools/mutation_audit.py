#!/venv/bin/python
"""Sensitivity audit: apply each small breaking change of mutants/*.json to a scratch copy of the
repository (outside /repo and /verif, removed afterwards), run the property's quick check against
the copy (VERIF_REPO) and expect exit 1 with a VIOLATION line.

usage: tools/mutation_audit.py [--prop Cxx] [--name substring] [--tier quick] [--keep-going]
A mutant is {"name", "property", "file", "old", "new", "note"}; old must occur exactly once.
"""
import json, os, sys, glob, shutil, subprocess, tempfile, argparse, time
ROOT = os.path.dirname(os.path.dirname(os.path.abspath(__file__)))
ap = argparse.ArgumentParser()
ap.add_argument('--prop'); ap.add_argument('--name'); ap.add_argument('--tier', default='quick')
ap.add_argument('--repo', default='/repo'); ap.add_argument('--run-tests', action='store_true')
args = ap.parse_args()
muts = []
for f in sorted(glob.glob(os.path.join(ROOT, 'mutants', '*.json'))):
    for m in json.load(open(f)):
        if args.prop and m['property'] != args.prop: continue
        if args.name and args.name not in m['name']: continue
        muts.append(m)
res = []
for m in muts:
    tmp = tempfile.mkdtemp(prefix='vmut_', dir='/var/tmp')
    try:
        dst = os.path.join(tmp, 'repo')
        shutil.copytree(os.path.join(args.repo, 'pyerrors'), os.path.join(dst, 'pyerrors'))
        for extra in ('examples', 'tests'):
            if os.path.isdir(os.path.join(args.repo, extra)):
                os.symlink(os.path.join(args.repo, extra), os.path.join(dst, extra))
        p = os.path.join(dst, m['file'])
        s = open(p).read()
        if s.count(m['old']) != 1:
            res.append((m, 'STALE(old occurs %d times)' % s.count(m['old']), 0)); continue
        open(p, 'w').write(s.replace(m['old'], m['new']))
        env = dict(os.environ, VERIF_REPO=dst, VERIF_TIER=args.tier, VERIF_EVIDENCE_DIR=os.path.join(tmp, 'evidence'), VERIF_REPLAY_DIR=os.path.join(tmp, 'replay'))
        t0 = time.time()
        r = subprocess.run([os.path.join(ROOT, 'check'), m['property'], '--tier', args.tier], env=env, capture_output=True, text=True)
        viol = [l for l in r.stdout.splitlines() if l.startswith('VIOLATION')]
        status = 'CAUGHT' if (r.returncode == 1 and viol) else ('INCONCLUSIVE' if r.returncode == 2 else 'MISSED')
        if args.run_tests:
            rt = subprocess.run(['/venv/bin/python', '-m', 'pytest', '-q', '-x', '-p', 'no:cacheprovider', '-n', '8', os.path.join(args.repo, 'tests')],
                                cwd=dst, env=dict(os.environ, PYTHONPATH=dst), capture_output=True, text=True)
            status += ' tests:' + rt.stdout.strip().splitlines()[-1][:60]
        res.append((m, status, time.time() - t0, viol[:2]))
    finally:
        shutil.rmtree(tmp, ignore_errors=True)
bad = 0
for r in res:
    m, status = r[0], r[1]
    print('%-12s %-4s %-45s %s' % (status, m['property'], m['name'], (r[3][0][:110] if len(r) > 3 and r[3] else '')))
    if not status.startswith('CAUGHT'): bad += 1
print('%d mutants, %d not caught' % (len(res), bad))
# restore evidence written against the copies: re-run is the caller's business
sys.exit(1 if bad else 0)
