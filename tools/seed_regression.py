#!/venv/bin/python
"""Regression over the kept seeded changes: apply each seeded/<name>/patch.diff to a scratch copy of /repo (outside /repo and
/verif, removed afterwards), run the quick check of its property against the copy and expect exit 1 with a VIOLATION line.

usage: tools/seed_regression.py [--name substring] [--lanes 4] [--shards 8]
Prints one line per seeded change and a summary; exit 0 when every change that applies is caught.
"""
import argparse, glob, json, os, shutil, subprocess, sys, tempfile, time
from concurrent.futures import ThreadPoolExecutor
ROOT = os.path.dirname(os.path.dirname(os.path.abspath(__file__)))
ap = argparse.ArgumentParser()
ap.add_argument('--name'); ap.add_argument('--lanes', type=int, default=4); ap.add_argument('--shards', type=int, default=8)
ap.add_argument('--repo', default='/repo')
a = ap.parse_args()
seeds = sorted(d for d in glob.glob(os.path.join(ROOT, 'seeded', '*')) if os.path.exists(os.path.join(d, 'patch.diff')))
if a.name:
    seeds = [d for d in seeds if a.name in os.path.basename(d)]


def one(d):
    name = os.path.basename(d)
    prop = json.load(open(os.path.join(d, 'meta.json')))['property']
    tmp = tempfile.mkdtemp(prefix='vseed_', dir='/var/tmp')
    try:
        dst = os.path.join(tmp, 'repo')
        os.makedirs(dst)
        shutil.copytree(os.path.join(a.repo, 'pyerrors'), os.path.join(dst, 'pyerrors'))
        for extra in ('examples', 'tests'):
            if os.path.isdir(os.path.join(a.repo, extra)):
                os.symlink(os.path.join(a.repo, extra), os.path.join(dst, extra))
        r = subprocess.run(['patch', '-p1', '-s', '-i', os.path.join(d, 'patch.diff')], cwd=dst, capture_output=True, text=True)
        if r.returncode != 0:
            return name, prop, 'DOES-NOT-APPLY', ''
        env = dict(os.environ, VERIF_REPO=dst, VERIF_EVIDENCE_DIR=os.path.join(tmp, 'ev'), VERIF_REPLAY_DIR=os.path.join(tmp, 'rp'))
        r = subprocess.run([os.path.join(ROOT, 'check'), prop, '--shards', str(a.shards)], env=env, capture_output=True, text=True)
        viol = [l for l in r.stdout.splitlines() if l.startswith('VIOLATION')]
        status = 'CAUGHT' if r.returncode == 1 and viol else ('INCONCLUSIVE' if r.returncode == 2 else 'MISSED')
        mech = viol[0].split('mechanism=')[1].split()[0] if viol else ''
        return name, prop, status, mech
    finally:
        shutil.rmtree(tmp, ignore_errors=True)


t0 = time.time()
with ThreadPoolExecutor(max_workers=a.lanes) as ex:
    res = list(ex.map(one, seeds))
bad = 0
for name, prop, status, mech in res:
    print('%-14s %-12s %s %s' % (status, name, prop, mech))
    if status not in ('CAUGHT',):
        bad += 1
print('%d seeded changes, %d not caught, %.0f s' % (len(res), bad, time.time() - t0))
sys.exit(1 if bad else 0)
