#!/venv/bin/python
"""Confirm a seeded breaking change and record it under /verif/seeded/<name>/.

usage: tools/verify_seed.py <name> <property> <dir with patch.diff demo.py NOTES.md> [--also Cxx,Cyy] [--thorough]

Steps (all in a fresh scratch worktree of /repo under /var/tmp, removed afterwards):
  1. demo.py passes on the pristine tree            2. patch applies; demo.py fails with it
  3. the repository's 250 stable tests still pass   4. ./check <property> (VERIF_REPO=worktree) -> exit 1 + VIOLATION ?
Writes seeded/<name>/{patch.diff, demo.py, NOTES.md, meta.json}.
"""
import sys, os, json, shutil, subprocess, tempfile, time, argparse
import xml.etree.ElementTree as ET

ROOT = os.path.dirname(os.path.dirname(os.path.abspath(__file__)))
ap = argparse.ArgumentParser()
ap.add_argument('name'); ap.add_argument('prop'); ap.add_argument('src')
ap.add_argument('--also', default=''); ap.add_argument('--thorough', action='store_true'); ap.add_argument('--skip-tests', action='store_true')
ap.add_argument('--jobs', default='8')
a = ap.parse_args()
ENV = dict(os.environ, OPENBLAS_NUM_THREADS='1', OMP_NUM_THREADS='1', MKL_NUM_THREADS='1', MPLBACKEND='Agg')
base = json.load(open('/root/.vp/BASELINE.json'))
stable = set(base['stable_pass'])
wt = tempfile.mkdtemp(prefix='seedverify_', dir='/var/tmp')
os.rmdir(wt)
meta = {'name': a.name, 'property': a.prop, 'ran': []}


def run(cmd, cwd=None, env=ENV, timeout=3600):
    t0 = time.time()
    r = subprocess.run(cmd, cwd=cwd, env=env, capture_output=True, text=True, timeout=timeout)
    meta['ran'].append({'cmd': ' '.join(cmd), 'cwd': cwd, 'rc': r.returncode, 'wall_s': round(time.time() - t0, 1)})
    return r


try:
    subprocess.run(['git', '-C', '/repo', 'worktree', 'add', '-q', '--detach', wt, 'HEAD'], check=True)
    meta['repo_commit'] = subprocess.run(['git', '-C', '/repo', 'rev-parse', '--short', 'HEAD'], capture_output=True, text=True).stdout.strip()
    os.makedirs(os.path.join(wt, 'SEED'))
    shutil.copy(os.path.join(a.src, 'demo.py'), os.path.join(wt, 'SEED', 'demo.py'))
    r = run(['/venv/bin/python', 'SEED/demo.py'], cwd=wt)
    meta['demo_pristine_rc'] = r.returncode
    r = run(['git', '-C', wt, 'apply', os.path.abspath(os.path.join(a.src, 'patch.diff'))])
    meta['patch_applies'] = r.returncode == 0
    if r.returncode != 0:
        meta['patch_error'] = r.stderr[-500:]
    r = run(['/venv/bin/python', 'SEED/demo.py'], cwd=wt)
    meta['demo_patched_rc'] = r.returncode
    meta['demo_patched_tail'] = (r.stdout + r.stderr)[-400:]
    if not a.skip_tests:
        junit = os.path.join(wt, 'SEED', 'junit.xml')
        # the baseline command (serial: tests/obs_test.py::test_merge_obs depends on the test order under xdist)
        r = run(['/venv/bin/python', '-m', 'pytest', '-ra', '-q', '-p', 'no:cacheprovider', '--timeout=900', '--continue-on-collection-errors', '--junitxml=' + junit], cwd=wt)
        passed = set()
        for tc in ET.parse(junit).getroot().iter('testcase'):
            if not any(ch.tag in ('failure', 'error', 'skipped') for ch in tc):
                passed.add(tc.get('classname') + '::' + tc.get('name'))
        missing = sorted(stable - passed)
        meta['tests_stable_passed'] = len(stable & passed)
        meta['tests_stable_missing'] = missing
    checks = [a.prop] + [c for c in a.also.split(',') if c]
    meta['checks'] = {}
    for c in checks:
        for tier in (['quick', 'thorough'] if a.thorough else ['quick']):
            env = dict(ENV, VERIF_REPO=wt, VERIF_EVIDENCE_DIR=os.path.join(wt, 'SEED', 'ev'), VERIF_REPLAY_DIR=os.path.join(wt, 'SEED', 'rp'))
            r = run([os.path.join(ROOT, 'check'), c, '--tier', tier], env=env)
            viol = [l[:300] for l in r.stdout.splitlines() if l.startswith('VIOLATION')]
            meta['checks'][c + ':' + tier] = {'rc': r.returncode, 'violations': viol[:6], 'n_violation_lines': len(viol),
                                             'inconclusive': [l[:200] for l in r.stdout.splitlines() if l.startswith('INCONCLUSIVE')][:3]}
            if r.returncode == 1:
                break
finally:
    subprocess.run(['git', '-C', '/repo', 'worktree', 'remove', '--force', wt])
    shutil.rmtree(wt, ignore_errors=True)

ok_demo = meta.get('demo_pristine_rc') == 0 and meta.get('demo_patched_rc', 0) != 0
ok_tests = a.skip_tests or not meta.get('tests_stable_missing')
caught = any(v['rc'] == 1 and v['n_violation_lines'] for k, v in meta['checks'].items() if k.startswith(a.prop + ':'))
meta['confirmed'] = bool(ok_demo and ok_tests and meta.get('patch_applies'))
meta['caught_by_own_check'] = bool(caught)
dst = os.path.join(ROOT, 'seeded', a.name)
if meta['confirmed']:
    os.makedirs(dst, exist_ok=True)
    for f in ('patch.diff', 'demo.py', 'NOTES.md'):
        if os.path.exists(os.path.join(a.src, f)):
            shutil.copy(os.path.join(a.src, f), os.path.join(dst, f))
    notes = open(os.path.join(a.src, 'NOTES.md')).read() if os.path.exists(os.path.join(a.src, 'NOTES.md')) else ''
    meta['needs_to_manifest'] = notes[:1500]
    old_meta = os.path.join(dst, 'meta.json')
    if a.skip_tests and os.path.exists(old_meta):
        prev = json.load(open(old_meta))
        for k in ('tests_stable_passed', 'tests_stable_missing'):
            if k in prev:
                meta[k] = prev[k]
        meta['tests_note'] = 'test-suite result carried over from the previous verification of the same patch'
    json.dump(meta, open(old_meta, 'w'), indent=1)
print(json.dumps({k: meta[k] for k in ('name', 'property', 'confirmed', 'caught_by_own_check', 'demo_pristine_rc', 'demo_patched_rc', 'patch_applies') if k in meta}))
print('tests: stable passed %s, missing %s' % (meta.get('tests_stable_passed'), meta.get('tests_stable_missing')))
for k, v in meta['checks'].items():
    print(k, 'rc=%d' % v['rc'], (v['violations'][:2] or v['inconclusive'][:2]))
sys.exit(0 if meta['confirmed'] else 1)
