#!/venv/bin/python
"""Which lines of /repo/pyerrors does the workload of the checks execute?  Runs every property's worker (tier quick, one shard,
generous CPU budget) under coverage.py and prints, per source file, the line ranges never executed, with the enclosing function.
The report is a map of blind spots (functions, options and branches no judged case reaches), not evidence of correctness.

usage: tools/line_coverage.py [--props C01,C02] [--budget 400] [--jobs 10] [--out /var/tmp/linecov]
"""
import argparse, ast, json, os, shutil, subprocess, sys, tempfile
from concurrent.futures import ThreadPoolExecutor
ROOT = os.path.dirname(os.path.dirname(os.path.abspath(__file__)))
ap = argparse.ArgumentParser()
ap.add_argument('--props', default=''); ap.add_argument('--budget', default='400'); ap.add_argument('--jobs', type=int, default=10)
ap.add_argument('--out', default='/var/tmp/linecov'); ap.add_argument('--repo', default='/repo')
a = ap.parse_args()
props = [p for p in a.props.split(',') if p] or [c['property_id'] for c in json.load(open(os.path.join(ROOT, 'MANIFEST.json')))['checks']]
os.makedirs(a.out, exist_ok=True)
deps = os.path.join(ROOT, '.deps')
env = dict(os.environ, PYTHONPATH=ROOT + os.pathsep + deps, PYTHONHASHSEED='0', MPLBACKEND='Agg', PYERRORS_VERIF='1', OMP_NUM_THREADS='1',
           OPENBLAS_NUM_THREADS='1', VERIF_REPO=a.repo, PYTHONDONTWRITEBYTECODE='1')


def one(p):
    data = os.path.join(a.out, '.coverage.' + p)
    if os.path.exists(data):
        os.remove(data)
    out = os.path.join(a.out, p + '.json')
    cmd = ['/venv/bin/python', '-m', 'coverage', 'run', '--data-file=' + data, '--source=' + os.path.join(a.repo, 'pyerrors'),
           '-m', 'vmon.worker', p, 'quick', '0', '0', '1', a.budget, out]
    r = subprocess.run(cmd, cwd=ROOT, env=env, capture_output=True, text=True)
    return p, r.returncode, (r.stderr or '')[-300:]


with ThreadPoolExecutor(max_workers=a.jobs) as ex:
    for p, rc, err in ex.map(one, props):
        print('ran', p, 'rc', rc, err.replace('\n', ' | ')[:200] if rc else '')
comb = os.path.join(a.out, '.coverage')
subprocess.run(['/venv/bin/python', '-m', 'coverage', 'combine', '--keep', '--data-file=' + comb] + [os.path.join(a.out, '.coverage.' + p) for p in props],
               cwd=ROOT, capture_output=True)
rep = os.path.join(a.out, 'coverage.json')
subprocess.run(['/venv/bin/python', '-m', 'coverage', 'json', '--data-file=' + comb, '-o', rep], cwd=ROOT, capture_output=True)
cov = json.load(open(rep))
lines_out = []
for f in sorted(cov['files']):
    info = cov['files'][f]
    missing = info['missing_lines']
    if not missing:
        continue
    src = open(f).read()
    tree = ast.parse(src)
    spans = []
    for node in ast.walk(tree):
        if isinstance(node, (ast.FunctionDef, ast.AsyncFunctionDef, ast.ClassDef)):
            spans.append((node.lineno, node.end_lineno, node.name))

    def owner(l):
        best = None
        for s, e, n in spans:
            if s <= l <= e and (best is None or s >= best[0]):
                best = (s, e, n)
        return best[2] if best else '<module>'
    # group consecutive lines
    groups, cur = [], [missing[0]]
    for l in missing[1:]:
        if l == cur[-1] + 1:
            cur.append(l)
        else:
            groups.append(cur)
            cur = [l]
    groups.append(cur)
    lines_out.append('%s: %d of %d statements never executed (%.1f%% executed)' % (os.path.relpath(f, a.repo), len(missing),
                     info['summary']['num_statements'], info['summary']['percent_covered']))
    srcl = src.splitlines()
    for g in groups:
        lines_out.append('   %4d-%-4d %-34s %s' % (g[0], g[-1], owner(g[0]), srcl[g[0] - 1].strip()[:90]))
open(os.path.join(a.out, 'missing.txt'), 'w').write('\n'.join(lines_out) + '\n')
print('\n'.join(l for l in lines_out if not l.startswith('   ')))
print('details:', os.path.join(a.out, 'missing.txt'))
