#!/bin/sh
# everything that must hold before the state is final: tools/final_validation.sh [outdir]
#   quick seeds 0-3, thorough seeds 0-1 (evidence redirected), mutation audit of all properties, regression over all seeded changes,
#   then one plain quick run per property at seed 0 so that evidence/ holds the quick seed-0 run of the current tree
cd "$(dirname "$0")/.." || exit 2
out=${1:-/var/tmp/final}; mkdir -p "$out"
props=$(/venv/bin/python -c "import json;print(' '.join(c['property_id'] for c in json.load(open('MANIFEST.json'))['checks']))")
rc=0
for s in 0 1 2 3; do VERIF_EVIDENCE_DIR=$out/ev_q$s tools/run_all.sh quick $s 16 > "$out/quick_seed$s.log" 2>&1 || rc=1; done
for s in 0 1; do VERIF_EVIDENCE_DIR=$out/ev_t$s tools/run_all.sh thorough $s 16 > "$out/thorough_seed$s.log" 2>&1 || rc=1; done
( for p in $props; do VERIF_JOBS=8 tools/mutation_audit.py --prop $p; done ) > "$out/audit.log" 2>&1
grep -E "MISSED|STALE|INCONCLUSIVE" "$out/audit.log" && rc=1
tools/seed_regression.py --lanes 4 --shards 8 > "$out/seed_regression.log" 2>&1 || rc=1
tools/run_all.sh quick 0 16 > "$out/quick_final.log" 2>&1 || rc=1
echo "final validation rc=$rc (logs in $out)"
exit $rc
